#!/usr/bin/env python3
"""Confirm a seeded change in a scratch worktree and, if confirmed, store it under /verif/seeded/<id>/.

usage: tools_seed_adopt.py <seed-dir> <worktree> <PROP> [--selftest-off]
"""
import json, os, re, shutil, subprocess, sys
HERE = os.path.dirname(os.path.abspath(__file__))


def main():
    seed, wt, prop = sys.argv[1].rstrip("/"), sys.argv[2], sys.argv[3].upper()
    sid = os.path.basename(seed)
    out = subprocess.run([os.path.join(HERE, "tools_seed_confirm.sh"), seed, wt], capture_output=True, text=True).stdout.strip()
    print(sid, out)
    m = re.search(r"demo_clean=(\d+) compile=(\d+) demo_patched=(\d+) tests: (.*)", out)
    if not m:
        print("  NOT CONFIRMED (script failed)")
        return 1
    clean, comp, patched, tests = int(m.group(1)), int(m.group(2)), int(m.group(3)), m.group(4)
    ok = clean == 0 and comp == 0 and patched != 0 and "108 passed" in tests
    ev = subprocess.run([sys.executable, os.path.join(HERE, "tools_seed_eval.py"), seed], capture_output=True, text=True).stdout
    detected = sorted(set(re.findall(r"^(C\d\d): \d+ new violations", ev, re.M)) - set(
        p for p in re.findall(r"^(C\d\d): 0 new violations", ev, re.M)))
    rules = sorted(set(re.findall(r"VIOLATION (R\d+)", ev)))
    print("  confirmed=%s detected_by=%s rules=%s" % (ok, detected, rules))
    if not ok:
        return 1
    dst = os.path.join(HERE, "seeded", sid)
    os.makedirs(dst, exist_ok=True)
    for f in ("patch.diff", "demo.py", "notes.md"):
        if os.path.exists(os.path.join(seed, f)):
            shutil.copy(os.path.join(seed, f), os.path.join(dst, f))
    notes = open(os.path.join(seed, "notes.md")).read() if os.path.exists(os.path.join(seed, "notes.md")) else ""
    needs = " ".join(notes.split())[:600]
    meta = {
        "property": prop,
        "breaks": "see notes.md (written by the independent sub-agent that produced the change)",
        "needs": needs,
        "confirmed_in": wt,
        "what_was_run": "tools_seed_confirm.sh: demo.py on the clean worktree (exit %d), git apply patch.diff, py_compile of edited files (exit %d), "
                        "pytest sktime/utils (%s), demo.py on the patched worktree (exit %d), worktree restored" % (clean, comp, tests, patched),
        "detected_by": detected,
        "detected_rules": rules,
        "selftest": (prop in detected) and "--selftest-off" not in sys.argv,
    }
    json.dump(meta, open(os.path.join(dst, "meta.json"), "w"), indent=1)
    return 0


if __name__ == "__main__":
    sys.exit(main())
