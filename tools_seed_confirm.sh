#!/bin/bash
# usage: tools_seed_confirm.sh <seed-dir> <worktree>   -- confirms a seeded change in a scratch worktree (never /repo)
# prints: demo_clean=<rc> compile=<rc> tests_passed=<n> demo_patched=<rc>
SEED="$1"; WT="$2"
case "$WT" in /repo|/repo/*|/verif*) echo "refusing to work in $WT"; exit 2;; esac
git -C "$WT" checkout -q -- . ; git -C "$WT" clean -fdq
( cd "$WT" && timeout 600 /venv/bin/python "$SEED/demo.py" >/tmp/seed_demo_clean.log 2>&1 ); RC_CLEAN=$?
git -C "$WT" apply "$SEED/patch.diff" || { echo "patch does not apply"; exit 2; }
FILES=$(git -C "$WT" diff --name-only | grep '\.py$')
RC_COMP=0; for f in $FILES; do /venv/bin/python -m py_compile "$WT/$f" || RC_COMP=1; done
find "$WT" -name __pycache__ -type d -prune -exec rm -rf {} + 2>/dev/null
PASSED=$( cd "$WT" && timeout 1500 /venv/bin/python -m pytest -q -p no:cacheprovider --timeout=900 --continue-on-collection-errors sktime/utils 2>&1 | tail -1 )
( cd "$WT" && timeout 600 /venv/bin/python "$SEED/demo.py" >/tmp/seed_demo_patched.log 2>&1 ); RC_PATCHED=$?
git -C "$WT" checkout -q -- . ; git -C "$WT" clean -fdq
echo "demo_clean=$RC_CLEAN compile=$RC_COMP demo_patched=$RC_PATCHED tests: $PASSED"
