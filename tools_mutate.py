#!/usr/bin/env python3
"""Mechanical mutation sweep over the anchored functions of a property (development tool, not a registered check).

usage: tools_mutate.py PROP [--jobs N] [--out FILE] [--limit N] [--funcs a,b,c]

For every function named in the property's anchors (``mechanism[].where`` / ``state[].where``) inside the anchor
files, single-node AST mutants are generated (comparison / arithmetic / boolean operator swaps, +-1 on integer
constants, True<->False, dropped ``not``, dropped call statements / self-stores / raises, swapped call arguments,
``return self`` -> ``return None``), applied as an in-memory overlay, and the property's check is run on each.
Survivors (no new VIOLATION) are written to ``--out`` for triage: they are either equivalent / out-of-scope
mutants or gaps of the check.  Nothing is written to /repo.
"""
import ast
import copy
import glob
import json
import multiprocessing
import os
import re
import sys
import time

HERE = os.path.dirname(os.path.abspath(__file__))
sys.path.insert(0, HERE)
from sa.index import Repo, AnalysisError  # noqa: E402
from sa import report, selftest  # noqa: E402

ROOT = os.environ.get("SA_REPO_ROOT", "/repo")

CMP_SWAP = {ast.Lt: [ast.LtE, ast.Gt], ast.LtE: [ast.Lt], ast.Gt: [ast.GtE, ast.Lt], ast.GtE: [ast.Gt], ast.Eq: [ast.NotEq],
            ast.NotEq: [ast.Eq], ast.Is: [ast.IsNot], ast.IsNot: [ast.Is], ast.In: [ast.NotIn], ast.NotIn: [ast.In]}
BIN_SWAP = {ast.Add: [ast.Sub], ast.Sub: [ast.Add], ast.Mult: [ast.FloorDiv], ast.FloorDiv: [ast.Mult], ast.Div: [ast.Mult],
            ast.Mod: [ast.FloorDiv]}


def anchor_functions(prop):
    names = set()
    files = []
    for m in prop["anchors"].get("mechanism", []) + prop["anchors"].get("state", []):
        names.update(re.findall(r"[A-Za-z_][A-Za-z0-9_]*", m.get("where", "")))
    for f in prop["anchors"]["files"]:
        f = f.split(" ")[0]
        if "*" in f:
            files += [os.path.relpath(p, ROOT) for p in glob.glob(os.path.join(ROOT, f), recursive=True)]
        else:
            files.append(f)
    files = sorted({f for f in files if f.endswith(".py") and os.path.exists(os.path.join(ROOT, f)) and "/tests/" not in f})
    return names, files


def iter_functions(tree):
    for node in ast.walk(tree):
        if isinstance(node, (ast.FunctionDef, ast.AsyncFunctionDef)):
            yield node


def mutants_of(fn):
    """Yield (description, mutated copy of fn)."""
    nodes = list(ast.walk(fn))
    for i, n in enumerate(nodes):
        def mk(edit, desc, i=i):
            f2 = copy.deepcopy(fn)
            tgt = list(ast.walk(f2))[i]
            if edit(tgt, f2) is False:
                return None
            return ("L%s %s" % (getattr(n, "lineno", "?"), desc), f2)
        if isinstance(n, ast.Compare):
            for j, op in enumerate(n.ops):
                for new in CMP_SWAP.get(type(op), []):
                    yield mk(lambda t, f2, j=j, new=new: t.ops.__setitem__(j, new()), "cmp %s->%s in `%s`" % (type(op).__name__, new.__name__, ast.unparse(n)[:60]))
        elif isinstance(n, ast.BinOp):
            for new in BIN_SWAP.get(type(n.op), []):
                if isinstance(n.op, (ast.Mod, ast.Add)) and (isinstance(n.left, (ast.Constant, ast.JoinedStr)) and isinstance(getattr(n.left, "value", None), str)
                                                             or isinstance(n.left, ast.JoinedStr)):
                    continue
                yield mk(lambda t, f2, new=new: setattr(t, "op", new()), "binop %s->%s in `%s`" % (type(n.op).__name__, new.__name__, ast.unparse(n)[:60]))
        elif isinstance(n, ast.BoolOp):
            new = ast.Or if isinstance(n.op, ast.And) else ast.And
            yield mk(lambda t, f2, new=new: setattr(t, "op", new()), "boolop -> %s in `%s`" % (new.__name__, ast.unparse(n)[:60]))
        elif isinstance(n, ast.UnaryOp) and isinstance(n.op, ast.Not):
            def drop_not(t, f2):
                for p in ast.walk(f2):
                    for field, val in ast.iter_fields(p):
                        if val is t:
                            setattr(p, field, t.operand)
                            return
                        if isinstance(val, list) and any(v is t for v in val):
                            val[[v is t for v in val].index(True)] = t.operand
                            return
                return False
            yield mk(drop_not, "drop not in `%s`" % ast.unparse(n)[:60])
        elif isinstance(n, ast.Constant):
            if isinstance(n.value, bool):
                yield mk(lambda t, f2: setattr(t, "value", not t.value), "const %r flipped" % n.value)
            elif isinstance(n.value, int) and abs(n.value) <= 3:
                yield mk(lambda t, f2: setattr(t, "value", t.value + 1), "const %r + 1" % n.value)
                yield mk(lambda t, f2: setattr(t, "value", t.value - 1), "const %r - 1" % n.value)
        elif isinstance(n, ast.UnaryOp) and isinstance(n.op, ast.USub):
            pass
        elif isinstance(n, ast.Call):
            if len(n.args) >= 2 and all(isinstance(a, (ast.Name, ast.Attribute)) for a in n.args[:2]) and ast.dump(n.args[0]) != ast.dump(n.args[1]):
                def swap(t, f2):
                    t.args[0], t.args[1] = t.args[1], t.args[0]
                yield mk(swap, "swap args of `%s`" % ast.unparse(n)[:60])
        elif isinstance(n, ast.Return) and isinstance(n.value, ast.Name) and n.value.id == "self":
            yield mk(lambda t, f2: setattr(t, "value", ast.Constant(None)), "return self -> None")
    # statement deletions
    for i, n in enumerate(nodes):
        body_holder = None
        if not isinstance(n, ast.stmt) or n is fn:
            continue
        droppable = (isinstance(n, ast.Expr) and isinstance(n.value, ast.Call)) or isinstance(n, ast.Raise) or (
            isinstance(n, (ast.Assign, ast.AugAssign)))
        if not droppable:
            continue

        def drop(t, f2):
            for p in ast.walk(f2):
                for field in ("body", "orelse", "finalbody"):
                    lst = getattr(p, field, None)
                    if isinstance(lst, list) and any(v is t for v in lst):
                        k = [v is t for v in lst].index(True)
                        lst[k] = ast.Pass()
                        return
            return False
        f2 = copy.deepcopy(fn)
        tgt = list(ast.walk(f2))[i]
        if drop(tgt, f2) is not False:
            yield ("L%s drop `%s`" % (n.lineno, ast.unparse(n)[:70].replace("\n", " ")), f2)


def splice(src, fn, new_fn):
    lines = src.split("\n")
    start = min([fn.lineno] + [d.lineno for d in fn.decorator_list]) - 1
    end = fn.end_lineno
    ind = " " * fn.col_offset
    text = ast.unparse(new_fn)
    new_lines = [(ind + l if l.strip() else l) for l in text.split("\n")]
    return "\n".join(lines[:start] + new_lines + lines[end:])


def generate(prop, only=None):
    names, files = anchor_functions(prop)
    out = []
    for rel in files:
        src = open(os.path.join(ROOT, rel), encoding="utf-8").read()
        try:
            tree = ast.parse(src)
        except SyntaxError:
            continue
        for fn in iter_functions(tree):
            if fn.name not in names or (only and fn.name not in only):
                continue
            seen = set()
            for m in mutants_of(fn):
                if m is None:
                    continue
                desc, f2 = m
                try:
                    ast.fix_missing_locations(f2)
                    new_src = splice(src, fn, f2)
                    ast.parse(new_src)
                except Exception:
                    continue
                key = ast.dump(f2)
                if key in seen or key == ast.dump(fn):
                    continue
                seen.add(key)
                out.append({"file": rel, "func": fn.name, "line": fn.lineno, "desc": desc, "src": new_src})
    return out


_BASE = {}


def _run(job):
    prop, m = job
    from sa.cli import run_property
    known = {"%s|%s|%s" % (k["property"], k["rule"], k["construct"]) for k in report.load_known() if k.get("status", "known") == "known"}
    try:
        if prop not in _BASE:
            base = run_property(prop, Repo(ROOT))
            _BASE[prop] = (selftest._violation_keys(base, known), selftest._undecided_keys(base))
        bv, bu = _BASE[prop]
        ctx = run_property(prop, Repo(ROOT, overlay={m["file"]: m["src"]}))
        nv = selftest._violation_keys(ctx, known) - bv
        nu = selftest._undecided_keys(ctx) - bu
    except AnalysisError as e:
        nv, nu = set(), {("analysis", str(e))}
    except Exception as e:  # noqa
        return {"file": m["file"], "func": m["func"], "desc": m["desc"], "status": "error", "why": repr(e)[:200]}
    st = "killed" if nv else ("undecided" if nu else "survived")
    return {"file": m["file"], "func": m["func"], "desc": m["desc"], "status": st,
            "rules": sorted({k[0] for k in nv})[:4]}


def main():
    args = sys.argv[1:]
    prop_id = args[0].upper()
    jobs = int(args[args.index("--jobs") + 1]) if "--jobs" in args else 16
    out = args[args.index("--out") + 1] if "--out" in args else "/tmp/mut_%s.json" % prop_id
    limit = int(args[args.index("--limit") + 1]) if "--limit" in args else None
    only = set(args[args.index("--funcs") + 1].split(",")) if "--funcs" in args else None
    prop = next(json.loads(l) for l in open(os.path.join(HERE, "properties.jsonl")) if json.loads(l)["id"] == prop_id)
    t0 = time.time()
    muts = generate(prop, only)
    if limit:
        muts = muts[:limit]
    print("%s: %d mutants over %d functions" % (prop_id, len(muts), len({(m["file"], m["func"], m["line"]) for m in muts})))
    with multiprocessing.Pool(jobs) as pool:
        res = pool.map(_run, [(prop_id, m) for m in muts], chunksize=4)
    counts = {}
    for r in res:
        counts[r["status"]] = counts.get(r["status"], 0) + 1
    print("%s: %s (%.0fs)" % (prop_id, counts, time.time() - t0))
    json.dump([r for r in res if r["status"] != "killed"], open(out, "w"), indent=1)
    by_func = {}
    for r in res:
        d = by_func.setdefault((r["file"], r["func"]), {"killed": 0, "survived": 0, "undecided": 0, "error": 0})
        d[r["status"]] += 1
    for (f, fn), d in sorted(by_func.items()):
        print("  %-60s %-34s %s" % (f, fn, " ".join("%s=%d" % kv for kv in d.items() if kv[1])))


if __name__ == "__main__":
    main()
