"""Model conformance for "pass-through" helpers (engine E6-lite).

Several rules *model* a validation helper as "returns its argument (or the argument's
index) unchanged".  That trust is an obligation: this module decides it from the helper's
source.  ``classify(repo, module, fn, param)`` runs a flow-insensitive may-provenance
analysis over the function body and classifies every ``return``:

  SAME      the value is the parameter, its ``.index`` / ``.values`` / a container
            conversion of it (``pd.Index(x)``, ``np.asarray(x)``), or the result of another
            repository helper that is itself (recursively) a pass-through of that argument;
  CHANGED   an operation of *known* length/element-changing semantics lies on the way
            (``dropna``, ``unique``, ``drop_duplicates``, ``head``/``tail``, ``sort_*``, a
            non-trivial subscript, ``reset_index`` ...): the contract is broken, the op and
            a witness kind are reported;
  UNKNOWN   anything else that touches the value (cannot be decided).

Only names are tracked (no heap); a loop that rebinds a tracked name makes it UNKNOWN.
"""
import ast

from .index import dotted

SAME, OTHER = "same", "other"

SAME_ATTRS = {"index", "values", "array"}
SAME_CTORS = {"pandas.Index", "numpy.asarray", "numpy.array", "numpy.asanyarray", "pandas.Series", "builtins.list",
              "numpy.ravel"}
SAME_METHODS = {"copy", "to_numpy", "ravel", "view", "to_list", "tolist", "to_series", "to_frame", "squeeze",
                "to_period", "to_timestamp"}
# operations whose result is, for some input, not the receiver's elements in the receiver's order
CHANGING_METHODS = {
    "dropna": "a series with a missing observation",
    "unique": "a repeated value",
    "drop_duplicates": "a repeated value",
    "head": "more than 5 elements", "tail": "more than 5 elements",
    "sort_values": "an unsorted input (which the helper is meant to reject / keep)",
    "sort_index": "an unsorted input (which the helper is meant to reject / keep)",
    "reset_index": "any non-default index", "drop": "any input", "sample": "any input", "truncate": "any input",
    "asfreq": "an index with gaps", "resample": "an index with gaps", "reindex": "any input",
    "interpolate": None, "fillna": None, "astype": None,
    "first_valid_index": "any input", "last_valid_index": "any input",
}
CHANGING_FUNCS = {"numpy.unique": "a repeated value", "numpy.sort": "an unsorted input", "builtins.sorted": "an unsorted input",
                  "builtins.set": "a repeated value", "numpy.trim_zeros": "leading zeros"}


class Res:
    def __init__(self, tag, why="", node=None, witness=None):
        self.tag, self.why, self.node, self.witness = tag, why, node, witness

    def __repr__(self):
        return "%s(%s)" % (self.tag, self.why)


def _join(a, b):
    out = dict(a)
    for k, v in b.items():
        out[k] = out.get(k, set()) | v
    return out


class _An:
    def __init__(self, repo, module, fn, param, stack):
        self.repo, self.module, self.fn, self.param, self.stack = repo, module, fn, param, stack
        self.returns = []

    # -- expression -> set of Res
    def ev(self, e, env):
        if isinstance(e, ast.Name):
            return env.get(e.id, {Res(OTHER)})
        if isinstance(e, ast.Constant):
            return {Res(OTHER)}
        if isinstance(e, ast.Attribute):
            base = self.ev(e.value, env)
            return self._map(base, lambda r: Res(SAME) if e.attr in SAME_ATTRS else Res("unknown", "attribute .%s" % e.attr, e))
        if isinstance(e, ast.Subscript):
            base = self.ev(e.value, env)
            full = isinstance(e.slice, ast.Slice) and e.slice.lower is None and e.slice.upper is None and e.slice.step is None
            return self._map(base, lambda r: Res(SAME) if full else Res(
                "changed", "subscript `%s`" % ast.unparse(e), e, "any input the subscript does not cover"))
        if isinstance(e, ast.IfExp):
            return self.ev(e.body, env) | self.ev(e.orelse, env)
        if isinstance(e, ast.Call):
            return self.call(e, env)
        if isinstance(e, (ast.BinOp, ast.UnaryOp, ast.BoolOp, ast.Compare)):
            subs = [s for s in ast.iter_child_nodes(e) if isinstance(s, ast.expr)]
            touched = any(r.tag != OTHER for s in subs for r in self.ev(s, env))
            if isinstance(e, ast.Compare) or not touched:
                return {Res(OTHER)}
            return {Res("unknown", "arithmetic `%s`" % ast.unparse(e), e)}
        touched = any(r.tag != OTHER for s in ast.walk(e) if isinstance(s, ast.Name) for r in env.get(s.id, ()))
        return {Res("unknown", "expression `%s`" % ast.unparse(e)[:60], e)} if touched else {Res(OTHER)}

    @staticmethod
    def _map(base, f):
        out = set()
        for r in base:
            out.add(f(r) if r.tag == SAME else r)
        return out

    def call(self, c, env):
        name = dotted(c.func)
        # method on a tracked receiver
        if isinstance(c.func, ast.Attribute):
            recv = self.ev(c.func.value, env)
            if any(r.tag != OTHER for r in recv):
                m = c.func.attr

                def f(r):
                    if m in SAME_METHODS:
                        return Res(SAME)
                    if m in CHANGING_METHODS:
                        return Res("changed", "`.%s(...)`" % m, c, CHANGING_METHODS[m] or "values are rewritten")
                    return Res("unknown", "method .%s" % m, c)
                return self._map(recv, f)
        argtags = [self.ev(a, env) for a in c.args] + [self.ev(k.value, env) for k in c.keywords]
        touched = [i for i, t in enumerate(argtags) if any(r.tag != OTHER for r in t)]
        if not touched:
            return {Res(OTHER)}
        ext = None
        sym = self.repo.resolve_dotted(self.module, name) if name else None
        if sym is not None and sym.kind == "ext":
            ext = sym.dotted
        if sym is None and name in ("len", "isinstance", "type", "repr", "str", "hasattr", "list", "sorted", "set"):
            ext = "builtins." + name
        if ext in SAME_CTORS and touched == [0]:
            return argtags[0]
        if ext in CHANGING_FUNCS and 0 in touched:
            return self._map(argtags[0], lambda r: Res("changed", "`%s(...)`" % name, c, CHANGING_FUNCS[ext]))
        if ext in ("builtins.len", "builtins.isinstance", "builtins.type", "builtins.repr", "builtins.str", "builtins.hasattr"):
            return {Res(OTHER)}
        if sym is not None and sym.kind == "func":
            callee, cmod = sym.target, sym.module
            params = [a.arg for a in callee.args.args]
            out = set()
            for i in touched:
                if i < len(c.args):
                    if i >= len(params):
                        return {Res("unknown", "call `%s`" % name, c)}
                    p = params[i]
                else:
                    p = c.keywords[i - len(c.args)].arg
                    if p is None or p not in params:
                        return {Res("unknown", "call `%s`" % name, c)}
                key = (cmod.relpath, callee.name, p)
                if key in self.stack:
                    return {Res("unknown", "recursive helper `%s`" % name, c)}
                sub = classify(self.repo, cmod, callee, p, self.stack + (key,))
                for r in sub:
                    if r.tag == SAME:
                        out |= argtags[i]
                    elif r.tag == OTHER:
                        out.add(Res(OTHER))
                    else:
                        out |= self._map(argtags[i], lambda _r, r=r: Res(r.tag, "%s in %s" % (r.why, callee.name), r.node, r.witness))
            return out or {Res(OTHER)}
        return {Res("unknown", "call `%s`" % (name or ast.unparse(c.func)), c)}

    # -- statements
    def block(self, stmts, env):
        for st in stmts:
            env = self.stmt(st, env)
        return env

    def stmt(self, st, env):
        if isinstance(st, ast.Return):
            vals = self.ev(st.value, env) if st.value is not None else {Res(OTHER)}
            for r in vals:
                self.returns.append(Res(r.tag, r.why, r.node or st, r.witness) if r.node is None else r)
                if r.node is None:
                    self.returns[-1].node = st
            return env
        if isinstance(st, ast.Assign) and len(st.targets) == 1 and isinstance(st.targets[0], ast.Name):
            env = dict(env)
            env[st.targets[0].id] = self.ev(st.value, env)
            return env
        if isinstance(st, ast.AugAssign) and isinstance(st.target, ast.Name):
            env = dict(env)
            if any(r.tag != OTHER for r in env.get(st.target.id, ())):
                env[st.target.id] = {Res("unknown", "augmented assignment", st)}
            return env
        if isinstance(st, ast.If):
            a = self.block(st.body, dict(env))
            b = self.block(st.orelse, dict(env))
            return _join(a, b)
        if isinstance(st, (ast.For, ast.While)):
            body_env = self.block(st.body, dict(env))
            out = dict(env)
            for k, v in body_env.items():
                if v is not env.get(k):
                    out[k] = env.get(k, set()) | v
            return out
        if isinstance(st, ast.Try):
            e = self.block(st.body, dict(env))
            for h in st.handlers:
                e = _join(e, self.block(h.body, dict(env)))
            e = self.block(st.orelse, e)
            return self.block(st.finalbody, e)
        if isinstance(st, ast.With):
            return self.block(st.body, env)
        if isinstance(st, (ast.Assign, ast.AnnAssign)):
            # tuple targets etc.: any tracked name rebound becomes unknown
            env = dict(env)
            for t in ast.walk(st):
                if isinstance(t, ast.Name) and isinstance(t.ctx, ast.Store) and t.id in env:
                    env[t.id] = {Res("unknown", "rebinding `%s`" % ast.unparse(st)[:50], st)}
            return env
        return env


_CACHE = {}


def classify(repo, module, fn, param, stack=()):
    """Set of Res for the values ``fn`` may return, relative to its parameter ``param``."""
    _CACHE = repo.__dict__.setdefault("_passthru_cache", {})  # per Repo object (ids of collected repos are reused)
    key = (module.relpath, fn.name, fn.lineno, param)
    if key in _CACHE:
        return _CACHE[key]
    an = _An(repo, module, fn, param, stack or ((module.relpath, fn.name, param),))
    env = {a.arg: {Res(OTHER)} for a in fn.args.args + fn.args.kwonlyargs}
    env[param] = {Res(SAME)}
    an.block(fn.body, env)
    res = an.returns or [Res(OTHER, "no return", fn)]
    _CACHE[key] = res
    return res


def decide(ctx, rule, construct, repo, module, fn, param, what):
    """Report: HOLDS when every return is the parameter passed through; VIOLATION for a known
    length/element-changing operation; UNDECIDED otherwise."""
    res = classify(repo, module, fn, param)
    loc = ctx.loc(module, fn)
    bad = [r for r in res if r.tag == "changed"]
    unk = [r for r in res if r.tag not in (SAME, "changed")]
    if bad:
        r = bad[0]
        ctx.violation(rule, construct, "%s: the returned value passes through %s, which does not keep the elements of `%s` "
                      "one-to-one and in order" % (what, r.why, param), ctx.loc(module, r.node) if r.node is not None else loc,
                      witness={"input": r.witness})
    elif unk:
        r = unk[0]
        ctx.undecided(rule, construct, "%s: return value not recognisable as `%s` passed through (%s %s)" % (what, param, r.tag, r.why), loc)
    else:
        ctx.ok(rule, construct, "%s: every return is `%s` (or its index / container conversion) unchanged" % (what, param), loc)


# ------------------------------------------------------------------ object identity through locals
# external helpers that hand their first argument back as the same object (library contract)
EXT_PASSTHROUGH = {
    "sklearn.model_selection.check_cv",  # returns `cv` itself for any object with a `split` method
    "numpy.asarray", "numpy.asanyarray",
}


def passes_through(repo, module, call, seed_of, origin_of):
    """Origin of the value of ``call`` when it is a repository helper handing one of its arguments back unchanged."""
    d = dotted(call.func)
    sym = repo.resolve_dotted(module, d) if d else None
    if sym is not None and sym.kind == "ext" and sym.dotted in EXT_PASSTHROUGH and call.args:
        return origin_of(call.args[0])
    if sym is None or sym.kind != "func":
        return None
    pn = [a.arg for a in sym.target.args.args]
    cands = [(pn[i], a) for i, a in enumerate(call.args) if i < len(pn)] + [(k.arg, k.value) for k in call.keywords if k.arg in pn]
    for pname, a in cands:
        o = origin_of(a)
        if o is None:
            continue
        res = classify(repo, sym.module, sym.target, pname)
        if res and all(r.tag == SAME for r in res):
            return o
    return None


def alias_locals(repo, module, fn, seed_of, params_alias=()):
    """Local names of ``fn`` (closures included) that can only ever hold an object of a seed origin: *every* binding of
    the name is a seed expression, another such name, or a pass-through helper applied to one.  A name with any
    other binding (``x = clone(x)``, loop target, nested-function parameter) is not tracked (no alarm through it)."""
    binds = {}
    other = set()
    for n in ast.walk(fn):
        if isinstance(n, ast.Assign):
            for t in n.targets:
                if isinstance(t, ast.Name):
                    binds.setdefault(t.id, []).append(n.value)
                else:
                    for x in ast.walk(t):
                        if isinstance(x, ast.Name) and isinstance(x.ctx, ast.Store):
                            other.add(x.id)
        elif isinstance(n, (ast.AnnAssign, ast.AugAssign)) and isinstance(n.target, ast.Name):
            other.add(n.target.id)
        elif isinstance(n, (ast.For, ast.AsyncFor, ast.comprehension)):
            for x in ast.walk(n.target):
                if isinstance(x, ast.Name):
                    other.add(x.id)
        elif isinstance(n, (ast.With, ast.AsyncWith)):
            for it in n.items:
                if it.optional_vars is not None:
                    for x in ast.walk(it.optional_vars):
                        if isinstance(x, ast.Name):
                            other.add(x.id)
        elif isinstance(n, (ast.FunctionDef, ast.AsyncFunctionDef, ast.Lambda)) and n is not fn:
            a = n.args
            for p_ in a.posonlyargs + a.args + a.kwonlyargs + ([a.vararg] if a.vararg else []) + ([a.kwarg] if a.kwarg else []):
                other.add(p_.arg)
        elif isinstance(n, ast.NamedExpr) and isinstance(n.target, ast.Name):
            other.add(n.target.id)
        elif isinstance(n, ast.ExceptHandler) and n.name:
            other.add(n.name)
        elif isinstance(n, (ast.Import, ast.ImportFrom)):
            for al in n.names:
                other.add((al.asname or al.name).split(".")[0])
    alias = dict(params_alias)  # name -> origin

    def origin_of(e):
        o = seed_of(e)
        if o is not None:
            return o
        if isinstance(e, ast.Name):
            return alias.get(e.id)
        if isinstance(e, ast.Call):
            return passes_through(repo, module, e, seed_of, origin_of)
        return None
    for nm in list(alias):
        if nm in other:
            del alias[nm]
    changed = True
    while changed:
        changed = False
        for nm, vals in binds.items():
            if nm in other or nm in alias and nm not in dict(params_alias):
                continue
            if nm in dict(params_alias):
                # a parameter that is rebound stays tracked only while every rebinding hands the same object back
                os_ = [origin_of(v) for v in vals]
                if any(o != alias.get(nm) for o in os_) and nm in alias and any(o is None for o in os_):
                    pass
                continue
            os_ = {origin_of(v) for v in vals}
            if None not in os_ and len(os_) == 1:
                alias[nm] = os_.pop()
                changed = True
    # parameters: drop when some rebinding is not the object itself
    for nm in dict(params_alias):
        if nm in alias and any(origin_of(v) != alias[nm] for v in binds.get(nm, ())):
            del alias[nm]
    return alias, origin_of


