"""E5 -- abstract interpretation of index arithmetic in an affine domain.

Values are affine forms (``Lin``), arithmetic progressions (``Rng``), symbolic integer
vectors shifted by an affine offset (``Vec``), horizons (``FHV``), named arrays (``Arr``),
tuples, Python constants (``K``) and opaque values (``Opq``).  Function bodies are
interpreted statement by statement; repo-local callees are inlined (bounded depth);
conditions are decided from the *scenario* (the finitely many configuration flags a
property quantifies over), from accumulated integer facts, or else the trace is
partitioned (bounded).  ``raise`` paths end a trace and the negated guard becomes a
fact on the surviving trace.  No solver is involved: entailment is the bounded
fact-combination procedure of ``lin.Facts``.
"""
import ast
from fractions import Fraction

from .index import AnalysisError, ClassInfo, dotted
from .lin import Lin, Facts, as_lin
from . import astq


# ---------------------------------------------------------------------------- values
class K:
    """Python constant (None / bool / str / other)."""

    def __init__(self, v):
        self.v = v

    def __eq__(self, o):
        return isinstance(o, K) and type(self.v) is type(o.v) and self.v == o.v

    def __hash__(self):
        return hash(("K", self.v))

    def __repr__(self):
        return "K(%r)" % (self.v,)


class Opq:
    """Opaque value; ``tag`` names its origin so rules may still recognise it."""

    def __init__(self, tag="?", args=()):
        self.tag = tag
        self.args = tuple(args)

    def __eq__(self, o):
        return isinstance(o, Opq) and self.tag == o.tag and self.args == o.args

    def __hash__(self):
        return hash(("Opq", self.tag, self.args))

    def __repr__(self):
        if self.args:
            return "Opq(%s%r)" % (self.tag, self.args)
        return "Opq(%s)" % self.tag


class Rng:
    """np.arange(lo, hi, step) / range(lo, hi, step)."""

    def __init__(self, lo, hi, step=None):
        self.lo, self.hi = as_lin(lo), as_lin(hi)
        self.step = as_lin(1 if step is None else step)

    def shift(self, d):
        return Rng(self.lo + d, self.hi + d, self.step)

    def length(self):
        if self.step == Lin.c(1):
            return self.hi - self.lo
        return None

    def __eq__(self, o):
        return isinstance(o, Rng) and (self.lo, self.hi, self.step) == (o.lo, o.hi, o.step)

    def __hash__(self):
        return hash(("Rng", self.lo, self.hi, self.step))

    def __repr__(self):
        return "Rng[%r : %r : %r]" % (self.lo, self.hi, self.step)


class Vec:
    """Symbolic integer vector ``base`` (sorted ascending if ``sorted``) plus offset."""

    def __init__(self, base, off=0, sorted_=True, neg=False):
        self.base = base
        self.off = as_lin(off)
        self.sorted = sorted_
        self.neg = neg

    def shift(self, d):
        return Vec(self.base, self.off + d, self.sorted, self.neg)

    def elem(self, which):
        """Affine form of element ``which`` in {'first','last','i'}."""
        if self.neg:
            return None
        if not self.sorted and which in ("first", "last"):
            # positional end of an *unsorted* vector: unrelated to its minimum / maximum
            return Lin.sym("%s[@%s]" % (self.base, "0" if which == "first" else "-1")) + self.off
        return Lin.sym("%s[%s]" % (self.base, {"first": "0", "last": "-1"}.get(which, which))) + self.off

    def __eq__(self, o):
        return isinstance(o, Vec) and (self.base, self.off, self.neg) == (o.base, o.off, o.neg)

    def __hash__(self):
        return hash(("Vec", self.base, self.off, self.neg))

    def __repr__(self):
        return "Vec(%s%s %+r)" % ("-" if self.neg else "", self.base, self.off) if not self.off.is_const() or self.off.const != 0 else "Vec(%s%s)" % ("-" if self.neg else "", self.base)


class FHV:
    """A ForecastingHorizon object wrapping a sorted vector of steps."""

    def __init__(self, vec, relative=True):
        self.vec = vec
        self.relative = relative

    def __eq__(self, o):
        return isinstance(o, FHV) and self.vec == o.vec and self.relative == o.relative

    def __hash__(self):
        return hash(("FHV", self.vec, self.relative))

    def __repr__(self):
        return "FH(%r, relative=%r)" % (self.vec, self.relative)


class Arr:
    """A named array / series / index of symbolic length."""

    def __init__(self, name, length=None, kind="array"):
        self.name = name
        self.length = as_lin(length) if length is not None else Lin.sym("len(%s)" % name)
        self.kind = kind

    def __eq__(self, o):
        return isinstance(o, Arr) and self.name == o.name and self.length == o.length

    def __hash__(self):
        return hash(("Arr", self.name, self.length))

    def __repr__(self):
        return "Arr(%s, len=%r)" % (self.name, self.length)


class Tup:
    def __init__(self, items):
        self.items = list(items)

    def __eq__(self, o):
        return isinstance(o, Tup) and self.items == o.items

    def __hash__(self):
        return hash(("Tup", tuple(self.items)))

    def __repr__(self):
        return "(%s)" % ", ".join(map(repr, self.items))


class Filt:
    """``x[x op c]`` -- the elements of ``base`` satisfying the comparison."""

    def __init__(self, base, op, bound):
        self.base, self.op, self.bound = base, op, bound

    def __eq__(self, o):
        return isinstance(o, Filt) and (self.base, self.op, self.bound) == (o.base, o.op, o.bound)

    def __hash__(self):
        return hash(("Filt", self.base, self.op, self.bound))

    def __repr__(self):
        return "Filt(%r %s %r)" % (self.base, self.op, self.bound)


class SliceV:
    """Positional slice ``base[lo:hi]`` of a named array (None bound = open)."""

    def __init__(self, base, lo, hi):
        self.base, self.lo, self.hi = base, lo, hi

    def __eq__(self, o):
        return isinstance(o, SliceV) and (self.base, self.lo, self.hi) == (o.base, o.lo, o.hi)

    def __hash__(self):
        return hash(("SliceV", self.base, self.lo, self.hi))

    def __repr__(self):
        return "%r[%r:%r]" % (self.base, self.lo, self.hi)


class Gather:
    """``base[idx]`` with a vector index."""

    def __init__(self, base, idx):
        self.base, self.idx = base, idx

    def __eq__(self, o):
        return isinstance(o, Gather) and (self.base, self.idx) == (o.base, o.idx)

    def __hash__(self):
        return hash(("Gather", self.base, self.idx))

    def __repr__(self):
        return "%r[%r]" % (self.base, self.idx)


class IdxV:
    """Loop variable of ``for k in range(len(v))``: the position whose element is ``elem`` (``v[k]`` reads that element)."""

    def __init__(self, vec, elem):
        self.vec, self.elem = vec, elem

    def __repr__(self):
        return "IdxV(%r)" % (self.vec,)


class BExp:
    """A boolean temporary: the (undecided) condition expression a local name was assigned."""

    def __init__(self, node):
        self.node = node

    def __repr__(self):
        return "BExp(%s)" % ast.unparse(self.node)


class SelfV:
    def __init__(self, cls, attrs=None):
        self.cls = cls
        self.attrs = attrs if attrs is not None else {}

    def __repr__(self):
        return "self<%s>" % (self.cls.name if self.cls else "?")


class Gen:
    """Result of calling a generator function: the list of its yield records."""

    def __init__(self, records):
        self.records = records

    def __repr__(self):
        return "Gen(%d)" % len(self.records)


class Alt:
    """A value that differs between traces of an inlined callee."""

    def __init__(self, alts):
        self.alts = alts  # list of (value, Facts)

    def __repr__(self):
        return "Alt(%s)" % ", ".join(repr(v) for v, _ in self.alts)


class YieldRec:
    def __init__(self, value, facts, loops, node, func):
        self.value, self.facts, self.loops, self.node, self.func = value, facts, loops, node, func

    def __repr__(self):
        return "yield %r" % (self.value,)


class LoopCtx:
    def __init__(self, var, it, node):
        self.var, self.it, self.node = var, it, node

    def __repr__(self):
        return "for %r in %r" % (self.var, self.it)


class State:
    def __init__(self, env=None, facts=None, loops=None, atoms=None, heap=None):
        self.env = dict(env or {})
        self.facts = facts.copy() if facts is not None else Facts()
        self.loops = list(loops or [])
        self.atoms = dict(atoms or {})
        self.heap = dict(heap or {})  # (id(object value), attribute) -> value
        self.yields = []
        self.notes = []

    def copy(self):
        s = State(self.env, self.facts, self.loops, self.atoms, self.heap)
        s.yields = self.yields  # shared on purpose: yields are collected per call frame
        s.notes = self.notes
        return s


class Clo:
    """A function defined inside the function being interpreted (closure over the enclosing locals)."""

    def __init__(self, fn):
        self.fn = fn

    def __eq__(self, o):
        return isinstance(o, Clo) and o.fn is self.fn

    def __hash__(self):
        return hash(("Clo", id(self.fn)))

    def __repr__(self):
        return "Clo(%s)" % self.fn.name


class Frame:
    """Static context of the function being interpreted."""

    def __init__(self, module, func, cls=None, defcls=None, depth=0):
        self.module, self.func, self.cls, self.defcls, self.depth = module, func, cls, defcls, depth


class PathLimit(AnalysisError):
    pass


class AlwaysRaises(Exception):
    """An inlined callee raises on every trace: the calling trace ends here."""


# ---------------------------------------------------------------------- interpreter
class Interp:
    def __init__(self, repo, scenario=None, self_attrs=None, hooks=None, inline_depth=4, max_states=128,
                 no_inline=()):
        self.repo = repo
        self.scenario = dict(scenario or {})  # atom key -> bool (e.g. 'fh.is_all_out_of_sample')
        self.self_attrs = dict(self_attrs or {})  # attribute name -> value
        self.hooks = hooks  # callable(interp, frame, call, fname, args, kwargs, st) -> value | NotImplemented
        self.inline_depth = inline_depth
        self.max_states = max_states
        self.no_inline = set(no_inline)
        self.uid = 0
        self.log = []
        self.inplace = []  # (function, target name, value, node): augmented assignments on array-like values
        self.derived = {}  # derived symbol name -> (kind, Lin a, Lin b): structure of floor/mod/product/abs/max symbols

    # ---------------------------------------------------------------- running
    def run_function(self, frame, args, st=None, base_env=None):
        """Interpret ``frame.func`` with positional/keyword values bound in ``args``
        (dict name -> value).  Returns list of (state, outcome) traces."""
        st = st or State()
        st = State(dict(base_env or {}), st.facts, st.loops, st.atoms, st.heap)
        st.yields = []
        a = frame.func.args
        params = [p.arg for p in a.posonlyargs + a.args]
        defaults = [None] * (len(params) - len(a.defaults)) + list(a.defaults)
        for p, d in zip(params, defaults):
            if p in args:
                st.env[p] = args[p]
            elif d is not None:
                st.env[p] = self.ev(d, st, frame)
            else:
                st.env[p] = Opq("param:" + p)
        for p, d in zip(a.kwonlyargs, a.kw_defaults):
            if p.arg in args:
                st.env[p.arg] = args[p.arg]
            elif d is not None:
                st.env[p.arg] = self.ev(d, st, frame)
        return self.block(frame.func.body, st, frame), st

    def block(self, stmts, st, frame):
        """Returns list of (state, outcome); outcome = ('fall',) | ('return', v) | ('raise',) | ('break',) | ('continue',)."""
        live = [st]
        done = []
        for stmt in stmts:
            nxt = []
            for s in live:
                for s2, out in self.stmt(stmt, s, frame):
                    if out[0] == "fall":
                        nxt.append(s2)
                    else:
                        done.append((s2, out))
            live = nxt
            if len(live) + len(done) > self.max_states:
                raise PathLimit("trace partition limit exceeded in %s" % frame.func.name)
            if not live:
                break
        return done + [(s, ("fall",)) for s in live]

    def stmt(self, node, st, frame):
        try:
            return self._exec_stmt(node, st, frame)
        except AlwaysRaises:
            return [(st, ("raise",))]

    def _exec_stmt(self, node, st, frame):
        if isinstance(node, ast.Expr):
            if isinstance(node.value, (ast.Yield, ast.YieldFrom)):
                self._yield(node.value, st, frame)
                return [(st, ("fall",))]
            v = self.ev(node.value, st, frame)
            return self._expand(v, st, lambda s, val: None)
        if isinstance(node, ast.Assign):
            v = self.ev(node.value, st, frame)
            if isinstance(v, Opq) and len(node.targets) == 1 and isinstance(node.targets[0], ast.Name) and (
                    isinstance(node.value, (ast.BoolOp, ast.Compare)) or
                    (isinstance(node.value, ast.UnaryOp) and isinstance(node.value.op, ast.Not))):
                tname = node.targets[0].id
                if not any(isinstance(x, ast.Name) and x.id == tname for x in ast.walk(node.value)):
                    v = BExp(node.value)  # boolean temporary: decided / assumed through its defining expression

            def bind(s, val):
                for t in node.targets:
                    self.assign(t, val, s, frame)

            return self._expand(v, st, bind)
        if isinstance(node, ast.AnnAssign):
            if node.value is None:
                return [(st, ("fall",))]
            v = self.ev(node.value, st, frame)
            return self._expand(v, st, lambda s, val: self.assign(node.target, val, s, frame))
        if isinstance(node, ast.AugAssign):
            cur = self.ev(node.target, st, frame)
            rhs = self.ev(node.value, st, frame)
            if isinstance(cur, (Vec, Rng, Arr, FHV, Filt, SliceV, Gather)):
                # numpy / pandas objects implement augmented assignment in place: every alias of the object changes
                self.inplace.append((frame.func.name, dotted(node.target) or "?", cur, node))
            v = self.binop(node.op, cur, rhs, st)
            return self._expand(v, st, lambda s, val: self.assign(node.target, val, s, frame))
        if isinstance(node, ast.Return):
            v = self.ev(node.value, st, frame) if node.value is not None else K(None)
            if isinstance(v, Alt):
                out = []
                for val, facts in v.alts:
                    s = st.copy()
                    s.facts = facts
                    out.append((s, ("return", val)))
                return out
            return [(st, ("return", v))]
        if isinstance(node, ast.Raise):
            return [(st, ("raise",))]
        if isinstance(node, ast.Pass):
            return [(st, ("fall",))]
        if isinstance(node, ast.Break):
            return [(st, ("break",))]
        if isinstance(node, ast.Continue):
            return [(st, ("continue",))]
        if isinstance(node, ast.Assert):
            self.assume(node.test, True, st, frame)
            return [(st, ("fall",))]
        if isinstance(node, ast.If):
            d = self.decide(node.test, st, frame)
            if d is True:
                self.assume(node.test, True, st, frame)
                return self.block(node.body, st, frame)
            if d is False:
                self.assume(node.test, False, st, frame)
                return self.block(node.orelse, st, frame)
            s1, s2 = st.copy(), st.copy()
            self.assume(node.test, True, s1, frame)
            self.assume(node.test, False, s2, frame)
            key = self.atom_key(node.test, st, frame)
            s1.atoms[key], s2.atoms[key] = True, False
            return self.block(node.body, s1, frame) + self.block(node.orelse, s2, frame)
        if isinstance(node, ast.For):
            return self._for(node, st, frame)
        if isinstance(node, ast.While):
            as_for = self._while_as_for(node, st, frame) if getattr(self, "index_loops", False) else None
            if as_for is not None:
                return self._for(as_for, st, frame)
            # loop-carried state is not tracked: everything assigned in the body becomes opaque
            self._havoc(node.body, st)
            return [(st, ("fall",))]
        if isinstance(node, ast.With):
            for it in node.items:
                v = self.ev(it.context_expr, st, frame)
                if it.optional_vars is not None:
                    self.assign(it.optional_vars, v, st, frame)
            return self.block(node.body, st, frame)
        if isinstance(node, ast.Try):
            res = self.block(node.body, st, frame)
            out = []
            for s, o in res:
                if o[0] == "fall" and node.orelse:
                    out += self.block(node.orelse, s, frame)
                else:
                    out.append((s, o))
            if node.finalbody:
                out2 = []
                for s, o in out:
                    for s3, o3 in self.block(node.finalbody, s, frame):
                        out2.append((s3, o if o3[0] == "fall" else o3))
                out = out2
            return out
        if isinstance(node, (ast.FunctionDef, ast.ClassDef, ast.Import, ast.ImportFrom, ast.Global, ast.Nonlocal)):
            if isinstance(node, ast.FunctionDef):
                st.env[node.name] = Clo(node)
            return [(st, ("fall",))]
        if isinstance(node, ast.Delete):
            return [(st, ("fall",))]
        raise AnalysisError("unsupported statement %s at line %s" % (type(node).__name__, node.lineno))

    def _expand(self, v, st, bind):
        if isinstance(v, Alt):
            out = []
            for val, facts in v.alts:
                s = st.copy()
                s.facts = facts
                if getattr(facts, "heap", None) is not None:
                    s.heap = dict(facts.heap)
                bind(s, val)
                out.append((s, ("fall",)))
            return out
        bind(st, v)
        return [(st, ("fall",))]

    def _havoc(self, stmts, st):
        for sub in stmts:
            for n in ast.walk(sub):
                if isinstance(n, ast.Name) and isinstance(n.ctx, ast.Store):
                    st.env[n.id] = Opq("loop-carried:" + n.id)

    def _yield(self, node, st, frame):
        if isinstance(node, ast.YieldFrom):
            v = self.ev(node.value, st, frame)
            if isinstance(v, Gen):
                for r in v.records:
                    st.yields.append(r)
            else:
                st.yields.append(YieldRec(Opq("yield-from", [v]), st.facts.copy(), list(st.loops), node, frame.func))
            return
        v = self.ev(node.value, st, frame) if node.value is not None else K(None)
        if isinstance(v, Alt):
            # the yielded value was computed by a helper with several outcomes: one record per outcome, under its facts
            for x, f in v.alts:
                st.yields.append(YieldRec(x, f.copy() if hasattr(f, "copy") else st.facts.copy(), list(st.loops), node, frame.func))
            return
        st.yields.append(YieldRec(v, st.facts.copy(), list(st.loops), node, frame.func))

    def _while_as_for(self, node, st, frame):
        """``i = 0; while i < n: ...seq[i]...; i += 1`` with ``n = len(seq)`` (and no other store to ``i``, no break/continue,
        no else) is the index loop ``for i in range(len(seq))``: returns that ``For`` node, else None."""
        t = node.test
        if node.orelse or not (isinstance(t, ast.Compare) and len(t.ops) == 1 and isinstance(t.ops[0], ast.Lt) and isinstance(t.left, ast.Name)):
            return None
        i = t.left.id
        v0 = st.env.get(i)
        if not (isinstance(v0, Lin) and v0.is_const() and v0.const == 0):
            return None
        bound = t.comparators[0]
        seq = None
        if isinstance(bound, ast.Call) and dotted(bound.func) == "len" and len(bound.args) == 1:
            seq = bound.args[0]
        elif isinstance(bound, ast.Name):
            vals = astq.assigned_values(frame.func, bound.id)
            if len(vals) == 1 and isinstance(vals[0], ast.Call) and dotted(vals[0].func) == "len" and len(vals[0].args) == 1:
                seq = vals[0].args[0]
        if seq is None:
            return None
        incs, body = [], []
        for b in node.body:
            if isinstance(b, ast.AugAssign) and isinstance(b.target, ast.Name) and b.target.id == i and isinstance(b.op, ast.Add) \
                    and isinstance(b.value, ast.Constant) and b.value.value == 1:
                incs.append(b)
            else:
                body.append(b)
        if len(incs) != 1:
            return None
        for b in body:
            for x in ast.walk(b):
                if isinstance(x, (ast.Break, ast.Continue)):
                    return None
                if isinstance(x, ast.Name) and x.id == i and isinstance(x.ctx, ast.Store):
                    return None
        # statements after the increment must not read the counter (they would see i + 1)
        after = node.body[node.body.index(incs[0]) + 1:]
        if any(isinstance(x, ast.Name) and x.id == i for b in after for x in ast.walk(b)):
            return None
        f = ast.For(target=ast.Name(id=i, ctx=ast.Store()),
                    iter=ast.Call(func=ast.Name(id="range", ctx=ast.Load()), args=[ast.Call(func=ast.Name(id="len", ctx=ast.Load()), args=[seq], keywords=[])],
                                  keywords=[]), body=body or [ast.Pass()], orelse=[])
        ast.copy_location(f, node)
        return ast.fix_missing_locations(f)

    def _for(self, node, st, frame):
        it = self.ev(node.iter, st, frame)
        results = []
        if isinstance(it, Gen):
            cur = [st]
            for rec in it.records:
                nxt = []
                for s in cur:
                    s2 = s.copy()
                    saved_facts, saved_loops = s2.facts, s2.loops
                    s2.facts = Facts(saved_facts.items)
                    for f, o in rec.facts.items:
                        s2.facts.add_le0(f, o)
                    s2.loops = list(saved_loops) + [l for l in rec.loops if l not in saved_loops]
                    self.assign(node.target, rec.value, s2, frame)
                    for s3, o in self.block(node.body, s2, frame):
                        if o[0] in ("fall", "continue", "break"):
                            s3.facts, s3.loops = saved_facts, saved_loops
                            nxt.append(s3)
                        else:
                            results.append((s3, o))
                cur = nxt
            return results + [(s, ("fall",)) for s in cur]
        self.uid += 1
        tname = dotted(node.target) or "it"
        index_of = None
        ni = node.iter
        if getattr(self, "index_loops", False) and isinstance(it, (Rng, Opq)) and isinstance(node.target, ast.Name) and isinstance(ni, ast.Call) \
                and dotted(ni.func) == "range" \
                and len(ni.args) == 1 and not ni.keywords and isinstance(ni.args[0], ast.Call) and dotted(ni.args[0].func) == "len" \
                and len(ni.args[0].args) == 1:
            seq = self.ev(ni.args[0].args[0], st, frame)
            if isinstance(seq, (Vec, FHV, Rng)) and not any(
                    isinstance(x, (ast.Assign, ast.AugAssign)) and any(isinstance(t, ast.Name) and t.id == node.target.id
                                                                     for t in ast.walk(x) if isinstance(getattr(t, "ctx", None), ast.Store))
                    for b in node.body for x in ast.walk(b)):
                # an index loop over a vector: read as the loop over its elements, the counter standing for the position
                index_of = seq
                it = seq
        if isinstance(it, Rng):
            var = Lin.sym("%s#%d" % (tname, self.uid))
            elem = var
        elif isinstance(it, Vec):
            var = Lin.sym("%s[i#%d]" % (it.base, self.uid))
            elem = var + it.off
        elif isinstance(it, FHV):
            var = Lin.sym("%s[i#%d]" % (it.vec.base, self.uid))
            elem = var + it.vec.off
        else:
            var = None
            elem = Opq("elem", [it])
        body_st = st.copy()
        if isinstance(it, Rng):
            body_st.facts.add_cmp(it.lo, "<=", var, "loop range lower bound")
            body_st.facts.add_cmp(var, "<=", it.hi - 1, "loop range upper bound")
        elif isinstance(it, (Vec, FHV)):
            vec = it if isinstance(it, Vec) else it.vec
            if vec.sorted and not vec.neg:
                body_st.facts.add_cmp(var, "<=", Lin.sym(vec.base + "[-1]"), "element <= last of sorted vector")
                body_st.facts.add_cmp(Lin.sym(vec.base + "[0]"), "<=", var, "first of sorted vector <= element")
        body_st.loops = list(st.loops) + [LoopCtx(var, it, node)]
        if index_of is not None:
            elem = IdxV(it if isinstance(it, (Vec, Rng)) else it.vec, elem)
        self.assign(node.target, elem, body_st, frame)
        after = st.copy()
        self._havoc(node.body, after)
        if isinstance(node.target, ast.Name):
            after.env[node.target.id] = Opq("loop-var-after:" + node.target.id)
        for s, o in self.block(node.body, body_st, frame):
            if o[0] in ("return", "raise"):
                if o[0] == "return":
                    results.append((s, o))
                # a raise inside a loop ends that trace; the surviving trace continues below
        # the continuation after the loop keeps the facts known *before* the loop
        if node.orelse:
            return results + self.block(node.orelse, after, frame)
        return results + [(after, ("fall",))]

    # ------------------------------------------------------------- assignment
    def assign(self, target, val, st, frame):
        if isinstance(target, ast.Name):
            st.env[target.id] = val
        elif isinstance(target, (ast.Tuple, ast.List)):
            items = None
            if isinstance(val, Tup) and len(val.items) == len(target.elts):
                items = val.items
            for i, t in enumerate(target.elts):
                self.assign(t, items[i] if items is not None else Opq("unpack", [val, i]), st, frame)
        elif isinstance(target, ast.Attribute):
            base = self.ev(target.value, st, frame)
            if isinstance(base, SelfV):
                base.attrs[target.attr] = val
                st.heap[(id(base), target.attr)] = val
                return
            d = dotted(target)
            if d:
                st.env[d] = val
        elif isinstance(target, ast.Subscript):
            self.store_subscript(target, val, st, frame)
        elif isinstance(target, ast.Starred):
            self.assign(target.value, Opq("starred"), st, frame)

    def store_subscript(self, target, val, st, frame):
        base = dotted(target.value)
        if base:
            st.notes.append(("subscript-store", base, target, val))

    # ------------------------------------------------------------- conditions
    def atom_key(self, test, st, frame):
        return "%s:%s" % (frame.func.name, ast.dump(test))

    def decide(self, test, st, frame):
        """True / False / None."""
        if isinstance(test, ast.BoolOp):
            vals = [self.decide(v, st, frame) for v in test.values]
            if isinstance(test.op, ast.And):
                if any(v is False for v in vals):
                    return False
                if all(v is True for v in vals):
                    return True
                return None
            if any(v is True for v in vals):
                return True
            if all(v is False for v in vals):
                return False
            return None
        if isinstance(test, ast.UnaryOp) and isinstance(test.op, ast.Not):
            d = self.decide(test.operand, st, frame)
            return None if d is None else (not d)
        if isinstance(test, ast.Name) and isinstance(st.env.get(test.id), BExp):
            return self.decide(st.env[test.id].node, st, frame)
        pb = self._predicate_body(test, st, frame)
        if pb is not None:
            return self.decide(pb, st, frame)
        if isinstance(test, ast.Compare) and len(test.ops) > 1:
            # chained comparison a op1 b op2 c  ==  (a op1 b) and (b op2 c)
            parts = []
            left = test.left
            for op, c in zip(test.ops, test.comparators):
                parts.append(ast.Compare(left=left, ops=[op], comparators=[c]))
                left = c
            for p_ in parts:
                ast.copy_location(p_, test)
            vals = [self.decide(p_, st, frame) for p_ in parts]
            if any(v is False for v in vals):
                return False
            if all(v is True for v in vals):
                return True
            return None
        key = self.atom_key(test, st, frame)
        if key in st.atoms:
            return st.atoms[key]
        sk = self.scenario_key(test, st, frame)
        if sk is not None and sk in self.scenario:
            return self.scenario[sk]
        if isinstance(test, ast.Compare) and len(test.ops) == 1:
            a = self.ev(test.left, st, frame)
            b = self.ev(test.comparators[0], st, frame)
            op = test.ops[0]
            if isinstance(op, (ast.Is, ast.IsNot)):
                r = self._is(a, b)
                if r is None:
                    return None
                return r if isinstance(op, ast.Is) else (not r)
            if isinstance(op, (ast.Eq, ast.NotEq)) and isinstance(a, K) and isinstance(b, K):
                r = a == b
                return r if isinstance(op, ast.Eq) else (not r)
            if isinstance(op, (ast.In, ast.NotIn)) and isinstance(a, K) and isinstance(b, Tup) and all(isinstance(x, K) for x in b.items):
                r = a in b.items
                return r if isinstance(op, ast.In) else (not r)
            sop = CMP.get(type(op))
            la, lb = as_lin_val(a), as_lin_val(b)
            if sop and la is not None and lb is not None:
                if sop in ("==", "!="):
                    eq = st.facts.entails_cmp(la, "==", lb)
                    if eq is not None:
                        return sop == "=="
                    if st.facts.entails_cmp(la, "<", lb) is not None or st.facts.entails_cmp(la, ">", lb) is not None:
                        return sop == "!="
                    return None
                if st.facts.entails_cmp(la, sop, lb) is not None:
                    return True
                if st.facts.entails_cmp(la, NEG[sop], lb) is not None:
                    return False
            return None
        if isinstance(test, ast.Call):
            v = self.ev(test, st, frame)
            if isinstance(v, K) and isinstance(v.v, bool):
                return v.v
            return None
        v = self.ev(test, st, frame)
        if isinstance(v, K):
            return bool(v.v)
        lv = as_lin_val(v)
        if lv is not None and lv.is_const():
            return lv.const != 0
        return None

    def scenario_key(self, test, st, frame):
        """Key under which a scenario may decide this atom: ``<recv>.method`` for
        zero-argument predicate calls on horizons, ``self.attr`` truthiness."""
        if isinstance(test, ast.Call) and isinstance(test.func, ast.Attribute) and not test.args:
            recv = self.ev(test.func.value, st, frame)
            if isinstance(recv, FHV):
                return "%s.%s" % (recv.vec.base, test.func.attr)
        return None

    def _is(self, a, b):
        if isinstance(a, K) and isinstance(b, K):
            return a == b
        none_b = isinstance(b, K) and b.v is None
        none_a = isinstance(a, K) and a.v is None
        if none_b and isinstance(a, (Lin, Rng, Vec, FHV, Arr, Tup, SelfV, Filt, SliceV, Gather)):
            return False
        if none_a and isinstance(b, (Lin, Rng, Vec, FHV, Arr, Tup, SelfV, Filt, SliceV, Gather)):
            return False
        return None

    def _predicate_body(self, test, st, frame):
        """``pred(a, b)`` where ``pred`` is a local closure (or a module-level helper) whose body is a single
        ``return <expr>``: the expression with the parameters replaced by the argument expressions, else None."""
        if not (isinstance(test, ast.Call) and isinstance(test.func, ast.Name) and not test.keywords):
            return None
        fn = None
        v = st.env.get(test.func.id)
        if isinstance(v, Clo):
            fn = v.fn
        elif test.func.id not in st.env:
            sym = self.repo.resolve_dotted(frame.module, test.func.id)
            if sym is not None and sym.kind == "func" and sym.module is frame.module:
                fn = sym.target
        if fn is None:
            return None
        body = [x for x in fn.body if not (isinstance(x, ast.Expr) and isinstance(x.value, ast.Constant))]
        params = [a.arg for a in fn.args.args]
        if len(body) != 1 or not isinstance(body[0], ast.Return) or body[0].value is None or len(params) != len(test.args) \
                or fn.args.vararg or fn.args.kwarg or fn.args.kwonlyargs:
            return None
        if not isinstance(v, Clo):
            # a module-level helper may only mention its parameters and globals
            names = {n.id for n in ast.walk(body[0].value) if isinstance(n, ast.Name)}
            if (names - set(params)) & set(st.env):
                return None
        sub = dict(zip(params, test.args))

        class _S(ast.NodeTransformer):
            def visit_Name(self, n):
                return copy.deepcopy(sub[n.id]) if n.id in sub and isinstance(n.ctx, ast.Load) else n
        import copy
        return ast.fix_missing_locations(_S().visit(copy.deepcopy(body[0].value)))

    def assume(self, test, polarity, st, frame):
        """Add the integer facts implied by ``test`` being ``polarity``."""
        pb = self._predicate_body(test, st, frame)
        if pb is not None:
            return self.assume(pb, polarity, st, frame)
        if isinstance(test, ast.UnaryOp) and isinstance(test.op, ast.Not):
            return self.assume(test.operand, not polarity, st, frame)
        if isinstance(test, ast.Name) and isinstance(st.env.get(test.id), BExp):
            return self.assume(st.env[test.id].node, polarity, st, frame)
        if isinstance(test, ast.BoolOp):
            conj = isinstance(test.op, ast.And)
            if conj == polarity:
                # (a and b) true  /  (a or b) false : every operand has the polarity
                for v in test.values:
                    self.assume(v, polarity, st, frame)
            else:
                # (a or b) true / (a and b) false: the last undecided operand carries the polarity only if every
                # other operand is decided *neutral* (False for `or`, True for `and`); an operand that already
                # settles the whole test says nothing about the others.
                neutral = conj
                vals = [(v, self.decide(v, st, frame)) for v in test.values]
                und = [v for v, d in vals if d is None]
                if len(und) == 1 and all(d is neutral for v, d in vals if d is not None):
                    self.assume(und[0], polarity, st, frame)
            return
        if isinstance(test, ast.Compare) and len(test.ops) > 1:
            parts = []
            left = test.left
            for op, c in zip(test.ops, test.comparators):
                p_ = ast.Compare(left=left, ops=[op], comparators=[c])
                ast.copy_location(p_, test)
                parts.append(p_)
                left = c
            fake = ast.BoolOp(op=ast.And(), values=parts)
            ast.copy_location(fake, test)
            return self.assume(fake, polarity, st, frame)
        if isinstance(test, ast.Compare) and len(test.ops) == 1:
            sop = CMP.get(type(test.ops[0]))
            if sop is None:
                return
            a = as_lin_val(self.ev(test.left, st, frame))
            b = as_lin_val(self.ev(test.comparators[0], st, frame))
            if a is None or b is None:
                return
            if not polarity:
                sop = NEG[sop]
            if sop == "!=":
                return
            origin = "%s %s at %s:%s" % ("guard" if polarity else "negated guard", ast.unparse(test),
                                         frame.module.relpath, test.lineno)
            st.facts.add_cmp(a, sop, b, origin)

    # ------------------------------------------------------------ expressions
    def ev(self, e, st, frame):
        m = getattr(self, "ev_" + type(e).__name__, None)
        if m is None:
            return Opq("expr:" + type(e).__name__)
        return m(e, st, frame)

    def ev_Constant(self, e, st, frame):
        if isinstance(e.value, bool) or e.value is None or isinstance(e.value, str):
            return K(e.value)
        if isinstance(e.value, int):
            return Lin.c(e.value)
        if isinstance(e.value, float) and e.value == int(e.value):
            return K(e.value)
        return K(e.value)

    def ev_Name(self, e, st, frame):
        if e.id in st.env:
            return st.env[e.id]
        if e.id in ("True", "False", "None"):
            return K({"True": True, "False": False, "None": None}[e.id])
        sym = self.repo.resolve_name(frame.module, e.id)
        if sym is not None and sym.kind == "const" and isinstance(sym.target, ast.Constant):
            return self.ev_Constant(sym.target, st, frame)
        if sym is not None:
            return Opq("global:" + (sym.dotted or e.id))
        return Opq("name:" + e.id)

    def ev_Tuple(self, e, st, frame):
        return Tup([self.ev(x, st, frame) for x in e.elts])

    ev_List = ev_Tuple

    def ev_Attribute(self, e, st, frame):
        d = dotted(e)
        if d and d in st.env:
            return st.env[d]
        base = self.ev(e.value, st, frame)
        return self.getattr(base, e.attr, e, st, frame)

    def getattr(self, base, attr, e, st, frame):
        if isinstance(base, SelfV):
            if (id(base), attr) in st.heap:
                return st.heap[(id(base), attr)]
            if attr in base.attrs:
                return base.attrs[attr]
            if attr in self.self_attrs:
                return self.self_attrs[attr]
            return Opq("self." + attr)
        if isinstance(base, Arr):
            if attr == "shape":
                return Tup([base.length, Opq("shape1")])
            if attr == "index":
                return base if base.kind == "index" else Arr(base.name + ".index", base.length, "index")
            if attr == "values":
                return base
            if attr == "size":
                return base.length
        if isinstance(base, FHV):
            if attr == "is_relative":
                return K(base.relative) if base.relative is not None else Opq("fh.is_relative")
        if isinstance(base, (Rng, Vec)) and attr == "values":
            return base
        return Opq("attr:" + attr, [base])

    def ev_UnaryOp(self, e, st, frame):
        v = self.ev(e.operand, st, frame)
        if isinstance(e.op, ast.USub):
            return self.neg(v)
        if isinstance(e.op, ast.UAdd):
            return v
        if isinstance(e.op, ast.Not):
            d = self.decide(e.operand, st, frame)
            return K(not d) if d is not None else Opq("not", [v])
        return Opq("unary:" + type(e.op).__name__, [v])

    def neg(self, v):
        if isinstance(v, Alt):
            return Alt([(self.neg(x), f) for x, f in v.alts])
        lv = as_lin_val(v)
        if lv is not None:
            return -lv
        if isinstance(v, Vec):
            return Vec(v.base, -v.off, False, not v.neg)
        if isinstance(v, Rng) and v.step == Lin.c(1):
            return Opq("neg-range", [v])
        return Opq("neg", [v])

    def ev_BinOp(self, e, st, frame):
        a = self.ev(e.left, st, frame)
        b = self.ev(e.right, st, frame)
        return self.binop(e.op, a, b, st)

    def binop(self, op, a, b, st):
        if isinstance(a, Alt):
            return Alt([(self.binop(op, x, b, st), f) for x, f in a.alts])
        if isinstance(b, Alt):
            return Alt([(self.binop(op, a, x, st), f) for x, f in b.alts])
        la, lb = as_lin_val(a), as_lin_val(b)
        if isinstance(op, (ast.Add, ast.Sub)):
            sign = 1 if isinstance(op, ast.Add) else -1
            if la is not None and lb is not None:
                return la + lb.scale(sign)
            if isinstance(a, FHV):
                a = a.vec
            if isinstance(b, FHV):
                b = b.vec
            if isinstance(a, (Rng, Vec)) and lb is not None:
                return a.shift(lb.scale(sign))
            if la is not None and isinstance(b, (Rng, Vec)):
                if sign == 1:
                    return b.shift(la)
                nb = self.neg(b)
                if isinstance(nb, Vec):
                    return nb.shift(la)
            return Opq("add" if sign == 1 else "sub", [a, b])
        if isinstance(op, ast.Mult):
            for x, lx in ((a, lb), (b, la)):
                if isinstance(x, Rng) and lx is not None and x.step == Lin.c(1):
                    lo = self.binop(ast.Mult(), x.lo, lx, st)
                    hi = self.binop(ast.Mult(), x.hi, lx, st)
                    if isinstance(lo, Lin) and isinstance(hi, Lin):
                        return Rng(lo, hi, lx)
            if la is not None and lb is not None:
                if la.is_const():
                    return lb.scale(la.const)
                if lb.is_const():
                    return la.scale(lb.const)
                nm = "(%r)*(%r)" % tuple(sorted([la, lb], key=repr))
                self.derived[nm] = ("mul", la, lb)
                return Lin.sym(nm)
            return Opq("mul", [a, b])
        if isinstance(op, ast.Div):
            if la is not None and lb is not None and lb.is_const() and lb.const != 0:
                return la.scale(Fraction(1) / lb.const)
            return Opq("div", [a, b])
        if isinstance(op, ast.FloorDiv):
            if la is not None and lb is not None:
                if la.is_const() and lb.is_const() and lb.const != 0:
                    return Lin.c(la.const // lb.const)
                nm = "floor((%r)/(%r))" % (la, lb)
                self.derived[nm] = ("floordiv", la, lb)
                return Lin.sym(nm)
            return Opq("floordiv", [a, b])
        if isinstance(op, ast.Mod):
            if la is not None and lb is not None:
                if la.is_const() and lb.is_const() and lb.const != 0:
                    return Lin.c(la.const % lb.const)
                nm = "(%r) mod (%r)" % (la, lb)
                self.derived[nm] = ("mod", la, lb)
                return Lin.sym(nm)
            return Opq("mod", [a, b])
        return Opq("binop:" + type(op).__name__, [a, b])

    def ev_Compare(self, e, st, frame):
        if len(e.ops) > 1:
            d = self.decide(e, st, frame)
            return K(d) if d is not None else Opq("cmp-chain")
        d = self.decide(e, st, frame)
        if d is not None:
            return K(d)
        if len(e.ops) == 1:
            a = self.ev(e.left, st, frame)
            b = self.ev(e.comparators[0], st, frame)
            return Opq("cmp:" + CMP.get(type(e.ops[0]), "?"), [a, b])
        return Opq("cmp")

    def ev_BoolOp(self, e, st, frame):
        d = self.decide(e, st, frame)
        if d is not None:
            return K(d)
        return Opq("boolop")

    def ev_IfExp(self, e, st, frame):
        d = self.decide(e.test, st, frame)
        if d is True:
            return self.ev(e.body, st, frame)
        if d is False:
            return self.ev(e.orelse, st, frame)
        s1, s2 = st.copy(), st.copy()
        self.assume(e.test, True, s1, frame)
        self.assume(e.test, False, s2, frame)
        a, b = self.ev(e.body, s1, frame), self.ev(e.orelse, s2, frame)
        if a == b:
            return a
        return Alt([(a, s1.facts), (b, s2.facts)])

    def ev_Subscript(self, e, st, frame):
        base = self.ev(e.value, st, frame)
        sl = e.slice
        if isinstance(sl, ast.Slice):
            lo = self.ev(sl.lower, st, frame) if sl.lower is not None else None
            hi = self.ev(sl.upper, st, frame) if sl.upper is not None else None
            if sl.step is not None:
                return Opq("slice-step", [base])
            return self.slice(base, lo, hi, st)
        idx = self.ev(sl, st, frame)
        if isinstance(idx, BExp):
            # a mask bound to a local first (`m = index < lo; index[m]`): read through to the defining comparison
            idx = self.ev(idx.node, st, frame)
        return self.index(base, idx, e, st, frame)

    def slice(self, base, lo, hi, st):
        llo = as_lin_val(lo) if lo is not None else None
        lhi = as_lin_val(hi) if hi is not None else None
        if (lo is not None and llo is None) or (hi is not None and lhi is None):
            return Opq("slice", [base, lo, hi])
        return SliceV(base, llo, lhi)

    def index(self, base, idx, e, st, frame):
        if isinstance(base, Alt):
            return Alt([(self.index(x, idx, e, st, frame), f) for x, f in base.alts])
        li = as_lin_val(idx)
        if isinstance(base, Tup) and li is not None and li.is_const():
            i = int(li.const)
            if -len(base.items) <= i < len(base.items):
                return base.items[i]
        if isinstance(base, FHV):
            base_v = base.vec
        else:
            base_v = base
        if isinstance(idx, IdxV):
            if isinstance(base_v, Rng) and isinstance(idx.vec, Rng):
                return idx.elem if base_v == idx.vec else Opq("elem", [base_v])
            if isinstance(idx.vec, Rng):
                return Opq("elem", [base_v])
            if isinstance(base_v, Vec) and base_v.base == idx.vec.base and base_v.neg == idx.vec.neg:
                return idx.elem - idx.vec.off + base_v.off if isinstance(idx.elem, Lin) else idx.elem
            return Opq("elem", [base_v])
        if isinstance(base_v, Vec) and li is not None and li.is_const() and not base_v.neg:
            if li.const == -1:
                return base_v.elem("last")
            if li.const == 0:
                return base_v.elem("first")
            if float(li.const) == int(li.const):
                # any other constant position is an element of its own (equal to an end only for particular lengths)
                return base_v.elem(str(int(li.const)))
        if isinstance(base_v, Rng) and li is not None and li.is_const():
            if li.const == 0:
                return base_v.lo
            if li.const == -1 and base_v.step == Lin.c(1):
                return base_v.hi - 1
        if isinstance(base_v, Arr) and li is not None:
            if li.is_const() and li.const in (0, -1):
                return Lin.sym("%s[%d]" % (base_v.name, int(li.const)))
            return Opq("elem", [base_v, li])
        if isinstance(idx, Opq) and idx.tag.startswith("cmp:") and len(idx.args) == 2 and idx.args[0] == base:
            return Filt(base, idx.tag[4:], idx.args[1])
        if isinstance(idx, (Vec, Rng, FHV)):
            return Gather(base, idx.vec if isinstance(idx, FHV) else idx)
        return Opq("index", [base, idx])

    def ev_Call(self, e, st, frame):
        fname = dotted(e.func)
        args = [self.ev(a, st, frame) for a in e.args if not isinstance(a, ast.Starred)]
        if any(isinstance(a, ast.Starred) for a in e.args):
            args.append(Opq("starargs"))
        kwargs = {k.arg: self.ev(k.value, st, frame) for k in e.keywords if k.arg}
        if self.hooks is not None:
            r = self.hooks(self, frame, e, fname, args, kwargs, st)
            if r is not NotImplemented:
                return r
        r = self.builtin_call(e, fname, args, kwargs, st, frame)
        if r is not NotImplemented:
            return r
        r = self.inline_call(e, fname, args, kwargs, st, frame)
        if r is not NotImplemented:
            return r
        return Opq("call:" + (fname or "?"), args)

    # numpy / builtins -----------------------------------------------------------
    def ext_name(self, fname, frame):
        if not fname:
            return None
        sym = self.repo.resolve_dotted(frame.module, fname)
        if sym is not None and sym.kind == "ext":
            return sym.dotted
        if sym is None and "." not in fname:
            return "builtins." + fname
        return None

    def builtin_call(self, e, fname, args, kwargs, st, frame):
        ext = self.ext_name(fname, frame)
        lins = [as_lin_val(a) for a in args]
        if ext in ("numpy.arange", "builtins.range"):
            if all(l is not None for l in lins) and 1 <= len(lins) <= 3 and not kwargs:
                if len(lins) == 1:
                    return Rng(Lin.c(0), lins[0])
                return Rng(*lins)
            return Opq("range", args)
        if ext in ("builtins.abs", "numpy.abs", "numpy.absolute") and len(args) == 1 and lins[0] is not None and not kwargs:
            # |x| = x where the facts on the trace give x >= 0, -x where they give x <= 0
            if st.facts.entails(lins[0].scale(-1)) is not None:
                return lins[0]
            if st.facts.entails(lins[0]) is not None:
                return lins[0].scale(-1)
            return Opq("abs", args)
        if ext == "builtins.len" and len(args) == 1:
            a = args[0]
            if isinstance(a, Arr):
                return a.length
            if isinstance(a, Rng) and a.length() is not None:
                return a.length()
            if isinstance(a, FHV):
                return Lin.sym("len(%s)" % a.vec.base)
            if isinstance(a, Vec):
                return Lin.sym("len(%s)" % a.base)
            if isinstance(a, Tup):
                return Lin.c(len(a.items))
            return Opq("len", args)
        if ext in ("builtins.abs", "numpy.abs", "numpy.absolute") and len(args) == 1:
            l = lins[0]
            if l is not None:
                if st.facts.entails_cmp(l, ">=", 0) is not None:
                    return l
                if st.facts.entails_cmp(l, "<=", 0) is not None:
                    return -l
                s = Lin.sym("abs(%r)" % l)
                self.derived["abs(%r)" % l] = ("abs", l, None)
                st.facts.add_cmp(s, ">=", 0, "abs() is non-negative")
                return s
            return Opq("abs", args)
        if ext in ("numpy.max", "builtins.max", "numpy.amax", "numpy.min", "builtins.min", "numpy.amin") and len(args) == 1:
            which = "last" if "max" in ext else "first"
            a = args[0].vec if isinstance(args[0], FHV) else args[0]
            if isinstance(a, Vec) and a.sorted and not a.neg:
                return a.elem(which)
            if isinstance(a, Rng) and a.step == Lin.c(1):
                return a.lo if which == "first" else a.hi - 1
            return Opq(ext, args)
        if ext in ("builtins.max", "builtins.min", "numpy.maximum", "numpy.minimum") and len(args) == 2 \
                and lins[0] is not None and lins[1] is not None:
            a, b = lins
            is_max = "max" in ext
            if st.facts.entails_cmp(a, ">=", b) is not None:
                return a if is_max else b
            if st.facts.entails_cmp(b, ">=", a) is not None:
                return b if is_max else a
            nm = "%s(%r, %r)" % ("max" if is_max else "min", a, b)
            self.derived[nm] = ("max" if is_max else "min", a, b)
            sy = Lin.sym(nm)
            for x in (a, b):
                st.facts.add_cmp(sy, ">=" if is_max else "<=", x, "%s bounds its arguments" % ("max" if is_max else "min"))
            return sy
        if ext in ("builtins.int", "numpy.int", "numpy.int64", "builtins.float") and len(args) == 1 and lins[0] is not None:
            return lins[0]
        if ext in ("numpy.array", "numpy.asarray") and args:
            return args[0] if not isinstance(args[0], Tup) else Opq("array", args)
        if ext == "builtins.hasattr" and len(args) == 2 and isinstance(args[0], SelfV) and isinstance(args[1], K):
            return K(self.has_attr(args[0].cls, args[1].v))
        if ext == "builtins.getattr" and len(args) in (2, 3) and isinstance(args[0], SelfV) and isinstance(args[1], K) and isinstance(args[1].v, str):
            # getattr(self, "name"[, default]): the attribute when the class (or this object) has it, else the default
            nm = args[1].v
            if (id(args[0]), nm) in st.heap or nm in args[0].attrs or self.has_attr(args[0].cls, nm):
                return self.getattr(args[0], nm, e, st, frame)
            if len(args) == 3:
                return args[2]
        if ext == "builtins.isinstance":
            return Opq("isinstance", args)
        # methods on abstract values
        if isinstance(e.func, ast.Attribute):
            recv = self.ev(e.func.value, st, frame)
            r = self.method_call(recv, e.func.attr, args, kwargs, e, st, frame)
            if r is not NotImplemented:
                return r
        return NotImplemented

    def method_call(self, recv, meth, args, kwargs, e, st, frame):
        if isinstance(recv, FHV):
            if meth in ("to_numpy", "to_pandas") and not args:
                return recv.vec
            if meth in ("is_all_out_of_sample", "is_all_in_sample"):
                k = "%s.%s" % (recv.vec.base, meth)
                if k in self.scenario:
                    return K(self.scenario[k])
                return Opq("fh." + meth)
            if meth == "to_indexer":
                return recv.vec.shift(-1) if recv.relative else Opq("fh.to_indexer(abs)")
            if meth in ("max", "min"):
                return recv.vec.elem("last" if meth == "max" else "first")
        if isinstance(recv, Vec):
            if meth in ("max", "min") and recv.sorted and not recv.neg and not args:
                return recv.elem("last" if meth == "max" else "first")
            if meth in ("to_numpy", "copy"):
                return recv
        if isinstance(recv, (Rng, Arr)) and meth in ("copy", "to_numpy"):
            return recv
        return NotImplemented

    def has_attr(self, cls, name):
        """Does every instance of ``cls`` carry attribute ``name`` after construction?"""
        if cls is None:
            return False
        for k in self.repo.mro(cls):
            if not isinstance(k, ClassInfo):
                continue
            if name in k.methods or name in k.class_attrs:
                return True
            init = k.methods.get("__init__")
            if init is not None:
                for n in ast.walk(init):
                    if isinstance(n, ast.Attribute) and isinstance(n.ctx, ast.Store) and n.attr == name \
                            and isinstance(n.value, ast.Name) and n.value.id == "self":
                        return True
        return False

    # inlining -----------------------------------------------------------------
    def resolve_callee(self, e, fname, st, frame):
        """(module, FunctionDef, self value or None, defining class, static?) or None."""
        f = e.func
        if isinstance(f, ast.Attribute):
            recv_name = dotted(f.value)
            recv = st.env.get(recv_name) if recv_name else None
            if isinstance(recv, SelfV) and recv.cls is not None:
                hit = self.repo.lookup_method(recv.cls, f.attr)
                if hit:
                    k, fn = hit
                    return k.module, fn, recv, k, k.is_static(f.attr)
                return None
            if isinstance(f.value, ast.Call) and dotted(f.value.func) == "super" and frame.defcls is not None:
                selfv = st.env.get("self")
                if isinstance(selfv, SelfV):
                    hit = self.repo.lookup_method(selfv.cls, f.attr, after=frame.defcls)
                    if hit:
                        k, fn = hit
                        return k.module, fn, selfv, k, k.is_static(f.attr)
                return None
        if fname:
            sym = self.repo.resolve_dotted(frame.module, fname)
            if sym is not None and sym.kind == "func":
                return sym.module, sym.target, None, None, True
        return None

    def inline_call(self, e, fname, args, kwargs, st, frame):
        if frame.depth >= self.inline_depth:
            return NotImplemented
        if isinstance(e.func, ast.Name) and isinstance(st.env.get(e.func.id), Clo):
            # a local closure: its free variables are the enclosing function's locals at the time of the call
            clo = st.env[e.func.id]
            import inspect as _insp
            if "base_env" not in _insp.signature(self.run_function).parameters:
                return NotImplemented  # a subclass with its own run_function: leave local functions opaque there
            return self.inline_fn(frame.module, clo.fn, None, frame.defcls, True, args, kwargs, st, frame, outer=st.env)
        hit = self.resolve_callee(e, fname, st, frame)
        if hit is None:
            return NotImplemented
        module, fn, selfv, defcls, static = hit
        if fn.name in self.no_inline:
            return NotImplemented
        if any(isinstance(d, ast.Name) and d.id == "contextmanager" for d in fn.decorator_list):
            return NotImplemented
        return self.inline_fn(module, fn, selfv, defcls, static, args, kwargs, st, frame)

    def inline_fn(self, module, fn, selfv, defcls, static, args, kwargs, st, frame, outer=None):
        """Interpret ``fn`` with the given actuals in the caller's state; returns its value
        (an ``Alt`` if traces disagree) and merges facts / heap of the normal traces into ``st``."""
        a = fn.args
        params = [p.arg for p in a.posonlyargs + a.args]
        bound = {}
        if selfv is not None and not static and params:
            bound[params[0]] = selfv
            params = params[1:]
        for p, v in zip(params, args):
            bound[p] = v
        for k, v in kwargs.items():
            bound[k] = v
        sub = Frame(module, fn, selfv.cls if selfv is not None else (frame.cls if outer is not None else None), defcls, frame.depth + 1)
        traces, fst = self.run_function(sub, bound, st, base_env=outer) if outer is not None else self.run_function(sub, bound, st)
        is_gen = any(isinstance(n, (ast.Yield, ast.YieldFrom)) for n in ast.walk(fn)
                     if not isinstance(n, ast.Lambda))
        if is_gen:
            return Gen(fst.yields)
        normal = [(s, o[1] if o[0] == "return" else K(None)) for s, o in traces if o[0] in ("return", "fall")]
        if not normal:
            raise AlwaysRaises(fn.name)
        groups = []
        for s, v in normal:
            for g in groups:
                if _veq(g[0], v):
                    g[1].append(s)
                    break
            else:
                groups.append((v, [s]))
        if len(groups) == 1:
            v, states = groups[0]
            st.facts = _facts_meet([s.facts for s in states])
            st.heap = _heap_join([s.heap for s in states])
            return v
        alts = []
        for v, states in groups:
            f = _facts_meet([s.facts for s in states]).copy()
            f.heap = _heap_join([s.heap for s in states])
            alts.append((v, f))
        return Alt(alts)


def _veq(a, b):
    try:
        return a == b
    except Exception:
        return False


def _heap_join(heaps):
    if len(heaps) == 1:
        return dict(heaps[0])
    out = {}
    keys = set()
    for h in heaps:
        keys.update(h)
    for k in keys:
        vals = []
        for h in heaps:
            v = h.get(k, Opq("unset"))
            if not any(_veq(v, w) for w in vals):
                vals.append(v)
        out[k] = vals[0] if len(vals) == 1 else Opq("mixed", vals)
    return out


def _facts_meet(fs):
    if len(fs) == 1:
        return fs[0]
    first = fs[0]
    keep = []
    for f, o in first.items:
        if all(any(f == g for g, _ in other.items) for other in fs[1:]):
            keep.append((f, o))
    return Facts(keep)


def concrete(interp, lin, env):
    """Evaluate an affine form on a concrete assignment ``env`` (symbol -> int); derived symbols (floor, mod,
    product, abs, max, min) are computed from their recorded structure.  Raises KeyError for unknown symbols."""
    from fractions import Fraction as _F
    total = _F(lin.const)
    for sym, coef in lin.terms.items():
        if sym in env:
            v = env[sym]
        elif sym in interp.derived:
            kind, a, b = interp.derived[sym]
            va = concrete(interp, a, env)
            vb = concrete(interp, b, env) if b is not None else None
            if kind == "mul":
                v = va * vb
            elif kind == "floordiv":
                if vb == 0:
                    raise KeyError("division by zero")
                v = va // vb
            elif kind == "mod":
                if vb == 0:
                    raise KeyError("division by zero")
                v = va % vb
            elif kind == "abs":
                v = abs(va)
            elif kind == "max":
                v = max(va, vb)
            else:
                v = min(va, vb)
        else:
            raise KeyError(sym)
        total += coef * v
    return total


def as_lin_val(v):
    if isinstance(v, Lin):
        return v
    if isinstance(v, K) and isinstance(v.v, (int,)) and not isinstance(v.v, bool):
        return Lin.c(v.v)
    if isinstance(v, K) and isinstance(v.v, float) and v.v == int(v.v):
        return Lin.c(int(v.v))
    return None


CMP = {ast.Lt: "<", ast.LtE: "<=", ast.Gt: ">", ast.GtE: ">=", ast.Eq: "==", ast.NotEq: "!="}
NEG = {"<": ">=", "<=": ">", ">": "<=", ">=": "<", "==": "!=", "!=": "=="}
