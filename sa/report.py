"""Verdict collection, known-findings matching, evidence files and exit codes."""
import hashlib
import json
import os
import time

VERIF = os.path.dirname(os.path.dirname(os.path.abspath(__file__)))
EVIDENCE_DIR = os.path.join(VERIF, "evidence")
KNOWN_FILE = os.path.join(VERIF, "known_findings.json")

HOLDS, VIOLATION, UNDECIDED = "HOLDS", "VIOLATION", "UNDECIDED"


class Ctx:
    """One run of one property's rules over one Repo."""

    def __init__(self, prop, repo, tier="quick", seed=0):
        self.prop = prop
        self.repo = repo
        self.tier = tier
        self.seed = seed
        self.results = []  # dict(rule, construct, verdict, detail, loc)
        self.infos = []
        self.floors = {}  # rule -> minimal instance count
        self.assumptions = []
        self.explanations = []
        self.analysed = {}
        self.t0 = time.time()

    # ------------------------------------------------------------- recording
    def _rec(self, verdict, rule, construct, detail, loc, nontrivial=True, witness=None):
        self.results.append(
            {
                "rule": rule,
                "construct": construct,
                "verdict": verdict,
                "detail": detail,
                "loc": loc,
                "nontrivial": nontrivial,
                "witness": witness,
            }
        )

    def ok(self, rule, construct, detail="", loc=None, nontrivial=True):
        self._rec(HOLDS, rule, construct, detail, loc, nontrivial)

    def violation(self, rule, construct, what, loc=None, witness=None):
        self._rec(VIOLATION, rule, construct, what, loc, True, witness)

    def undecided(self, rule, construct, why, loc=None):
        self._rec(UNDECIDED, rule, construct, why, loc)

    def check(self, cond, rule, construct, ok_detail, bad_detail, loc=None, witness=None):
        """cond True -> HOLDS, False -> VIOLATION, None -> UNDECIDED."""
        if cond is None:
            self.undecided(rule, construct, bad_detail, loc)
        elif cond:
            self.ok(rule, construct, ok_detail, loc)
        else:
            self.violation(rule, construct, bad_detail, loc, witness)
        return cond

    def info(self, text):
        self.infos.append(text)

    def floor(self, rule, n):
        self.floors[rule] = n

    def assume(self, text):
        if text not in self.assumptions:
            self.assumptions.append(text)

    def explain(self, text):
        self.explanations.append(text)

    def count(self, key, n=1):
        self.analysed[key] = self.analysed.get(key, 0) + n

    def loc(self, module, node):
        return "%s:%s" % (module.relpath, getattr(node, "lineno", "?"))


def load_known(path=KNOWN_FILE):
    """Entries of known_findings.json plus known_findings.d/*.json (one file per property)."""
    import glob
    out = []
    paths = [path] + sorted(glob.glob(os.path.join(os.path.dirname(path), "known_findings.d", "*.json")))
    for p in paths:
        if not os.path.exists(p):
            continue
        with open(p) as f:
            data = json.load(f)
        out.extend(data.get("findings", []))
    return out


def finding_key(prop, r):
    return "%s|%s|%s" % (prop, r["rule"], r["construct"])


def finalize(ctx, write_evidence=True, known=None, quiet=False, out=print):
    """Print report lines, write evidence, return exit code."""
    known = load_known() if known is None else known
    known_keys = {}
    for k in known:
        if k.get("status", "known") == "known":
            known_keys["%s|%s|%s" % (k["property"], k["rule"], k["construct"])] = k
    viol, known_hit, undec = [], [], []
    counts = {}
    for r in ctx.results:
        counts[r["rule"]] = counts.get(r["rule"], 0) + 1
        if r["verdict"] == VIOLATION:
            if finding_key(ctx.prop, r) in known_keys:
                known_hit.append(r)
            else:
                viol.append(r)
        elif r["verdict"] == UNDECIDED:
            undec.append(r)
    floor_fail = []
    for rule, n in ctx.floors.items():
        if counts.get(rule, 0) < n:
            floor_fail.append((rule, counts.get(rule, 0), n))

    vdir = os.path.join(EVIDENCE_DIR, "violations")
    seen_lines = set()
    for r in known_hit:
        line = "KNOWN-FINDING: property=%s rule=%s construct=%s %s" % (
            ctx.prop, r["rule"], r["construct"], _one_line(r["detail"]))
        if line not in seen_lines:
            seen_lines.add(line)
            out(line)
    for r in viol:
        key = hashlib.sha1(finding_key(ctx.prop, r).encode()).hexdigest()[:10]
        path = os.path.join(vdir, "%s-%s.json" % (ctx.prop, key))
        if write_evidence:
            os.makedirs(vdir, exist_ok=True)
            with open(path, "w") as f:
                json.dump({"property": ctx.prop, "root": ctx.repo.root, **r}, f, indent=1, default=str)
        out("VIOLATION property=%s replay=%s" % (ctx.prop, path))
        out("  rule=%s construct=%s at %s: %s" % (r["rule"], r["construct"], r["loc"], _one_line(r["detail"])))
    for r in undec:
        out("ANALYSIS-ERROR property=%s rule=%s construct=%s at %s: %s" % (
            ctx.prop, r["rule"], r["construct"], r["loc"], _one_line(r["detail"])))
    for rule, got, need in floor_fail:
        out("ANALYSIS-ERROR property=%s rule=%s instance count %d below confirmed floor %d" % (
            ctx.prop, rule, got, need))

    wall = time.time() - ctx.t0
    holds = [r for r in ctx.results if r["verdict"] == HOLDS]
    nontrivial = {(r["rule"], r["construct"]) for r in ctx.results if r["nontrivial"]}
    if write_evidence:
        os.makedirs(EVIDENCE_DIR, exist_ok=True)
        samples = []
        per_rule_seen = {}
        for r in ctx.results:
            if per_rule_seen.get(r["rule"], 0) < 2:
                per_rule_seen[r["rule"]] = per_rule_seen.get(r["rule"], 0) + 1
                samples.append({k: r[k] for k in ("rule", "construct", "verdict", "detail", "loc")})
        ev = {
            "property_id": ctx.prop,
            "tier": ctx.tier,
            "seed": ctx.seed,
            "level": "other",
            "coverage": {
                "explanation": " ".join(ctx.explanations) or "static rules over the AST of /repo",
                "evaluations": len(ctx.results),
                "distinct_nontrivial": len(nontrivial),
                "rule": "one evaluation per (rule, construct) instance discovered in the parsed tree; "
                        "non-trivial = the instance carries at least one obligation that could fail; "
                        "distinct = distinct (rule, construct) keys",
                "obligations": len(ctx.results),
                "discharged": len(holds),
                "known_findings_matched": len(known_hit),
                "undecided": len(undec),
                "instances_per_rule": counts,
                "floors": ctx.floors,
                "samples": samples,
                "analysed": dict(ctx.analysed, modules=len(ctx.repo.modules),
                                 classes=len(ctx.repo.classes), tree_digest=ctx.repo.digest,
                                 root=ctx.repo.root),
                "exhaustive": True,
                "info": ctx.infos[:40],
                "known_findings": [
                    {"rule": r["rule"], "construct": r["construct"], "detail": r["detail"]} for r in known_hit
                ],
                "new_violations": [
                    {"rule": r["rule"], "construct": r["construct"], "detail": r["detail"], "loc": r["loc"]}
                    for r in viol
                ],
            },
            "assumptions": ctx.assumptions,
            "wall_s": round(wall, 3),
            "violations": len(viol),
        }
        with open(os.path.join(EVIDENCE_DIR, ctx.prop + ".json"), "w") as f:
            json.dump(ev, f, indent=1, default=str)
    if not quiet:
        out("%s tier=%s: %d instances, %d hold, %d known findings, %d new violations, %d undecided (%.2fs)" % (
            ctx.prop, ctx.tier, len(ctx.results), len(holds), len(known_hit), len(viol), len(undec), wall))
    if viol:
        return 1
    if undec or floor_fail:
        return 2
    return 0


def _one_line(s):
    return " ".join(str(s).split())[:400]
