"""E8 -- propositional abstraction: boolean structure of conditions over opaque atoms,
path conditions of raise / return / marked statements, truth-table equivalence.

Formulas are nested tuples: ("atom", key) | ("not", f) | ("and", (f, ...)) | ("or", (f, ...)) | ("const", bool).
Comparison atoms keep comparator and constant; integer comparisons against constants are
normalised to the single form ``lt(x, c)`` so ``x < 1``, ``x <= 0``, ``not x >= 1`` coincide.
"""
import ast
from itertools import product

from . import astq

TRUE = ("const", True)
FALSE = ("const", False)


def atom(k):
    return ("atom", k)


def neg(f):
    if f[0] == "const":
        return ("const", not f[1])
    if f[0] == "not":
        return f[1]
    return ("not", f)


def conj(*fs):
    out = []
    for f in fs:
        if f == FALSE:
            return FALSE
        if f == TRUE:
            continue
        if f[0] == "and":
            out.extend(f[1])
        else:
            out.append(f)
    if not out:
        return TRUE
    return out[0] if len(out) == 1 else ("and", tuple(out))


def disj(*fs):
    out = []
    for f in fs:
        if f == TRUE:
            return TRUE
        if f == FALSE:
            continue
        if f[0] == "or":
            out.extend(f[1])
        else:
            out.append(f)
    if not out:
        return FALSE
    return out[0] if len(out) == 1 else ("or", tuple(out))


def atoms_of(f, acc=None):
    acc = set() if acc is None else acc
    if f[0] == "atom":
        acc.add(f[1])
    elif f[0] == "not":
        atoms_of(f[1], acc)
    elif f[0] in ("and", "or"):
        for g in f[1]:
            atoms_of(g, acc)
    return acc


def evaluate(f, env):
    if f[0] == "const":
        return f[1]
    if f[0] == "atom":
        return env[f[1]]
    if f[0] == "not":
        return not evaluate(f[1], env)
    if f[0] == "and":
        return all(evaluate(g, env) for g in f[1])
    return any(evaluate(g, env) for g in f[1])


def lt_atoms_consistent(env):
    """lt(x, c) atoms are monotone in c: lt(x,1) implies lt(x,2)."""
    groups = {}
    for k, v in env.items():
        if k.startswith("lt(") and k.endswith(")"):
            x, _, c = k[3:-1].rpartition(", ")
            try:
                groups.setdefault(x, []).append((float(c), v))
            except ValueError:
                pass
    for x, items in groups.items():
        items.sort()
        seen_true = False
        for c, v in items:
            if seen_true and not v:
                return False
            if v:
                seen_true = True
    return True


def equivalent(f, g, assume=TRUE, max_atoms=14):
    """(True, None) if f <-> g under ``assume`` for all assignments; (False, witness env) otherwise;
    (None, None) if too many atoms."""
    names = sorted(atoms_of(f) | atoms_of(g) | atoms_of(assume))
    if len(names) > max_atoms:
        return None, None
    for vals in product((False, True), repeat=len(names)):
        env = dict(zip(names, vals))
        if not lt_atoms_consistent(env):
            continue
        if not evaluate(assume, env):
            continue
        if evaluate(f, env) != evaluate(g, env):
            return False, env
    return True, None


def implies(f, g, assume=TRUE):
    return equivalent(disj(neg(f), g), TRUE, assume)


def show(f):
    if f[0] == "const":
        return str(f[1])
    if f[0] == "atom":
        return f[1]
    if f[0] == "not":
        return "!" + show(f[1])
    sep = " & " if f[0] == "and" else " | "
    return "(" + sep.join(show(g) for g in f[1]) + ")"


# --------------------------------------------------------------------- from AST
class Atomizer:
    """Turns condition expressions into formulas.  ``rename`` maps local names to canonical
    names (e.g. the validator's parameter -> 'x'); ``versions`` tracks reassignment."""

    def __init__(self, rename=None, const_names=None):
        self.rename = dict(rename or {})
        self.versions = {}
        self.const_names = dict(const_names or {})  # name -> ("const", bool) e.g. enforce_list=False
        self.alias = {}   # local temporary -> canonical string of the expression it was assigned (at that time)
        self.bdefs = {}   # local temporary -> formula of the boolean expression it was assigned

    def name(self, n):
        if n in self.alias:
            return self.alias[n]
        base = self.rename.get(n, n)
        v = self.versions.get(n, 0)
        return base if v == 0 else "%s@%d" % (base, v)

    def define(self, n, value):
        """Record ``n = value`` for a simple local temporary (called *after* the versions were bumped)."""
        if isinstance(value, (ast.BoolOp, ast.Compare)) or (isinstance(value, ast.UnaryOp) and isinstance(value.op, ast.Not)):
            self.bdefs[n] = self._formula_no_self(value, n)
            self.alias.pop(n, None)
        elif isinstance(value, (ast.Call, ast.Attribute, ast.Subscript, ast.BinOp, ast.ListComp, ast.SetComp, ast.GeneratorExp, ast.Name)) and not any(
                isinstance(x, ast.Name) and x.id == n for x in ast.walk(value)):
            self.alias[n] = "(" + self.canon(value) + ")" if isinstance(value, ast.BinOp) else self.canon(value)
            self.bdefs.pop(n, None)

    def _formula_no_self(self, value, n):
        saved = self.bdefs.pop(n, None)
        try:
            return self.formula(value)
        finally:
            if saved is not None:
                self.bdefs[n] = saved

    def _predicate_body(self, e):
        """``pred(a, b)`` where ``pred`` is a module-level helper of the analysed module whose body is a single ``return <expr>``
        over its parameters and globals: that expression with the arguments substituted (a named condition is read through)."""
        module = getattr(self, "_module", None)
        repo = _BOUND["repo"] if "_BOUND" in globals() else None
        if module is None or repo is None or not (isinstance(e, ast.Call) and isinstance(e.func, ast.Name) and not e.keywords):
            return None
        if e.func.id in ("isinstance", "len", "hasattr", "callable", "any", "all", "bool", "is_int"):
            return None
        sym = repo.resolve_name(module, e.func.id)
        if sym is None or sym.kind != "func" or sym.module is not module:
            return None
        fn = sym.target
        body = [x for x in fn.body if not (isinstance(x, ast.Expr) and isinstance(x.value, ast.Constant))]
        params = [a.arg for a in fn.args.args]
        if len(body) != 1 or not isinstance(body[0], ast.Return) or body[0].value is None or len(params) != len(e.args) \
                or fn.args.vararg or fn.args.kwarg or fn.args.kwonlyargs or fn.decorator_list:
            return None
        if not isinstance(body[0].value, (ast.BoolOp, ast.Compare, ast.UnaryOp, ast.Call, ast.IfExp)):
            return None
        import copy
        sub = dict(zip(params, e.args))

        class _S(ast.NodeTransformer):
            def visit_Name(self, n):
                return copy.deepcopy(sub[n.id]) if n.id in sub and isinstance(n.ctx, ast.Load) else n
        return ast.fix_missing_locations(_S().visit(copy.deepcopy(body[0].value)))

    def canon(self, e):
        ren = {}
        for n in ast.walk(e):
            if isinstance(n, ast.Name):
                ren[n.id] = self.name(n.id)
        return astq.canon(e, ren)

    def bump(self, names):
        for n in names:
            self.versions[n] = self.versions.get(n, 0) + 1
            self.alias.pop(n, None)
            self.bdefs.pop(n, None)

    def formula(self, e):
        if isinstance(e, ast.BoolOp):
            parts = [self.formula(v) for v in e.values]
            return conj(*parts) if isinstance(e.op, ast.And) else disj(*parts)
        if isinstance(e, ast.UnaryOp) and isinstance(e.op, ast.Not):
            return neg(self.formula(e.operand))
        if isinstance(e, ast.Constant) and isinstance(e.value, bool):
            return ("const", e.value)
        if isinstance(e, ast.Name) and e.id in self.const_names:
            return self.const_names[e.id]
        if isinstance(e, ast.Name) and e.id in self.bdefs:
            return self.bdefs[e.id]
        if isinstance(e, ast.Call) and isinstance(e.func, ast.Name) and e.func.id == "len" and len(e.args) == 1 and not e.keywords:
            return neg(atom("eq(%s, 0)" % self.canon(e)))  # truthiness of a length
        pb = self._predicate_body(e)
        if pb is not None:
            return self.formula(pb)
        if isinstance(e, ast.Call) and isinstance(e.func, ast.Name) and e.func.id == "isinstance" and len(e.args) == 2 and not e.keywords \
                and isinstance(e.args[1], ast.Tuple) and e.args[1].elts:
            # isinstance(x, (A, B)) == isinstance(x, A) or isinstance(x, B): one atom per class
            return disj(*[self.formula(ast.Call(func=e.func, args=[e.args[0], c], keywords=[])) for c in e.args[1].elts])
        if isinstance(e, ast.Compare):
            if len(e.ops) == 1:
                return self.compare(e.left, e.ops[0], e.comparators[0])
            parts = []
            left = e.left
            for op, c in zip(e.ops, e.comparators):
                parts.append(self.compare(left, op, c))
                left = c
            return conj(*parts)
        return atom(self.canon(e))

    def compare(self, a, op, b):
        if isinstance(op, (ast.Is, ast.IsNot)):
            if isinstance(b, ast.Constant) and b.value is None:
                f = atom("isnone(%s)" % self.canon(a))
            elif isinstance(a, ast.Constant) and a.value is None:
                f = atom("isnone(%s)" % self.canon(b))
            else:
                f = atom("is(%s, %s)" % tuple(sorted([self.canon(a), self.canon(b)])))
            return f if isinstance(op, ast.Is) else neg(f)
        if isinstance(op, (ast.In, ast.NotIn)):
            lits = b.elts if isinstance(b, (ast.Tuple, ast.List, ast.Set)) else None
            if lits is not None and all(isinstance(x, ast.Constant) for x in lits):
                f = disj(*[atom("eq(%s, %r)" % (self.canon(a), x.value)) for x in lits])
            else:
                f = atom("in(%s, %s)" % (self.canon(a), self.canon(b)))
            return f if isinstance(op, ast.In) else neg(f)
        ca, cb = _num(a), _num(b)
        if ca is None and cb is not None and _is_len(a):
            z = atom("eq(%s, 0)" % self.canon(a))
            if (isinstance(op, ast.Lt) and cb == 1) or (isinstance(op, ast.LtE) and cb == 0) or (isinstance(op, ast.Eq) and cb == 0):
                return z
            if (isinstance(op, ast.Gt) and cb == 0) or (isinstance(op, ast.GtE) and cb == 1) or (isinstance(op, ast.NotEq) and cb == 0):
                return neg(z)
        if cb is None and ca is not None and _is_len(b):
            flip = {ast.Lt: ast.Gt, ast.LtE: ast.GtE, ast.Gt: ast.Lt, ast.GtE: ast.LtE, ast.Eq: ast.Eq, ast.NotEq: ast.NotEq}
            if type(op) in flip:
                return self.compare(b, flip[type(op)](), a)
        if isinstance(op, (ast.Eq, ast.NotEq)):
            if cb is not None and ca is None:
                f = atom("eq(%s, %s)" % (self.canon(a), _fmt(cb)))
            elif ca is not None and cb is None:
                f = atom("eq(%s, %s)" % (self.canon(b), _fmt(ca)))
            elif isinstance(b, ast.Constant) and cb is None:
                f = atom("eq(%s, %r)" % (self.canon(a), b.value))
            elif isinstance(a, ast.Constant) and ca is None:
                f = atom("eq(%s, %r)" % (self.canon(b), a.value))
            else:
                f = atom("eq(%s, %s)" % tuple(sorted([self.canon(a), self.canon(b)])))
            return f if isinstance(op, ast.Eq) else neg(f)
        # ordering comparisons; normalise x op const -> lt(x, c)
        if cb is not None and ca is None:
            x, c = self.canon(a), cb
            if isinstance(op, ast.Lt):
                return atom("lt(%s, %s)" % (x, _fmt(c)))
            if isinstance(op, ast.LtE):
                return atom("lt(%s, %s)" % (x, _fmt(c + 1)))
            if isinstance(op, ast.Gt):
                return neg(atom("lt(%s, %s)" % (x, _fmt(c + 1))))
            if isinstance(op, ast.GtE):
                return neg(atom("lt(%s, %s)" % (x, _fmt(c))))
        if ca is not None and cb is None:
            flip = {ast.Lt: ast.Gt, ast.LtE: ast.GtE, ast.Gt: ast.Lt, ast.GtE: ast.LtE}
            return self.compare(b, flip[type(op)](), a)
        # general: lt(a, b) / le(a, b) with direction normalised
        sa_, sb = self.canon(a), self.canon(b)
        if isinstance(op, ast.Lt):
            return atom("lt(%s, %s)" % (sa_, sb))
        if isinstance(op, ast.GtE):
            return neg(atom("lt(%s, %s)" % (sa_, sb)))
        if isinstance(op, ast.Gt):
            return atom("lt(%s, %s)" % (sb, sa_))
        if isinstance(op, ast.LtE):
            return neg(atom("lt(%s, %s)" % (sb, sa_)))
        return atom(self.canon(ast.Compare(a, [op], [b])))


def _is_len(e):
    return isinstance(e, ast.Call) and isinstance(e.func, ast.Name) and e.func.id == "len" and len(e.args) == 1


def _num(e):
    if isinstance(e, ast.Constant) and isinstance(e.value, (int, float)) and not isinstance(e.value, bool):
        return e.value
    if isinstance(e, ast.UnaryOp) and isinstance(e.op, ast.USub) and isinstance(e.operand, ast.Constant) \
            and isinstance(e.operand.value, (int, float)):
        return -e.operand.value
    return None


def _fmt(c):
    return str(int(c)) if float(c) == int(c) else str(c)


_BOUND = {"repo": None, "owner": {}}


def bind_repo(repo):
    """Let PathConditions resolve calls of always-raising helpers (``_raise_invalid(...)``): such a call statement is a
    rejection site exactly like an inline ``raise``.  Call once per run with the Repo under analysis."""
    owner = {}
    for m in repo.modules.values():
        for nm, node in m.defs.items():
            if isinstance(node, (ast.FunctionDef, ast.AsyncFunctionDef)):
                owner[id(node)] = (m, None)
    for c in repo.classes.values():
        for fn in c.methods.values():
            owner[id(fn)] = (c.module, c)
    _BOUND["repo"], _BOUND["owner"] = repo, owner


def _always_raises(fn):
    from .cfg import block_always_raises
    body = [st for st in fn.body if not (isinstance(st, ast.Expr) and isinstance(st.value, ast.Constant))]
    for st in ast.walk(fn):
        if isinstance(st, ast.Raise) and st.exc is not None:
            e = st.exc.func if isinstance(st.exc, ast.Call) else st.exc
            nm = astq.dotted(e) if hasattr(astq, "dotted") else None
            if nm is None:
                from .index import dotted as _d
                nm = _d(e)
            if nm and nm.split(".")[-1] == "NotImplementedError":
                return False  # an abstract method: the call dispatches to an override
    if any(isinstance(x, (ast.Return, ast.Yield, ast.YieldFrom)) for x in astq.walk_no_nested(fn)):
        return False  # some path hands a value back
    return bool(body) and block_always_raises(body)


def _default_raising_calls(fn):
    repo = _BOUND["repo"]
    hit = _BOUND["owner"].get(id(fn)) if repo is not None else None
    if hit is None:
        return None
    module, cls = hit

    def resolver(call, at):
        f = call.func
        target = None
        if isinstance(f, ast.Name):
            nested = [x for x in ast.walk(fn) if isinstance(x, ast.FunctionDef) and x is not fn and x.name == f.id]
            if len(nested) == 1:
                target = nested[0]  # a closure defined inside the function under analysis
            else:
                sym = repo.resolve_name(module, f.id)
                if sym is not None and sym.kind == "func":
                    target = sym.target
        elif isinstance(f, ast.Attribute) and isinstance(f.value, ast.Name) and cls is not None and f.value.id in ("self", "cls", cls.name):
            h = repo.lookup_method(cls, f.attr)
            target = h[1] if h else None
        if target is not None and target is not fn and _always_raises(target):
            rn = [x for x in ast.walk(target) if isinstance(x, ast.Raise)]
            if rn:
                resolver.raise_nodes[id(call)] = rn[-1]
            return TRUE
        return None
    resolver.raise_nodes = {}
    return resolver


class PathConditions:
    """Path conditions of a loop-light function body: under which condition does the function
    raise / return normally / execute a marked statement."""

    def __init__(self, fn, atomizer=None, mark=None, inline_raising_calls=None):
        self.fn = fn
        self.at = atomizer or Atomizer()
        self.mark = mark
        self.raises = FALSE
        self.returns = FALSE
        self.marked = []  # (stmt, condition)
        self.raise_sites = []  # (Raise stmt, condition)
        self.return_sites = []
        self.return_truth = []  # (condition, formula of the returned expression) per return site
        self.loops = 0
        if inline_raising_calls is None:
            inline_raising_calls = _default_raising_calls(fn)
        _own = _BOUND["owner"].get(id(fn)) if _BOUND["repo"] is not None else None
        if _own is not None and getattr(self.at, "_module", None) is None:
            self.at._module = _own[0]
        self.inline_raising_calls = inline_raising_calls  # callable(call) -> formula or None: condition under which the call raises
        alive = self.walk(fn.body, TRUE)
        self.returns = disj(self.returns, alive)
        self.falls_through = alive

    def returned_truth(self):
        """Formula that is true iff the function returns a truthy value (for predicates made of boolean returns)."""
        out = FALSE
        for cond, vf in self.return_truth:
            if vf is None:
                return None
            out = disj(out, conj(cond, vf))
        return out

    def walk(self, stmts, alive):
        for st in stmts:
            if alive == FALSE:
                break
            alive = self.stmt(st, alive)
        return alive

    def stmt(self, st, alive):
        if self.mark is not None and self.mark(st):
            self.marked.append((st, alive))
        if isinstance(st, ast.If):
            c = self.at.formula(st.test)
            saved = dict(self.at.versions)
            saved_alias, saved_bdefs = dict(self.at.alias), dict(self.at.bdefs)
            a1 = self.walk(st.body, conj(alive, c))
            v1, al1, bd1 = dict(self.at.versions), dict(self.at.alias), dict(self.at.bdefs)
            self.at.versions = dict(saved)
            self.at.alias, self.at.bdefs = dict(saved_alias), dict(saved_bdefs)
            a2 = self.walk(st.orelse, conj(alive, neg(c)))
            v2, al2, bd2 = self.at.versions, self.at.alias, self.at.bdefs
            merged = {}
            for k in set(v1) | set(v2):
                a, b = v1.get(k, 0), v2.get(k, 0)
                merged[k] = a if a == b else max(a, b) + 1
            self.at.versions = merged
            # a branch that cannot fall through does not contribute to what is known afterwards
            if a1 == FALSE and a2 != FALSE:
                self.at.versions, self.at.alias, self.at.bdefs = dict(v2), dict(al2), dict(bd2)
            elif a2 == FALSE and a1 != FALSE:
                self.at.versions, self.at.alias, self.at.bdefs = dict(v1), dict(al1), dict(bd1)
            else:
                self.at.alias = {k: v for k, v in al1.items() if al2.get(k) == v}
                self.at.bdefs = {k: v for k, v in bd1.items() if bd2.get(k) == v}
            return disj(a1, a2)
        if isinstance(st, (ast.Continue, ast.Break)):
            return FALSE
        if isinstance(st, ast.Raise):
            self.raises = disj(self.raises, alive)
            self.raise_sites.append((st, alive))
            return FALSE
        if isinstance(st, ast.Return):
            self.returns = disj(self.returns, alive)
            self.return_sites.append((st, alive))
            try:
                vf = self.at.formula(st.value) if st.value is not None else FALSE
            except Exception:
                vf = None
            self.return_truth.append((alive, vf))
            return FALSE
        if isinstance(st, (ast.For, ast.While)):
            self.loops += 1
            it = atom("loop#%d" % self.loops)
            self.at.bump([n.id for n in ast.walk(st) if isinstance(n, ast.Name) and isinstance(n.ctx, ast.Store)])
            self.walk(st.body, conj(alive, it))
            return alive
        if isinstance(st, ast.With):
            return self.walk(st.body, alive)
        if isinstance(st, ast.Try):
            a = self.walk(st.body, alive)
            if st.finalbody:
                a = self.walk(st.finalbody, a)
            return a
        if isinstance(st, ast.Assert):
            c = self.at.formula(st.test)
            self.raises = disj(self.raises, conj(alive, neg(c)))
            return conj(alive, c)
        # simple statements: reassignment bumps versions; raising calls split the path
        if self.inline_raising_calls is not None:
            for c in astq.calls(st):
                r = self.inline_raising_calls(c, self.at)
                if r is not None:
                    self.raises = disj(self.raises, conj(alive, r))
                    rn = getattr(self.inline_raising_calls, "raise_nodes", {}).get(id(c))
                    if rn is not None:
                        self.raise_sites.append((rn, conj(alive, r)))  # the helper's own `raise` (exception type, message)
                    alive = conj(alive, neg(r))
        stored = [n.id for n in ast.walk(st) if isinstance(n, ast.Name) and isinstance(n.ctx, ast.Store)]
        pre = None
        if isinstance(st, ast.Assign) and len(st.targets) == 1 and isinstance(st.targets[0], ast.Name):
            # evaluate the right-hand side with the versions *before* the store
            tmp = Atomizer(self.at.rename, self.at.const_names)
            tmp.versions, tmp.alias, tmp.bdefs = dict(self.at.versions), dict(self.at.alias), dict(self.at.bdefs)
            old = (tmp.alias.get(st.targets[0].id), tmp.bdefs.get(st.targets[0].id))
            tmp.define(st.targets[0].id, st.value)
            pre = (tmp.alias.get(st.targets[0].id), tmp.bdefs.get(st.targets[0].id))
            # a value `define` does not name (literal, self-referential update, ...) must not inherit the previous binding's name
            if pre == old:
                pre = (None, None)
        if stored:
            self.at.bump(stored)
        if pre is not None:
            n = st.targets[0].id
            if pre[0] is not None and pre[0] != self.at.alias.get(n):
                self.at.alias[n] = pre[0]
            if pre[1] is not None:
                self.at.bdefs[n] = pre[1]
        return alive
