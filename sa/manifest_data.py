"""Single source of MANIFEST.json."""

TECH = "static analysis (AST, CFG, abstract interpretation over affine/provenance domains); no execution, no solver"
NOTE = ("Trusted base: Python evaluation order and C3 MRO; documented semantics of the few numpy/pandas/sklearn "
        "primitives in the transfer tables; no monkey-patching. Decides the listed structural clauses only, "
        "not the run-time behaviour (DESIGN.md section 7/8).")

CLAIMS = {
    "C05": ("Reduction: the lag matrix and target index map of the sliding-window transform as index-map identities (row r, lag c holds "
            "z[r+c]; target j is exactly fh_j steps after the window end; all full windows once; feasibility guard tight), per-step / "
            "multi-output wiring of clones, last-window extraction bounds, recursive and dirrec feedback positions, registry <-> class "
            "attribute <-> validator tables. What the wrapped regressor computes is not decided.", "3/C05"),
    "C09": ("Composite forecasters: representation typestate of the transformed-target pipeline (forward fit_transform chain on clones, "
            "reverse inverse chain honouring the skip tag, same representation at update), ensemble aggregator name <-> operator table on "
            "column-wise concatenated member forecasts, multiplexer selection and delegation, stacking hold-out order. Numeric equality "
            "with a manual composition is not decided.", "3/C09"),
    "C10": ("Update semantics: merge operand order (new data wins), cutoff move on non-empty batches only, refit on all remembered data "
            "exactly when update_params, cutoff save/restore pairing in a finally, moving-cutoff bookkeeping (forecast and cutoff appended "
            "after each update), update_params/X forwarded by every composite update. Forecast equality with a fresh fit is not decided.", "3/C10"),
    "C11": ("Elementary forecasters: window-length decision table of the naive forecaster, step selection and tiling arithmetic, seasonal "
            "alignment as a congruence mod sp through pad/reshape/nanmean/tile, drift coefficient, in-sample cutoff formula, common time "
            "origin of polynomial-trend fit and predict, constructor options reaching the wrapped statsmodels model. Numerical agreement "
            "with least squares / statsmodels is not decided.", "3/C11"),
    "C14": ("Closed-form transformers, structural clauses only: length and position maps of pad / truncate / sliding-window segmenter / "
            "interpolation grids / interval slices, imputation rule-name <-> operator table and option forwarding, row correspondence of "
            "per-instance loops. The numeric formulas (PAA frames, slopes, ACF values) are not decided.", "3/C14"),
    "C02": ("ForecastingHorizon conversions interpreted abstractly over a symbolic sorted step vector: to_absolute/to_relative are inverse "
            "affine maps (cutoff +/- steps), in-/out-of-sample masks partition at step 0 and drive to_in_sample/to_out_of_sample/is_all_*, "
            "indexer = steps - 1 for relative and absolute horizons, _check_values rejects duplicates / unsupported types and sorts on every "
            "path, check_fh wraps, rejects empty and enforces relative. Decides the arithmetic and call structure, not pandas' own coercion.", "3/C02"),
    "C03": ("Where the cutoff is written and from what (only _set_cutoff; last index of the stored / new data; restored in finally), every "
            "prediction index is built from fh.to_absolute(cutoff) (or delegated index-preservingly), step selection uses steps-1, positional vs "
            "label access discipline. Structural clauses only; forecast values and finiteness are not decided.", "3/C03"),
    "C06": ("Metric class-wrapper <-> function conformance (bijection, call signature, role of y_true/y_pred, option forwarding, attribute "
            "existence per concrete class), role preservation into kernels, weighted/unweighted sibling agreement, name <-> operator table, "
            "kernel shapes (percentage / relative / asymmetric), declared direction. Numeric values of the formulas are not decided.", "3/C06"),
    "C07": ("evaluate(): roles of the arguments at the metric call, provenance of everything handed to fit/update/predict (only the training "
            "window before prediction), order fit-or-update < predict < score < append with exactly one row per split, strategy table, "
            "validators first. Decides the fold loop's data flow, not numeric equality with an independent run.", "3/C07"),
    "C08": ("Tuning: ranking direction is the logical negation of greater_is_better (Python bool semantics evaluated for both directions), "
            "best_* read from one row, a fresh clone per candidate evaluated on the same cv/y/X/scoring/strategy, refit on the full data iff "
            "refit, every delegating member guarded with a method name and forwarding all arguments.", "3/C08"),
    "C12": ("No in-place write through a may-alias of caller data (flow-sensitive alias/freshness analysis with joins at merges and "
            "interprocedural 'mutates parameter k' summaries), components cloned before fitting, randomness only from "
            "check_random_state(self.random_state), nothing unpicklable stored on self, parallel results consumed positionally, "
            "apply-type methods neither write in place into nor (transformers) rebind state that fit binds. "
            "Repeatability of values and pickle round trips are not decided.", "3/C12"),
    "C13": ("Series transformers: transform/inverse duality as symbolic normal forms against an inverse-pair table, index provenance of "
            "tagged classes, (phase reference, seasonal component) written together, alignment shift as a congruence mod sp, label-vs-position "
            "discipline, default fit_transform = fit then transform. Numeric round-trip error is not decided.", "3/C13"),
    "C16": ("Container typestate of every panel entry point (126 resolved class x method pairs, each for a 3d-array and a nested-frame input): "
            "X is normalised by check_X/check_X_y before container-specific use and later uses match the coercion requested. Equivariance and "
            "batch-vs-single consistency are relations between executions and are not decided.", "3/C16"),
    "C17": ("Classifiers: predict decodes the arg-max of the class's own predict_proba through the label table that defines the column order; "
            "the normaliser of each ensemble equals the number / summed weight of the members iterated; votes land in the column of "
            "enumerate(classes_); guard and score structure. Probability values are not decided.", "3/C17"),
    "C18": (".ts writer <-> parser contract decided by interpreting both on symbolic tokens for every writer option combination (header tags "
            "accepted on every writer path, data-line separators, labels), loader concatenation order for split=None, agreement of the three "
            "parsers on column naming and label return. Numeric print precision is not decided.", "3/C18"),
    "C19": ("Benchmark orchestration: skip condition == nothing to write, by exhaustive truth table over the 96 admissible flag/existence "
            "assignments; every store guarded by its own existence check; save/check/load key agreement in both result stores; fresh clone per "
            "fold over the full product; registry updated on every loop path; call arities; no deletion. Behaviour under real crashes and "
            "equality of stored predictions with an independent fit are not decided.", "3/C19"),

    "C04": ("Per concrete estimator class (C3 MRO, 156 classes): the constructor chain stores every argument unchanged "
            "(abstract interpretation through super().__init__ chains), no method reachable from fit/apply-type methods "
            "overwrites a constructor parameter, fit sets the fitted flag on every path, returns self and cannot reject "
            "after setting it, every resolved (class, apply-method) pair passes the not-fitted guard on every path to a "
            "normal return (and before any use of its own state), constructor parameters are not mutated in place (also through locals, "
            "closures and helpers that write to the object they are handed), and the composite get/set parameter plumbing keeps its "
            "documented order, separator, name source, deep switch and component views (exact path-condition clauses). "
            "Covers the full class x method product the runtime suite cannot import.", "3/C04"),
    "C20": ("Call discipline of input validation: every forecaster/composite/splitter/tuning/evaluate/train-test-split/horizon "
            "entry point passes the relevant validator on every path before first use (must-call per concrete class), the validators' "
            "own rejection predicates (incl. both values of their option flags, their rejecting defaults, accepted container types and the "
            "subjects they are applied to) equal their specification by exhaustive truth table, string dispatch has a rejecting default, "
            "window feasibility is entailed by dominating guards (affine facts), no fitted flag can be set on a rejecting path, and the "
            "two horizon mixins implement their decision tables. Decides which inputs can reach a result without a check, not the "
            "exception type raised inside third-party code.", "3/C20"),
    "C01": ("Window/cutoff/test index arithmetic of the four splitters and _split_by_fh as affine identities over "
            "symbolic n, fh, window, step; feasibility guards entail in-bounds and are tight; reported cutoffs "
            "equal yielded cutoffs; unshuffled partition; the helpers the interpreter models (_check_y, check_time_index, _check_fh, "
            "fh.to_indexer) conform to their models. All configurations of the quantifier are covered "
            "symbolically (every rule instance is evaluated once per construct and scenario).", "3/C01"),
}

PENDING = {}

NOT_APPLICABLE = {
    "C15": "Losslessness of container round trips is a statement about element values after pandas/numpy "
           "pivot/melt/reshape primitives; nothing in sktime's source shape decides it (DESIGN.md 3/C15).",
}

ALL = ["C%02d" % i for i in range(1, 21)]


def build():
    checks = []
    for pid in ALL:
        if pid in CLAIMS:
            text, ref = CLAIMS[pid]
            checks.append({
                "property_id": pid,
                "quick_cmd": "./check %s --tier quick" % pid,
                "thorough_cmd": "./check %s --tier thorough" % pid,
                "evidence_file": "evidence/%s.json" % pid,
                "replay_cmd_template": "./check %s --replay {path}" % pid,
                "engine": "sa",
                "level_claimed": {"category": "other", "text": text, "design_ref": "DESIGN.md " + ref},
                "level_note": NOTE,
                "technique": TECH,
            })
    na = []
    for pid in ALL:
        if pid in CLAIMS:
            continue
        reason = NOT_APPLICABLE.get(pid) or PENDING.get(pid) or (
            "static check not built yet in this round (see DESIGN.md section 9); not claimed")
        na.append({"property_id": pid, "reason": reason})
    return {
        "version": 1,
        "setup_cmd": "python3 -m compileall -q sa >/dev/null 2>&1 || true",
        "hooks": {
            "guard": "SKTIME_VERIF",
            "enable": "no hooks: the analysis parses /repo's sources and never runs them",
            "baseline_off_cmd": "cd /repo && /venv/bin/python -m pytest -ra -q -p no:cacheprovider --timeout=900 --continue-on-collection-errors",
            "source_commits": [],
            "add_only": True,
        },
        "engines": [{
            "name": "sa",
            "path": "sa/",
            "serves_properties": sorted(CLAIMS),
            "kind_free_text": "custom static analyser: repository index/resolver, statement CFG with must-pass queries, "
                              "affine abstract interpreter, provenance dataflow, table-agreement and truth-table rules",
        }],
        "checks": checks,
        "not_applicable": na,
        "notes": "All checks are static (ast only). known_findings.json lists genuine defects recorded rather than repaired; "
                 "fix: commits in /repo are recorded there as fixed entries.",
    }
