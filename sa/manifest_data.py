"""Single source of MANIFEST.json."""

TECH = "static analysis (AST, CFG, abstract interpretation over affine/provenance domains); no execution, no solver"
NOTE = ("Trusted base: Python evaluation order and C3 MRO; documented semantics of the few numpy/pandas/sklearn "
        "primitives in the transfer tables; no monkey-patching. Decides the listed structural clauses only, "
        "not the run-time behaviour (DESIGN.md section 7/8).")

CLAIMS = {
    "C04": ("Per concrete estimator class (C3 MRO, 156 classes): the constructor chain stores every argument unchanged "
            "(abstract interpretation through super().__init__ chains), no method reachable from fit/apply-type methods "
            "overwrites a constructor parameter, fit sets the fitted flag on every path, returns self and cannot reject "
            "after setting it, every resolved (class, apply-method) pair passes the not-fitted guard on every path to a "
            "normal return, and the composite get/set parameter plumbing keeps its documented order and separator. "
            "Covers the full class x method product the runtime suite cannot import.", "3/C04"),
    "C20": ("Call discipline of input validation: every forecaster/composite/splitter/tuning/evaluate/train-test-split/horizon "
            "entry point passes the relevant validator on every path before first use (must-call per concrete class), the validators' "
            "own rejection predicates equal their specification by exhaustive truth table, string dispatch has a rejecting default, "
            "window feasibility is entailed by dominating guards (affine facts), no fitted flag can be set on a rejecting path, and the "
            "two horizon mixins implement their decision tables. Decides which inputs can reach a result without a check, not the "
            "exception type raised inside third-party code.", "3/C20"),
    "C01": ("Window/cutoff/test index arithmetic of the four splitters and _split_by_fh as affine identities over "
            "symbolic n, fh, window, step; feasibility guards entail in-bounds and are tight; reported cutoffs "
            "equal yielded cutoffs; unshuffled partition. All configurations of the quantifier are covered "
            "symbolically (every rule instance is evaluated once per construct and scenario).", "3/C01"),
}

PENDING = {}

NOT_APPLICABLE = {
    "C15": "Losslessness of container round trips is a statement about element values after pandas/numpy "
           "pivot/melt/reshape primitives; nothing in sktime's source shape decides it (DESIGN.md 3/C15).",
}

ALL = ["C%02d" % i for i in range(1, 21)]


def build():
    checks = []
    for pid in ALL:
        if pid in CLAIMS:
            text, ref = CLAIMS[pid]
            checks.append({
                "property_id": pid,
                "quick_cmd": "./check %s --tier quick" % pid,
                "thorough_cmd": "./check %s --tier thorough" % pid,
                "evidence_file": "evidence/%s.json" % pid,
                "replay_cmd_template": "./check %s --replay {path}" % pid,
                "engine": "sa",
                "level_claimed": {"category": "other", "text": text, "design_ref": "DESIGN.md " + ref},
                "level_note": NOTE,
                "technique": TECH,
            })
    na = []
    for pid in ALL:
        if pid in CLAIMS:
            continue
        reason = NOT_APPLICABLE.get(pid) or PENDING.get(pid) or (
            "static check not built yet in this round (see DESIGN.md section 9); not claimed")
        na.append({"property_id": pid, "reason": reason})
    return {
        "version": 1,
        "setup_cmd": "python3 -m compileall -q sa >/dev/null 2>&1 || true",
        "hooks": {
            "guard": "SKTIME_VERIF",
            "enable": "no hooks: the analysis parses /repo's sources and never runs them",
            "baseline_off_cmd": "cd /repo && /venv/bin/python -m pytest -ra -q -p no:cacheprovider --timeout=900 --continue-on-collection-errors",
            "source_commits": [],
            "add_only": True,
        },
        "engines": [{
            "name": "sa",
            "path": "sa/",
            "serves_properties": sorted(CLAIMS),
            "kind_free_text": "custom static analyser: repository index/resolver, statement CFG with must-pass queries, "
                              "affine abstract interpreter, provenance dataflow, table-agreement and truth-table rules",
        }],
        "checks": checks,
        "not_applicable": na,
        "notes": "All checks are static (ast only). known_findings.json lists genuine defects recorded rather than repaired; "
                 "fix: commits in /repo are recorded there as fixed entries.",
    }
