"""E3 -- constructor / attribute flow per *concrete* class.

``CtorFlow(repo).analyse(cls)`` interprets the ``__init__`` chain of ``cls`` along its real C3
linearisation, binding arguments through ``super().__init__(...)`` / ``Base.__init__(self, ...)``
calls (positional and keyword), and returns a ``CtorResult``:

  .params    constructor parameters of the concrete class (without ``self``)
  .defaults  {param: abstract value of its default}
  .attrs     {attribute: abstract value} written by the constructor chain
  .written   attributes written by *any* method of any class of the MRO (+ class-level names,
             methods and properties are in .class_names)
  .problems  reasons why the attribute table is not reliable (setattr / __getattr__ / loops ...)

Abstract values (hashable tuples):
  ("param", p)        the concrete constructor's parameter p, unchanged
  ("const", v)        a Python literal
  ("sym", dotted)     a resolved module-level function / class / external symbol
  ("ident", av, via)  av passed through a repo function proved to return its first argument
  ("not", av)         logical negation of av
  ("dict", ((k, av)..)) a dict literal with constant string keys (values captured at construction time)
  ("derived", text)   anything else (canonical text of the expression with parameters substituted)
  ("mixed", (av..))   different values on different branches
"""
import ast

from ..index import ClassInfo, dotted
from .. import astq


def PARAM(p):
    return ("param", p)


def CONST(v):
    return ("const", v)


def SYM(d):
    return ("sym", d)


class CtorResult:
    def __init__(self, cls):
        self.cls = cls
        self.params = []
        self.defaults = {}
        self.attrs = {}
        self.written = set()
        self.class_names = set()
        self.problems = []
        self.chain = []  # classes whose __init__ ran, in order

    def strip_ident(self, av):
        while av is not None and av[0] == "ident":
            av = av[1]
        return av

    def holds_param(self, attr, param=None):
        """True iff ``self.attr`` holds the constructor parameter (default: same name) unchanged."""
        return self.strip_ident(self.attrs.get(attr)) == PARAM(param or attr)


def join(a, b):
    if a == b:
        return a
    vals = set()
    for x in (a, b):
        if x is None:
            vals.add(("unset",))
        elif x[0] == "mixed":
            vals.update(x[1])
        else:
            vals.add(x)
    return ("mixed", tuple(sorted(vals, key=repr)))


class CtorFlow:
    MAX_DEPTH = 12

    def __init__(self, repo):
        self.repo = repo
        self._ident_cache = {}
        self._cache = {}

    # -------------------------------------------------------------------------- public API
    def analyse(self, cls):
        if cls.qual in self._cache:
            return self._cache[cls.qual]
        res = CtorResult(cls)
        self._cache[cls.qual] = res
        mro = self.repo.mro(cls)
        for k in mro:
            if not isinstance(k, ClassInfo):
                continue
            res.class_names.update(k.class_attrs)
            res.class_names.update(k.methods)
            res.class_names.update(k.properties)
            if "__getattr__" in k.methods or "__getattribute__" in k.methods or "__setattr__" in k.methods:
                res.problems.append("%s defines __getattr__/__setattr__" % k.name)
            for fn in k.methods.values():
                for attr, _, _ in astq.self_attr_stores(fn, _selfname(fn)):
                    res.written.add(attr)
                for c in astq.calls(fn):
                    if dotted(c.func) == "setattr" and c.args and isinstance(c.args[0], ast.Name) \
                            and c.args[0].id == _selfname(fn):
                        if len(c.args) > 1 and isinstance(c.args[1], ast.Constant) and isinstance(c.args[1].value, str):
                            res.written.add(c.args[1].value)
                        else:
                            res.problems.append("%s.%s uses setattr(self, <dynamic>)" % (k.name, fn.name))
        hit = self.repo.lookup_method(cls, "__init__")
        if hit is None:
            return res
        k, fn = hit
        res.params = astq.all_param_names(fn, skip_self=True)
        env = {p: PARAM(p) for p in res.params}
        for p, d in astq.param_defaults(fn).items():
            res.defaults[p] = self._ev(d, {}, k.module)
        if fn.args.vararg or fn.args.kwarg:
            res.problems.append("%s.__init__ takes *args/**kwargs" % k.name)
        self._run_init(res, cls, k, fn, env, 0)
        return res

    def is_identity(self, module, fn):
        """Every ``return`` of ``fn`` returns its first parameter, which is never rebound."""
        key = id(fn)
        if key in self._ident_cache:
            return self._ident_cache[key]
        names = astq.param_names(fn)
        ok = bool(names)
        if ok:
            first = names[0]
            rets = astq.returns(fn)
            ok = bool(rets) and all(isinstance(r.value, ast.Name) and r.value.id == first for r in rets) \
                and not astq.assigned_in(fn, first) and not astq.is_generator(fn)
        self._ident_cache[key] = ok
        return ok

    # ------------------------------------------------------------------------ interpreter
    def _run_init(self, res, concrete, defcls, fn, env, depth):
        if depth > self.MAX_DEPTH:
            res.problems.append("constructor chain deeper than %d" % self.MAX_DEPTH)
            return
        res.chain.append(defcls)
        selfname = _selfname(fn)
        self._block(fn.body, res, concrete, defcls, selfname, env, res.attrs, depth)

    def _block(self, stmts, res, concrete, defcls, selfname, env, attrs, depth):
        for st in stmts:
            if isinstance(st, ast.Expr) and isinstance(st.value, ast.Constant):
                continue
            if isinstance(st, (ast.Assign, ast.AnnAssign)):
                value = st.value
                targets = st.targets if isinstance(st, ast.Assign) else [st.target]
                if value is None:
                    continue
                av = self._ev(value, env, defcls.module)
                for t in targets:
                    self._assign(t, av, value, env, attrs, selfname, defcls)
            elif isinstance(st, ast.AugAssign):
                t = st.target
                if isinstance(t, ast.Name):
                    env[t.id] = ("derived", "%s %s= %s" % (t.id, type(st.op).__name__, self._text(st.value, env)))
                elif astq.is_self_attr(t, selfname):
                    attrs[t.attr] = ("derived", "augmented %s" % t.attr)
            elif isinstance(st, ast.Expr) and isinstance(st.value, ast.Call):
                self._call_stmt(st.value, res, concrete, defcls, selfname, env, attrs, depth)
            elif isinstance(st, ast.If):
                e1, a1 = dict(env), dict(attrs)
                e2, a2 = dict(env), dict(attrs)
                self._block(st.body, res, concrete, defcls, selfname, e1, a1, depth)
                self._block(st.orelse, res, concrete, defcls, selfname, e2, a2, depth)
                for d, x, y in ((env, e1, e2), (attrs, a1, a2)):
                    for key in set(x) | set(y):
                        d[key] = join(x.get(key), y.get(key))
            elif isinstance(st, (ast.Pass, ast.Raise, ast.Assert, ast.Import, ast.ImportFrom)):
                continue
            elif isinstance(st, (ast.For, ast.While, ast.With, ast.Try)):
                # not interpreted: everything stored inside becomes 'derived'
                for n in astq.walk_no_nested(st):
                    if isinstance(n, ast.Name) and isinstance(n.ctx, ast.Store):
                        env[n.id] = ("derived", "assigned in %s" % type(st).__name__)
                for attr, _, _ in astq.self_attr_stores(st, selfname):
                    attrs[attr] = ("derived", "assigned in %s" % type(st).__name__)
                for c in astq.calls(st):
                    if _is_init_call(c, selfname):
                        res.problems.append("%s.__init__ calls a base constructor inside %s" % (defcls.name, type(st).__name__))
            elif isinstance(st, ast.Return):
                return
            else:
                res.problems.append("%s.__init__: statement %s not interpreted" % (defcls.name, type(st).__name__))

    def _assign(self, target, av, value, env, attrs, selfname, defcls):
        if isinstance(target, ast.Name):
            env[target.id] = av
        elif astq.is_self_attr(target, selfname):
            attrs[target.attr] = av
        elif isinstance(target, (ast.Tuple, ast.List)):
            elts = value.elts if isinstance(value, (ast.Tuple, ast.List)) and len(value.elts) == len(target.elts) else None
            for i, t in enumerate(target.elts):
                if elts is not None:
                    self._assign(t, self._ev(elts[i], env, defcls.module), elts[i], env, attrs, selfname, defcls)
                else:
                    self._assign(t, ("derived", "item %d of %s" % (i, self._text(value, env))), value, env, attrs, selfname, defcls)

    def _call_stmt(self, call, res, concrete, defcls, selfname, env, attrs, depth):
        nxt = self._init_target(call, concrete, defcls, selfname)
        if nxt is None:
            # a plain method call on self may write attributes: mark them derived
            f = call.func
            if isinstance(f, ast.Attribute) and isinstance(f.value, ast.Name) and f.value.id == selfname:
                hit = self.repo.lookup_method(concrete, f.attr)
                if hit is not None:
                    for attr, _, _ in astq.self_attr_stores(hit[1], _selfname(hit[1])):
                        attrs[attr] = ("derived", "written by self.%s()" % f.attr)
            return
        if nxt == "ext":
            return
        k, fn, explicit_self = nxt
        b = astq.bind_call(fn, call, skip_self=not explicit_self)
        if b is None or "!unknown" in b or "*" in b or "**" in b:
            res.problems.append("%s.__init__: cannot bind the call of %s.__init__" % (defcls.name, k.name))
            return
        names = astq.all_param_names(fn, skip_self=True)
        dflt = astq.param_defaults(fn)
        cenv = {}
        for p in names:
            if p in b:
                cenv[p] = self._ev(b[p], env, defcls.module)
            elif p in dflt:
                cenv[p] = self._ev(dflt[p], {}, k.module)
            else:
                res.problems.append("%s.__init__ does not supply %r to %s.__init__" % (defcls.name, p, k.name))
                cenv[p] = ("derived", "missing")
        # nested constructor writes straight into the same attribute table
        sub = CtorResult(concrete)
        sub.attrs = attrs
        sub.problems = res.problems
        sub.chain = res.chain
        self._run_init(sub, concrete, k, fn, cenv, depth + 1)

    def _init_target(self, call, concrete, defcls, selfname):
        """(class, __init__ FunctionDef, explicit self?) for super().__init__/Base.__init__ calls."""
        f = call.func
        if not (isinstance(f, ast.Attribute) and f.attr == "__init__"):
            return None
        v = f.value
        if isinstance(v, ast.Call) and dotted(v.func) == "super":
            after = defcls
            if v.args:
                sym = self.repo.resolve_expr(defcls.module, v.args[0])
                if sym is not None and sym.kind == "class":
                    after = sym.target
            hit = self.repo.lookup_method(concrete, "__init__", after=after)
            return (hit[0], hit[1], False) if hit else "ext"
        sym = self.repo.resolve_expr(defcls.module, v)
        if sym is not None and sym.kind == "class":
            hit = self.repo.lookup_method(sym.target, "__init__")
            return (hit[0], hit[1], True) if hit else "ext"
        if sym is not None and sym.kind == "ext":
            return "ext"
        return None

    # ------------------------------------------------------------------------ expressions
    def _ev(self, e, env, module):
        if isinstance(e, ast.Constant):
            return CONST(e.value)
        if isinstance(e, ast.Name):
            if e.id in env:
                return env[e.id]
            return self._resolve(module, e.id, e)
        if isinstance(e, ast.Attribute):
            d = dotted(e)
            if d and d.split(".")[0] not in env:
                sym = self.repo.resolve_dotted(module, d)
                if sym is not None and sym.kind in ("func", "class", "ext"):
                    return SYM(sym.dotted)
            return ("derived", self._text(e, env))
        if isinstance(e, ast.UnaryOp) and isinstance(e.op, ast.USub) and isinstance(e.operand, ast.Constant) \
                and isinstance(e.operand.value, (int, float)):
            return CONST(-e.operand.value)
        if isinstance(e, ast.IfExp):
            t = self._truth(e.test, env, module)
            if t is True:
                return self._ev(e.body, env, module)
            if t is False:
                return self._ev(e.orelse, env, module)
            return ("derived", self._text(e, env))
        if isinstance(e, ast.Dict) and e.keys and all(isinstance(k, ast.Constant) and isinstance(k.value, str) for k in e.keys):
            return ("dict", tuple((k.value, self._ev(v, env, module)) for k, v in zip(e.keys, e.values)))
        if isinstance(e, ast.Call) and dotted(e.func) == "dict" and "dict" not in env and not e.args \
                and e.keywords and all(k.arg is not None for k in e.keywords):
            return ("dict", tuple((k.arg, self._ev(k.value, env, module)) for k in e.keywords))
        if isinstance(e, ast.UnaryOp) and isinstance(e.op, ast.Not):
            inner = self._ev(e.operand, env, module)
            if inner[0] == "const":
                return CONST(not inner[1])
            if inner[0] == "not":
                return ("derived", "bool(%s)" % self._text(e.operand.operand if isinstance(e.operand, ast.UnaryOp) else e.operand, env))
            return ("not", inner)
        if isinstance(e, ast.Call):
            d = dotted(e.func)
            sym = self.repo.resolve_dotted(module, d) if d and d.split(".")[0] not in env else None
            if (sym is not None and sym.kind == "func" and e.args and not isinstance(e.args[0], ast.Starred)
                    and all(k.arg is not None and isinstance(k.value, ast.Constant) for k in e.keywords)
                    and self.is_identity(sym.module, sym.target)):
                return ("ident", self._ev(e.args[0], env, module), sym.dotted)
            return ("derived", self._text(e, env))
        if isinstance(e, (ast.Tuple, ast.List)) and all(isinstance(x, ast.Constant) for x in e.elts):
            return CONST(tuple(x.value for x in e.elts))
        return ("derived", self._text(e, env))

    def _truth(self, test, env, module):
        """Fold ``x is None`` / ``x is not None`` when x is a literal or a resolved symbol."""
        if isinstance(test, ast.Compare) and len(test.ops) == 1 and isinstance(test.ops[0], (ast.Is, ast.IsNot)) \
                and isinstance(test.comparators[0], ast.Constant) and test.comparators[0].value is None:
            av = self._ev(test.left, env, module)
            if av[0] == "const":
                r = av[1] is None
            elif av[0] == "sym":
                r = False
            else:
                return None
            return r if isinstance(test.ops[0], ast.Is) else not r
        return None

    def _resolve(self, module, name, node):
        sym = self.repo.resolve_name(module, name)
        if sym is None:
            return ("derived", name)
        if sym.kind in ("func", "class", "ext"):
            return SYM(sym.dotted)
        if sym.kind == "const" and isinstance(sym.target, ast.Constant):
            return CONST(sym.target.value)
        return ("derived", sym.dotted or name)

    def _text(self, e, env):
        rename = {}
        for k, v in env.items():
            if v[0] == "param":
                rename[k] = "<%s>" % v[1]
            elif v[0] == "const":
                rename[k] = repr(v[1])
            elif v[0] == "sym":
                rename[k] = v[1]
        return astq.canon(e, rename)


def _selfname(fn):
    a = fn.args.posonlyargs + fn.args.args
    return a[0].arg if a else "self"


def _is_init_call(c, selfname):
    return isinstance(c.func, ast.Attribute) and c.func.attr == "__init__"
