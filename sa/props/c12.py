"""C12 -- purity and reproducibility (DESIGN 3/C12).

R1 caller data is never written   (E4 may-alias analysis, interprocedural, _c12_alias.py)
R2 components are cloned before fitting (same engine, event kind "fit" on self.<ctor param>)
R3 randomness ownership           (seed provenance of every rng construction / draw, no global-state draws,
                                   no rng object handed to a delayed(...) task)
R4 picklable state                (no lambda / nested function stored on self)
R5 parallel collection            (results of Parallel(...)(tasks) are consumed positionally)
"""
import ast
import fnmatch

from ..index import AnalysisError, ClassInfo, Module, dotted
from ..flow import Flow
from .. import astq
from ._c12_alias import AliasEngine

ANCHORS = [
    "sktime/transformations/series/outlier_detection.py",
    "sktime/transformations/series/impute.py",
    "sktime/transformations/series/boxcox.py",
    "sktime/transformations/series/detrend/_detrend.py",
    "sktime/transformations/series/detrend/_deseasonalize.py",
    "sktime/transformations/panel/*.py",
    "sktime/forecasting/base/_sktime.py",
    "sktime/forecasting/base/_meta.py",
    "sktime/series_as_features/base/estimators/interval_based/_tsf.py",
    "sktime/classification/interval_based/_tsf.py",
    "sktime/classification/dictionary_based/_boss.py",
    "sktime/utils/validation/__init__.py",
    # named by the design's reading round (fit reassigns the caller's index); part of the forecasting base package
    "sktime/forecasting/base/adapters/_statsmodels.py",
]
FROZEN = [a for a in ANCHORS if "*" not in a]

ENTRY = ("fit", "transform", "inverse_transform", "fit_transform", "predict", "predict_proba", "update", "update_predict",
         "update_predict_single", "compute_pred_int", "score", "fit_predict")
DATA_PARAMS = {"X", "y", "Z", "Y", "y_new", "y_train", "X_train", "y_test", "X_test", "X_new", "y_pred", "Xt", "yt"}

RNG_CTORS = {"sklearn.utils.check_random_state", "sklearn.utils.validation.check_random_state", "numpy.random.RandomState",
             "numpy.random.default_rng", "numpy.random.Generator", "random.Random", "numpy.random.mtrand.RandomState"}
NOT_DRAWS = {"RandomState", "default_rng", "Generator", "SeedSequence", "BitGenerator", "PCG64", "MT19937", "Philox", "SFC64",
             "Random", "SystemRandom", "get_state", "getstate", "mtrand", "bit_generator"}
DRAW_METHODS = {"randint", "rand", "randn", "random", "random_sample", "choice", "uniform", "normal", "shuffle", "permutation",
                "integers", "standard_normal", "beta", "binomial", "poisson", "exponential", "gamma", "bytes", "multinomial",
                "sample", "ranf", "random_integers", "triangular", "lognormal", "laplace"}
SEED_PARAMS = {"random_state", "seed"}


def anchored_modules(repo):
    for a in FROZEN:
        repo.module(a)  # AnalysisError if a frozen anchor vanished
    out = []
    for rel, m in sorted(repo.by_relpath.items()):
        if any(_match(rel, pat) for pat in ANCHORS) and "/tests/" not in rel:
            out.append(m)
    return out


def _match(rel, pat):
    # ``*`` does not cross directory separators (the anchor names the files of one package, not its sub-packages)
    return rel.count("/") == pat.count("/") and fnmatch.fnmatch(rel, pat)


def classes_of(repo, module):
    return sorted((c for c in repo.classes.values() if c.module is module), key=lambda c: c.node.lineno)


def ctor_params(repo, cls):
    out = set()
    for k in repo.mro(cls):
        if isinstance(k, ClassInfo) and "__init__" in k.methods:
            out |= set(astq.all_param_names(k.methods["__init__"], skip_self=True))
    return out


def functions_of(repo, module):
    """(qualname, FunctionDef, ClassInfo|None) for every top-level function and method of the module."""
    out = []
    for name, node in module.defs.items():
        if isinstance(node, (ast.FunctionDef, ast.AsyncFunctionDef)):
            out.append((name, node, None))
    for c in classes_of(repo, module):
        for mn, fn in c.methods.items():
            out.append((c.name + "." + mn, fn, c))
    return out


# ====================================================================================== R1 / R2


def check_alias(ctx, repo, mods):
    """R1 / R2.  Construct keys name the *public* entry point, the caller parameter (R1) or the constructor parameter (R2) and the
    kind of sink -- never the private helpers on the way (they only appear in the detail text), so moving code between helpers
    does not rename a finding."""
    eng = AliasEngine(repo)
    names = {}
    for m in mods:
        for c in classes_of(repo, m):
            names.setdefault(c.name, []).append(c)
    for m in mods:
        for c in classes_of(repo, m):
            cname = c.name if len(names[c.name]) == 1 else c.qual
            params = ctor_params(repo, c)
            own = [mn for mn in c.methods if mn not in ENTRY and not (mn.startswith("__") and mn.endswith("__"))]
            reached = set()  # fit sites reached from a public entry point of this class
            for meth in list(ENTRY) + own:
                hit = repo.lookup_method(c, meth)
                if hit is None:
                    continue
                k, fn = hit
                if c.is_static(meth) or k.is_static(meth) or "classmethod" in k.decorators.get(meth, []) or meth in k.properties:
                    continue
                s = eng.summary(fn, k.module, c, k)
                public = meth in ENTRY
                ctx.count("entry_points" if public else "helper_methods")
                formal = [p for p in astq.all_param_names(fn, skip_self=True)]
                loc = ctx.loc(k.module, fn)
                tag = "%s.%s" % (cname, meth)
                if public:
                    _judge_r1(ctx, tag, formal, s, loc)
                # ---- R2: .fit*/fit_transform calls reached from this method
                sites = set(s.sites)
                if public:
                    reached |= {x[0] for x in sites}
                else:
                    sites = {x for x in sites if x[0] not in reached}  # helpers only for what no public entry point reaches
                    if not sites:
                        continue
                site_locs = {x[0] for x in sites}
                by_param = {}
                for ev in s.events:
                    if ev.kind == "fit" and ev.loc in site_locs and ev.origin.startswith("self.") and ev.origin[5:] in params:
                        by_param.setdefault(ev.origin, []).append(ev)
                    elif ev.kind == "fit" and ev.loc in site_locs and ev.origin.startswith("self.") and ev.sure:
                        # an estimator object created at class level is shared by all instances: fitting it is fitting everybody's
                        ca = repo.lookup_class_attr(c, ev.origin[5:])
                        if ca is not None and isinstance(ca[1], ast.Call) and not any(
                                a_ == ev.origin[5:] for k_ in repo.mro(c) if isinstance(k_, ClassInfo) for mn_, f_ in k_.methods.items()
                                for a_, v_, s__ in astq.self_attr_stores(f_)):
                            by_param.setdefault(ev.origin, []).append(ev)
                bad = False
                for origin, evs in sorted(by_param.items()):
                    bad = True
                    key = "%s:%s:%s" % (cname, origin, meth)
                    where = "; ".join(sorted({"%s%s" % (e.loc, (" via " + "->".join(e.chain)) if e.chain else "") for e in evs}))
                    if any(e.sure for e in evs):
                        shared = origin[5:] not in params
                        ctx.violation("R2", key, "%s fits the %s object %s itself (no clone): %s [%s]" % (
                            tag, "class-level (shared by all instances)" if shared else "constructor-parameter", origin,
                            "every instance then holds the same fitted object, a later fit of another instance silently changes this one" if shared
                            else "fitting mutates the user's component and the estimator's parameters", where), evs[0].loc,
                                      witness={"receiver": origin, "sites": where})
                    else:
                        ctx.undecided("R2", key, "receiver of a .fit call has an unknown relation to %s [%s]" % (origin, where), evs[0].loc)
                if not bad and sites:
                    ctx.ok("R2", tag + ":fit-calls", "%d reached .fit/.fit_transform call(s); no receiver is a constructor-parameter object "
                           "(clone / constructor result / fitted copy): %s" % (len(sites), ", ".join(sorted(site_locs))), loc)
    # concrete subclasses supply the arguments of the anchored helpers (e.g. EnsembleForecaster.fit -> _fit_forecasters): a member that
    # the anchored code fits must not be the constructor-parameter object of the subclass either
    anchored = {m.relpath for m in mods}
    constructed, subs = dependency_classes(repo, mods)
    for q_, (c, basename) in sorted(subs.items()):
        params = ctor_params(repo, c)
        for meth in ENTRY:
            hit = repo.lookup_method(c, meth)
            if hit is None or hit[0].is_static(meth):
                continue
            k, fn = hit
            s = eng.summary(fn, k.module, c, k)
            by_param = {}
            for ev in s.events:
                if ev.kind == "fit" and ev.sure and ev.loc.rsplit(":", 1)[0] in anchored and ev.origin.startswith("self.") and ev.origin[5:] in params:
                    by_param.setdefault(ev.origin, []).append(ev)
            for origin, evs in sorted(by_param.items()):
                where = "; ".join(sorted({"%s%s" % (e.loc, (" via " + "->".join(e.chain)) if e.chain else "") for e in evs}))
                ctx.violation("R2", "%s:%s:%s" % (c.name, origin, meth),
                              "%s.%s hands the constructor-parameter object(s) %s to the anchored code, which fits them without clone [%s]: fitting "
                              "mutates the user's components and the estimator's parameters" % (c.name, meth, origin, where), evs[0].loc,
                              witness={"receiver": origin, "sites": where})
            if any(x[0].rsplit(":", 1)[0] in anchored for x in s.sites) and not by_param:
                ctx.ok("R2", "%s.%s:fit-calls" % (c.name, meth), "members fitted by the anchored code are clones (hooks of %s)" % basename, ctx.loc(k.module, fn))
    ctx.count("functions_summarised", eng.stats["functions"])
    return eng


def _judge_r1(ctx, tag, formal, s, loc):
    groups = {}
    for ev in s.events:
        if ev.kind != "write" or ev.origin not in formal:
            continue
        if "augassign" in ev.desc and ev.origin not in DATA_PARAMS:
            if not ev.chain:
                ctx.info("%s: augmented assignment on non-data parameter %s (rebinding for scalars)" % (tag, ev.origin))
            continue
        groups.setdefault((ev.origin, ev.desc + (("@" + ev.guard) if ev.guard else "")), []).append(ev)
    for (origin, desc), evs in sorted(groups.items()):
        # key = entry point, caller parameter, sink kind and the option values under which the sink is reached (never helper names)
        key = "%s:%s:%s" % (tag, origin, desc)
        where = "; ".join(sorted({"%s%s" % (e.loc, (" reached through " + " -> ".join(e.chain)) if e.chain else "") for e in evs}))
        sure = [e for e in evs if e.sure]
        if sure:
            ctx.violation("R1", key, "%s(%s): caller argument `%s` is written in place (%s) [%s]" % (tag, ", ".join(formal), origin, desc, where),
                          sure[0].loc, witness={"origin": origin, "sink": desc, "sites": where})
        else:
            ctx.undecided("R1", key, "an in-place sink (%s) is reached through a value with unknown relation to `%s` [%s]" % (desc, origin, where),
                          evs[0].loc)
    if not groups:
        ctx.ok("R1", tag, "no in-place sink reachable through an alias/view of (%s); returns %r" % (", ".join(formal), s.ret), loc,
               nontrivial=bool(formal))


def widened_scope(ctx, repo, mods, eng):
    """thorough tier: the same R1/R2/R3(a) analyses over every estimator class outside the anchored files; reported as information
    (these constructs are not anchored by the property; they are candidates for a later triage, not verdicts)."""
    anchored = {m.relpath for m in mods}
    scope = RngScope(repo, [])
    n_cls = n_ev = 0
    for c in repo.estimator_classes():
        if c.module.relpath in anchored:
            continue
        n_cls += 1
        params = ctor_params(repo, c)
        for meth in ENTRY:
            hit = repo.lookup_method(c, meth)
            if hit is None or hit[0].is_static(meth):
                continue
            k, fn = hit
            try:
                s_ = eng.summary(fn, k.module, c, k)
            except RecursionError:
                ctx.info("thorough: %s.%s not analysed (recursion limit)" % (c.name, meth))
                continue
            formal = astq.all_param_names(fn, skip_self=True)
            for ev in s_.events:
                if ev.kind == "write" and ev.origin in formal and ev.sure and not ("augassign" in ev.desc and ev.origin not in DATA_PARAMS):
                    n_ev += 1
                    ctx.info("thorough R1 candidate (not anchored): %s.%s writes caller argument `%s` (%s at %s%s)"
                             % (c.name, meth, ev.origin, ev.desc, ev.loc, " via " + "->".join(ev.chain) if ev.chain else ""))
                elif ev.kind == "fit" and ev.sure and ev.origin.startswith("self.") and ev.origin[5:] in params:
                    n_ev += 1
                    ctx.info("thorough R2 candidate (not anchored): %s.%s fits the constructor-parameter object %s at %s"
                             % (c.name, meth, ev.origin, ev.loc))
    n_gd = 0
    for m in repo.non_test_modules():
        if m.relpath in anchored or m.name.startswith(repo.package + ".contrib"):
            continue
        for q, fn, c in functions_of(repo, m):
            for call, d in global_draws(scope, m, fn):
                n_gd += 1
                ctx.info("thorough R3 candidate (not anchored): %s:%s draws from global `%s` at line %s" % (m.relpath, q, d, call.lineno))
    ctx.count("thorough_classes", n_cls)
    ctx.count("thorough_candidates", n_ev + n_gd)


# ====================================================================================== R3


class RngScope:
    """Seed / rng provenance inside the anchored modules (flow-insensitive, interprocedural by call-site binding)."""

    def __init__(self, repo, mods):
        self.repo, self.mods = repo, mods
        self.flow = Flow(repo)
        self.funcs = []  # (module, qualname, fn, cls)
        for m in mods:
            for q, fn, c in functions_of(repo, m):
                self.funcs.append((m, q, fn, c))
        self._callsites = None
        self._bound = {}
        self._indirect = {}

    def ext(self, module, fn, expr):
        d = dotted(expr)
        if not d:
            return None
        root = d.split(".")[0]
        if fn is not None and root in self.bound_names(fn):
            return None
        sym = self.repo.resolve_dotted(module, d)
        if sym is not None and sym.kind == "ext":
            return sym.dotted
        return None

    def bound_names(self, fn):
        b = self._bound.get(id(fn))
        if b is None:
            b = set(astq.all_param_names(fn)) if hasattr(fn, "args") else set()
            for n in astq.walk_no_nested(fn):
                if isinstance(n, ast.Name) and isinstance(n.ctx, (ast.Store, ast.Del)):
                    b.add(n.id)
            self._bound[id(fn)] = b
        return b

    def is_rng_ctor(self, module, fn, call):
        return isinstance(call, ast.Call) and self.ext(module, fn, call.func) in RNG_CTORS

    def seed_expr(self, call):
        if call.args:
            return call.args[0]
        for k in call.keywords:
            if k.arg in ("seed", "random_state"):
                return k.value
        return None

    def callsites(self, target_fn):
        """all calls in non-test modules that resolve to ``target_fn``: (module, enclosing fn, cls, call, bound args)"""
        if self._callsites is None:
            self._callsites = {}
            for m in self.repo.non_test_modules():
                for q, fn, c in functions_of(self.repo, m):
                    for call in astq.calls(fn):
                        inner = call
                        # delayed(f)(args) runs f(args)
                        if isinstance(call.func, ast.Call) and call.func.args and (self.ext(m, fn, call.func.func) or "").endswith("delayed"):
                            inner = ast.Call(func=call.func.args[0], args=call.args, keywords=call.keywords)
                        t = self.flow.resolve_call(inner, m, c, c)
                        if t.kind in ("method", "func") and t.func is not None:
                            self._callsites.setdefault(id(t.func), []).append((m, fn, c, inner, t))
        return self._callsites.get(id(target_fn), [])

    def indirect_sites(self, target_fn):
        """uses of ``target_fn`` as a *value* (``g = f`` / ``g, opts = f, {...}`` / dict of functions) that is later called through the
        local: [(module, enclosing fn, cls, positional args, {keyword: expr} | None)]; keyword dicts are taken from the ``**local`` whose
        literal is assigned together with the function (same tuple assignment or same statement list)."""
        key = id(target_fn)
        if key in self._indirect:
            return self._indirect[key]
        cache = getattr(self.repo, "_c12_indirect_cache", None)
        if cache is None:
            cache = self.repo._c12_indirect_cache = {}
        if key in cache:
            self._indirect[key] = cache[key]
            return cache[key]
        out = []
        # cheap pre-filter: only functions that mention the target's name as a value at all
        tname = target_fn.name
        for m in self.repo.non_test_modules():
            if tname not in m.src:
                continue
            for q, fn, c in functions_of(self.repo, m):
                if not any(isinstance(x, ast.Name) and x.id == tname and isinstance(x.ctx, ast.Load) for x in ast.walk(fn)) and \
                        not any(isinstance(x, ast.Attribute) and x.attr == tname for x in ast.walk(fn)):
                    continue
                refs = []
                for blk in _stmt_lists(fn):
                    for st in blk:
                        if not isinstance(st, ast.Assign) or len(st.targets) != 1:
                            continue
                        pairs = []
                        t, v = st.targets[0], st.value
                        if isinstance(t, ast.Name):
                            pairs.append((t, v, None))
                        elif isinstance(t, ast.Tuple) and isinstance(v, ast.Tuple) and len(t.elts) == len(v.elts):
                            for i_, (te, ve) in enumerate(zip(t.elts, v.elts)):
                                pairs.append((te, ve, (t, v)))
                        for te, ve, tup in pairs:
                            if not (isinstance(te, ast.Name) and isinstance(ve, (ast.Name, ast.Attribute))):
                                continue
                            sym = self.repo.resolve_expr(m, ve)
                            if sym is None or sym.kind != "func" or sym.target is not target_fn or (dotted(ve) or "").split(".")[0] in self.bound_names(fn):
                                continue
                            refs.append((te.id, blk, st, tup))
                for (gname, blk, st, tup) in refs:
                    for call in astq.calls(fn):
                        if not (isinstance(call.func, ast.Name) and call.func.id == gname):
                            continue
                        kws = {k.arg: k.value for k in call.keywords if k.arg}
                        ok = True
                        for k in call.keywords:
                            if k.arg is not None:
                                continue
                            lit = None
                            if isinstance(k.value, ast.Dict):
                                lit = k.value
                            elif isinstance(k.value, ast.Name):
                                if tup is not None:
                                    for te2, ve2 in zip(tup[0].elts, tup[1].elts):
                                        if isinstance(te2, ast.Name) and te2.id == k.value.id and isinstance(ve2, ast.Dict):
                                            lit = ve2
                                if lit is None:
                                    for st2 in blk:
                                        if isinstance(st2, ast.Assign) and len(st2.targets) == 1 and isinstance(st2.targets[0], ast.Name) \
                                                and st2.targets[0].id == k.value.id and isinstance(st2.value, ast.Dict):
                                            lit = st2.value
                            if lit is None or any(kk is None or not isinstance(kk, ast.Constant) for kk in lit.keys):
                                ok = False
                                break
                            for kk, vv in zip(lit.keys, lit.values):
                                kws[kk.value] = vv
                        out.append((m, fn, c, list(call.args), kws if ok else None))
        self._indirect[key] = out
        cache[key] = out
        return out

    def param_bindings(self, fn, pname):
        """expressions bound to parameter ``pname`` at every call site; 'default' entries carry the default expr"""
        out = []
        names = astq.param_names(fn)
        for (m, cfn, c, pos, kws) in self.indirect_sites(fn):
            if kws is None or any(isinstance(a, ast.Starred) for a in pos):
                out.append((m, cfn, c, None))
            elif pname in kws:
                out.append((m, cfn, c, kws[pname]))
            elif pname in names and names.index(pname) < len(pos):
                out.append((m, cfn, c, pos[names.index(pname)]))
            else:
                out.append((m, cfn, c, astq.param_defaults(fn).get(pname, "missing")))
        for (m, cfn, c, call, t) in self.callsites(fn):
            skip = t.kind == "method" and not (t.defcls is not None and t.defcls.is_static(t.name))
            b = astq.bind_call(fn, call, skip_self=skip)
            if b is None or "*" in b or "**" in b:
                out.append((m, cfn, c, None))
                continue
            if pname in b:
                out.append((m, cfn, c, b[pname]))
            else:
                out.append((m, cfn, c, astq.param_defaults(fn).get(pname, "missing")))
        return out

    def class_attr_values(self, cls, attr):
        vals = []
        for k in self.repo.mro(cls):
            if isinstance(k, ClassInfo):
                for mn, fn in k.methods.items():
                    for a, v, st in astq.self_attr_stores(fn):
                        if a == attr:
                            vals.append((k.module, fn, k, v))
        return vals

    # verdicts: True ok, False definitely not owned (with reason), None unknown
    def seed_ok(self, module, fn, cls, expr, depth=0):
        if depth > 5:
            return None, "provenance chain too deep"
        if expr is None or (isinstance(expr, ast.Constant) and expr.value is None):
            return False, "no seed / None: draws from numpy's global state"
        if isinstance(expr, ast.Constant):
            return False, "constant seed %r ignores self.random_state" % (expr.value,)
        if expr == "missing":
            return False, "seed argument missing at a call site"
        if astq.is_self_attr(expr, astq.param_names(fn)[0] if (cls is not None and astq.param_names(fn)) else "self"):
            if cls is not None and expr.attr in SEED_PARAMS and expr.attr in ctor_params(self.repo, cls):
                return True, "self.%s" % expr.attr
            if cls is not None and expr.attr in ctor_params(self.repo, cls):
                return False, "seeded from self.%s, which is not the estimator's random_state parameter" % expr.attr
            if cls is not None:
                vals = self.class_attr_values(cls, expr.attr)
                if vals:
                    res = [self.seed_ok(m, f, k, v, depth + 1) if v is not None else (None, "opaque store") for m, f, k, v in vals]
                    return _all(res)
            return None, "self.%s is not a seed parameter" % expr.attr
        if isinstance(expr, ast.Name):
            if expr.id in astq.all_param_names(fn) and not astq.assigned_in(fn, expr.id):
                binds = self.param_bindings(fn, expr.id)
                if not binds:
                    return True, "parameter `%s` of a helper without repo call sites (seeded by its caller)" % expr.id
                res = []
                for (m, cfn, c, e) in binds:
                    res.append(self.seed_ok(m, cfn, c, e, depth + 1) if e is not None else (None, "star-argument call site"))
                return _all(res)
            vals = astq.assigned_values(fn, expr.id)
            if vals and expr.id not in astq.all_param_names(fn):
                return _all([self.seed_ok(module, fn, cls, v, depth + 1) for v in vals])
            return None, "name `%s` has no interpretable provenance" % expr.id
        if isinstance(expr, ast.Call) and isinstance(expr.func, ast.Attribute) and expr.func.attr in DRAW_METHODS:
            ok, why = self.rng_ok(module, fn, cls, expr.func.value, depth + 1)
            return ok, "drawn from %s" % why
        if self.is_rng_ctor(module, fn, expr):
            return self.seed_ok(module, fn, cls, self.seed_expr(expr), depth + 1)
        return None, "seed expression not interpretable"

    def rng_ok(self, module, fn, cls, expr, depth=0):
        if depth > 5:
            return None, "provenance chain too deep"
        if self.is_rng_ctor(module, fn, expr):
            return self.seed_ok(module, fn, cls, self.seed_expr(expr), depth + 1)
        selfname = astq.param_names(fn)[0] if (cls is not None and astq.param_names(fn)) else "self"
        if astq.is_self_attr(expr, selfname) and cls is not None:
            vals = self.class_attr_values(cls, expr.attr)
            if not vals:
                if expr.attr in SEED_PARAMS and expr.attr in ctor_params(self.repo, cls):
                    return None, "self.%s used as a generator without check_random_state" % expr.attr
                return None, "self.%s is never assigned" % expr.attr
            return _all([self.rng_ok(m, f, k, v, depth + 1) if v is not None else (None, "opaque store") for m, f, k, v in vals])
        if isinstance(expr, ast.Name):
            if expr.id in astq.all_param_names(fn) and not astq.assigned_in(fn, expr.id):
                binds = self.param_bindings(fn, expr.id)
                if not binds:
                    return True, "generator parameter `%s` of a helper without repo call sites" % expr.id
                return _all([self.rng_ok(m, cfn, c, e, depth + 1) if e not in (None, "missing") and not isinstance(e, str)
                             else ((False, "generator argument missing at a call site") if e == "missing" else (None, "star-argument call site"))
                             for (m, cfn, c, e) in binds])
            vals = astq.assigned_values(fn, expr.id)
            if vals:
                return _all([self.rng_ok(module, fn, cls, v, depth + 1) for v in vals])
        return None, "not a recognised generator expression"

    def is_rng_value(self, module, fn, cls, expr):
        """does the expression (certainly) denote a generator object?"""
        if self.is_rng_ctor(module, fn, expr):
            return True
        if isinstance(expr, ast.Name) and not (expr.id in astq.all_param_names(fn) and not astq.assigned_in(fn, expr.id)):
            return any(self.is_rng_ctor(module, fn, v) for v in astq.assigned_values(fn, expr.id))
        selfname = astq.param_names(fn)[0] if (cls is not None and astq.param_names(fn)) else "self"
        if astq.is_self_attr(expr, selfname) and cls is not None:
            return any(v is not None and self.is_rng_ctor(m, f, v) for m, f, k, v in self.class_attr_values(cls, expr.attr))
        return False


def _stmt_lists(fn):
    """every statement list (body / orelse / finalbody / handler body) inside ``fn``"""
    out = []
    for n in ast.walk(fn):
        for field in ("body", "orelse", "finalbody"):
            lst = getattr(n, field, None)
            if isinstance(lst, list) and lst and isinstance(lst[0], ast.stmt):
                out.append(lst)
    return out


def _all(res):
    if not res:
        return None, "no provenance"
    for ok, why in res:
        if ok is False:
            return False, why
    for ok, why in res:
        if ok is None:
            return None, why
    return True, "; ".join(sorted({w for _, w in res}))[:200]


def global_draws(scope, module, fn):
    """calls of numpy.random.* / random.* module-level (global state) drawing functions"""
    out = []
    for call in ast.walk(fn) if fn is not None else []:
        if not isinstance(call, ast.Call):
            continue
        d = scope.ext(module, fn if isinstance(fn, (ast.FunctionDef, ast.AsyncFunctionDef)) else None, call.func)
        if not d:
            continue
        parts = d.split(".")
        if (d.startswith("numpy.random.") or (parts[0] == "random" and len(parts) == 2)) and parts[-1] not in NOT_DRAWS:
            out.append((call, d))
    return out


_EMBEDDED = '''
import numpy as np
import random
from numpy.random import rand as _r
class _Probe:
    def transform(self, X):
        a = np.random.rand(3)
        b = random.random()
        c = _r(2)
        rng = np.random.RandomState(0)
        return a, b, c, rng
'''


def check_rng(ctx, repo, mods):
    scope = RngScope(repo, mods)
    # embedded positive example: the matcher must see three global-state draws and one constant-seeded generator
    pm = Module("sktime._c12_probe", "sktime/_c12_probe.py", _EMBEDDED)
    probe_fn = pm.defs["_Probe"].body[0]
    found = global_draws(RngScope(repo, []), pm, probe_fn)
    ctx.check(len(found) == 3, "R3", "embedded-control:global-draws", "matcher recognises np.random.rand / random.random / aliased import",
              "embedded positive example not recognised (%d of 3)" % len(found), "embedded")

    for (m, q, fn, c) in scope.funcs:
        ctx.count("functions_scanned")
        gd = global_draws(scope, m, fn)
        if gd:
            for call, d in gd:
                ctx.violation("R3", "%s:global:%s" % (q, d), "%s draws from the process-global generator `%s` "
                              "(not derived from self.random_state, not reproducible, not thread-order independent)" % (q, d), ctx.loc(m, call))
        else:
            ctx.ok("R3", "%s:no-global-draw" % q, "no numpy.random.* / random.* global-state draw", ctx.loc(m, fn), nontrivial=False)
        n_ctor = 0
        for call in [x for x in ast.walk(fn) if isinstance(x, ast.Call)]:
            # (b) generator constructions
            if scope.is_rng_ctor(m, fn, call):
                ok, why = scope.seed_ok(m, fn, c, scope.seed_expr(call))
                key = "%s:rng#%d" % (q, n_ctor)
                n_ctor += 1
                ctx.check(ok, "R3", key, "generator seeded from %s" % why,
                          "%s constructs a generator that is not derived from self.random_state: %s" % (q, why), ctx.loc(m, call))
                continue
            # (c) draws on a generator that is a parameter or an attribute
            if isinstance(call.func, ast.Attribute) and call.func.attr in DRAW_METHODS:
                recv = call.func.value
                selfname = astq.param_names(fn)[0] if (c is not None and astq.param_names(fn)) else "self"
                is_param = isinstance(recv, ast.Name) and recv.id in astq.all_param_names(fn) and not astq.assigned_in(fn, recv.id)
                is_attr = astq.is_self_attr(recv, selfname) and c is not None
                if is_attr and not scope.is_rng_value(m, fn, c, recv) and recv.attr not in SEED_PARAMS:
                    continue  # an attribute that is not a generator (e.g. a pandas .sample) -- not a draw
                if is_param and recv.id in DATA_PARAMS:
                    continue
                if is_param or is_attr:
                    ok, why = scope.rng_ok(m, fn, c, recv)
                    key = "%s:draw:%s.%s" % (q, dotted(recv), call.func.attr)
                    ctx.check(ok, "R3", key, "draw on a generator with provenance %s" % why,
                              "%s draws from `%s` which is not derived from check_random_state(self.random_state): %s" % (q, dotted(recv), why),
                              ctx.loc(m, call))
            # (d) delayed(f)(args): no generator object crosses into a task
            if isinstance(call.func, ast.Call) and (scope.ext(m, fn, call.func.func) or "").split(".")[-1] == "delayed":
                args = list(call.args) + [k.value for k in call.keywords]
                bad = [a for a in args if scope.is_rng_value(m, fn, c, a.value if isinstance(a, ast.Starred) else a)]
                tname = dotted(call.func.args[0]) if call.func.args else "?"
                key = "%s:delayed:%s" % (q, tname)
                ctx.check(not bad, "R3", key, "no generator object is passed into the task (%d arguments)" % len(args),
                          "%s passes a shared generator object (%s) into a delayed task: the draw order then depends on the schedule / "
                          "the object is copied per worker" % (q, ", ".join(ast.unparse(b) for b in bad)), ctx.loc(m, call))


def check_seed_forwarding(ctx, repo, mods):
    """R3 (e): a seed with provenance self.random_state that is forwarded to a member estimator by
    ``<member>.set_params(random_state=S)`` must reach it on every path: the call may be guarded by ``S is not None`` but
    not by the truthiness of S (seed 0 is falsy) and must precede the member's ``.fit`` on all paths."""
    from ..cfg import CFG
    scope = RngScope(repo, mods)
    for (m, q, fn, c) in scope.funcs:
        sites = []
        for call in astq.calls(fn):
            if isinstance(call.func, ast.Attribute) and call.func.attr == "set_params":
                kw = [k for k in call.keywords if k.arg in SEED_PARAMS]
                if kw:
                    sites.append((call, kw[0].value))
        if not sites:
            continue
        g = CFG(fn)
        for call, seed in sites:
            recv = astq.canon(call.func.value)
            key = "%s:seed-forwarding:%s" % (q, recv)
            loc = ctx.loc(m, call)
            ok, why = scope.seed_ok(m, fn, c, seed)
            if ok is not True:
                ctx.check(ok, "R3", key, "", "%s forwards a seed to `%s` that is not derived from self.random_state: %s" % (q, recv, why), loc)
                continue
            node = g.node_of(call)
            sc = astq.canon(seed)
            verdict, msg = True, "unconditional"
            for test, branch in (g.guards_of(node) if node is not None else []):
                kind = _seed_guard(test, sc)
                if kind == "none-test":
                    msg = "guarded only by an `is None` test of the seed"
                elif kind == "truthiness":
                    verdict, msg = False, ("the call is guarded by the truthiness of the seed (`%s`): the valid seed 0 is falsy, so with "
                                           "random_state=0 the member keeps its own unseeded state and results are not reproducible" % ast.unparse(test))
                    break
                elif kind == "unrelated":
                    if verdict is True:
                        verdict, msg = None, "the call is guarded by `%s`, which does not test the seed" % ast.unparse(test)
            if verdict is True:
                # must precede every .fit on the same receiver
                IN, _ = g.forward_must(lambda n_, call=call: any(x is call for x in n_.calls()))
                for n2 in g.nodes:
                    for c2 in n2.calls():
                        if isinstance(c2.func, ast.Attribute) and c2.func.attr in ("fit", "fit_transform") and astq.canon(c2.func.value) == recv:
                            passed = IN[n2.id] or any(x is call for x in n2.calls())
                            gs = g.guards_of(node)
                            none_only = bool(gs) and all(_seed_guard(t, sc) == "none-test" for t, b in gs)
                            if not passed and not none_only:
                                verdict, msg = False, "`%s.fit` at line %s can be reached without the seed having been forwarded" % (recv, c2.lineno)
            ctx.check(verdict, "R3", key, "seed %s reaches `%s` on every path (%s)" % (why, recv, msg),
                      "%s: %s" % (q, msg), loc)


APPLY = ("predict", "predict_proba", "transform", "inverse_transform", "predict_quantiles", "predict_interval", "decision_function")


def check_member_seed(ctx, repo, mods):
    """R3 (g): an estimator that owns a seed (constructor parameter random_state) and constructs another repo estimator that accepts one
    must pass a seed derived from its own; an omitted argument falls back to the member's default (None: global numpy state)."""
    scope = RngScope(repo, mods)
    flow = scope.flow
    for (m, q, fn, c) in scope.funcs:
        if c is None or not (ctor_params(repo, c) & SEED_PARAMS):
            continue
        k_ = 0
        for call in astq.calls(fn):
            t = flow.resolve_call(call, m, c, c)
            if t.kind != "class" or t.cls is None:
                continue
            init = repo.lookup_method(t.cls, "__init__")
            if init is None:
                continue
            seeds = [p for p in astq.all_param_names(init[1], skip_self=True) if p in SEED_PARAMS]
            if not seeds:
                continue
            b = astq.bind_call(init[1], call, skip_self=True)
            key = "%s:member-seed:%s" % (q, t.cls.name)
            loc = ctx.loc(m, call)
            if b is None or "**" in b or "*" in b:
                ctx.undecided("R3", key, "constructor arguments of %s not bound" % t.cls.name, loc)
                continue
            p = seeds[0]
            if p not in b:
                ctx.violation("R3", key, "%s constructs %s without passing a seed: the member falls back to %s=%s although the estimator owns "
                              "self.random_state, so equal parameters and data no longer give equal results" %
                              (q, t.cls.name, p, ast.unparse(astq.param_defaults(init[1]).get(p, ast.Constant(value=None)))), loc)
                continue
            ok, why = scope.seed_ok(m, fn, c, b[p])
            ctx.check(ok, "R3", key, "%s receives a seed derived from %s" % (t.cls.name, why),
                      "%s seeds the member %s with something not derived from self.random_state: %s" % (q, t.cls.name, why), loc)


def check_horizon_store_table(ctx, repo):
    """R7 (c): predict calls _set_fh first; for a fitted forecaster that must not replace the stored horizon (predict never changes the
    estimator).  The store / raise decision tables of the two horizon mixins are what C20-R6 decides; its verdicts are imported here."""
    from .. import report
    try:
        from . import c20
        from ..boolx import bind_repo
        bind_repo(repo)
        sub = report.Ctx("C20", repo, ctx.tier)
        c20.rule_R6(sub, repo)
    except Exception as e:  # C20 reports its own analysis problems
        ctx.info("horizon store table (C20-R6) not evaluated: %r" % (e,))
        return
    known = {(k["rule"], k["construct"]) for k in report.load_known() if k.get("property") == "C20" and k.get("status", "known") == "known"}
    # only the *store* tables belong to C12 (a store changes the estimator); which inputs are rejected is C20's own clause
    bad = [r for r in sub.results if r["verdict"] == report.VIOLATION and (r["rule"], r["construct"]) not in known
           and r["construct"].endswith(":store-table")]
    for r in bad:
        ctx.violation("R7", "predict:horizon-store:%s" % r["construct"],
                      "predict -> _set_fh: the horizon bookkeeping deviates from its decision table (C20-%s): %s -- a fitted forecaster's stored "
                      "horizon can be replaced by a predict call, so later predict() calls return something else" %
                      (r["rule"], " ".join(str(r["detail"]).split())[:300]), r["loc"], witness=r.get("witness"))
    if not bad:
        ctx.ok("R7", "predict:horizon-store", "the horizon mixins store fh only as their decision tables allow (%d obligations of C20-R6 hold)"
               % sum(1 for r in sub.results if r["verdict"] == report.HOLDS), "sktime/forecasting/base/_sktime.py")


def check_reentrancy(ctx, repo, mods):
    """R7 (b): an apply-type public entry that stores state (it validates and stores its arguments, e.g. the horizon) must not be re-entered
    from its own call tree: the nested call overwrites what the outer call stored, with values that are not the caller's arguments."""
    from .c13 import attr_writes
    anchored = {m.relpath for m in mods}
    constructed, subs = dependency_classes(repo, mods)
    classes = [c for m in mods for c in classes_of(repo, m)] + [c for q_, (c, b) in sorted(subs.items())]
    for c in classes:
        for meth in APPLY:
            hit = repo.lookup_method(c, meth)
            if hit is None or hit[0].is_static(meth):
                continue
            k0, f0 = hit
            if c.module.relpath not in anchored and k0.module.relpath not in anchored:
                continue
            seen, path_to = set(), {id(f0): [meth]}
            work = [(k0, f0)]
            cycle = None
            while work and cycle is None:
                k, fn = work.pop()
                if id(fn) in seen:
                    continue
                seen.add(id(fn))
                names = astq.param_names(fn)
                sn = names[0] if names and not k.is_static(fn.name) else None
                if not sn:
                    continue
                for call in astq.calls(fn):
                    f = call.func
                    if isinstance(f, ast.Attribute) and isinstance(f.value, ast.Name) and f.value.id == sn:
                        h2 = repo.lookup_method(c, f.attr)
                        if not h2:
                            continue
                        if h2[1] is f0:
                            cycle = (path_to[id(fn)] + [meth], "%s:%s" % (k.module.relpath, call.lineno))
                            break
                        if id(h2[1]) not in path_to:
                            path_to[id(h2[1])] = path_to[id(fn)] + [f.attr]
                            work.append(h2)
            tag = "%s.%s" % (c.name, meth)
            if cycle:
                stores = sorted(attr_writes(repo, c, f0, k0, must=False) - {"_is_fitted"})
                own = sorted({a for a, v, st in astq.self_attr_stores(f0)} | {
                    a for call in astq.calls(f0) if isinstance(call.func, ast.Attribute) and isinstance(call.func.value, ast.Name)
                    and call.func.value.id == astq.param_names(f0)[0] and repo.lookup_method(c, call.func.attr) and call.func.attr.startswith("_set")
                    for a in attr_writes(repo, c, repo.lookup_method(c, call.func.attr)[1], repo.lookup_method(c, call.func.attr)[0], must=False)})
                if own:
                    ctx.violation("R7", tag + ":re-entrant", "%s re-enters itself through %s (call at %s): the nested call stores %s again from "
                                  "arguments chosen by the inner code, so after the outer call returns the estimator holds state that is not what "
                                  "the caller passed (e.g. a later predict() without fh uses the wrong horizon)" %
                                  (tag, " -> ".join(cycle[0]), cycle[1], ", ".join("self." + a for a in own)), cycle[1],
                                  witness={"cycle": cycle[0], "stores": own})
                    continue
            ctx.ok("R7", tag + ":re-entrant", "the entry is not reachable from its own call tree", ctx.loc(k0.module, f0), nontrivial=False)


def check_stored_generator(ctx, repo, mods):
    """R3 (f): predict / predict_proba / transform / inverse_transform must not draw from a generator object stored on self:
    every draw advances the stored generator, i.e. the call changes the estimator and a repeated call returns something else.
    Generators used by apply-type methods are re-derived from self.random_state inside the call."""
    scope = RngScope(repo, mods)
    for m in mods:
        for c in classes_of(repo, m):
            for meth in APPLY:
                hit = repo.lookup_method(c, meth)
                if hit is None:
                    continue
                bad = {}
                n_draws = 0
                seen = set()
                work = [hit]
                while work:
                    k, fn = work.pop()
                    if id(fn) in seen:
                        continue
                    seen.add(id(fn))
                    names = astq.param_names(fn)
                    selfname = names[0] if names and not k.is_static(fn.name) else None
                    for ref in ast.walk(fn):
                        # methods of the receiver that are called or handed to delayed(...) / map(...)
                        if selfname and isinstance(ref, ast.Attribute) and isinstance(ref.value, ast.Name) and ref.value.id == selfname:
                            h2 = repo.lookup_method(c, ref.attr)
                            if h2 and ref.attr not in h2[0].properties:
                                work.append(h2)
                    for call in [x for x in ast.walk(fn) if isinstance(x, ast.Call)]:
                        f = call.func
                        if isinstance(f, ast.Attribute) and f.attr in DRAW_METHODS:
                            recv = f.value
                            cands = [recv]
                            if isinstance(recv, ast.Name) and recv.id not in astq.all_param_names(fn):
                                cands = astq.assigned_values(fn, recv.id) or [recv]
                            for r_ in cands:
                                if selfname and astq.is_self_attr(r_, selfname) and scope.is_rng_value(k.module, fn, c, r_):
                                    bad.setdefault(r_.attr, []).append("%s:%s in %s" % (k.module.relpath, call.lineno, fn.name))
                            n_draws += 1
                tag = "%s.%s" % (c.name, meth)
                for attr, where in sorted(bad.items()):
                    ctx.violation("R3", "%s:stored-generator:self.%s" % (tag, attr),
                                  "%s draws from the generator object stored in self.%s (%s): each call advances the stored generator, so the "
                                  "call changes the estimator and repeating it (or interleaving other apply-type calls) gives different results; "
                                  "derive the generator from self.random_state inside the call" % (tag, attr, "; ".join(where)),
                                  where[0].split(" in ")[0], witness={"attribute": attr, "draws": where})
                if not bad and n_draws:
                    ctx.ok("R3", "%s:stored-generator" % tag, "%d draw(s) in the call tree, none on a generator stored on self" % n_draws,
                           ctx.loc(hit[0].module, hit[1]))


def dependency_classes(repo, mods, depth=3):
    """Repo classes the anchored code depends on: (a) classes constructed in functions reached (resolved calls, bounded depth) from the
    anchored functions/methods, (b) concrete subclasses of anchored classes (they supply the hooks of the anchored template methods)."""
    flow = Flow(repo)
    anchored = {m.relpath for m in mods}
    constructed = {}
    seen = set()
    work = []
    for m in mods:
        for q, fn, c in functions_of(repo, m):
            work.append((fn, m, c, 0, q))
    while work:
        fn, m, c, d, origin = work.pop()
        if id(fn) in seen:
            continue
        seen.add(id(fn))
        for call in astq.calls(fn):
            t = flow.resolve_call(call, m, c, c)
            if t.kind == "class" and t.cls is not None and ".tests" not in t.cls.module.name:
                constructed.setdefault(t.cls.qual, (t.cls, origin))
                if d < depth and "__init__" in t.cls.methods:
                    work.append((t.cls.methods["__init__"], t.cls.module, t.cls, d + 1, origin))
            elif t.kind in ("method", "func") and t.func is not None and d < depth:
                work.append((t.func, t.module, t.cls if t.kind == "method" else None, d + 1, origin))
    subs = {}
    for m in mods:
        for c in classes_of(repo, m):
            for k in repo.subclasses(c):
                if k.module.relpath not in anchored and not k.module.name.startswith(repo.package + ".contrib"):
                    subs.setdefault(k.qual, (k, c.name))
    return constructed, subs


def check_apply_state_writes(ctx, repo, mods, eng):
    """R7 (H3): predict / predict_proba / transform / inverse_transform do not write, in place, into an object that is stored on
    self when the call starts (fitted arrays, lists of fitted members, constructor parameters) -- directly, through a view / element,
    or inside a helper.  Such a write changes the estimator: the next call (or the same call on other data) sees the modified state."""
    anchored = {m.relpath for m in mods}
    constructed, subs = dependency_classes(repo, mods)
    scope_classes = [(c, "anchored") for m in mods for c in classes_of(repo, m)]
    # member objects the anchored estimators construct and apply (e.g. the SFA transformer inside BOSS)
    scope_classes += [(c, "constructed by %s" % o) for q_, (c, o) in sorted(constructed.items()) if c.module.relpath not in anchored]
    # concrete subclasses: only apply-type *template* methods inherited from an anchored module, with the subclass's hooks resolved
    scope_classes += [(c, "hooks of %s" % b) for q_, (c, b) in sorted(subs.items()) if c.qual not in constructed]
    done = set()
    for c, role in scope_classes:
        if c.qual in done:
            continue
        done.add(c.qual)
        if True:
            for meth in APPLY:
                hit = repo.lookup_method(c, meth)
                if hit is None or hit[0].is_static(meth):
                    continue
                k, fn = hit
                if role.startswith("hooks of") and k.module.relpath not in anchored:
                    continue  # the subclass overrides the whole template: not the anchored code path
                s_ = eng.summary(fn, k.module, c, k)
                groups = {}
                for ev in s_.events:
                    if ev.kind == "write" and ev.origin.startswith("self."):
                        groups.setdefault((ev.origin, ev.desc), []).append(ev)
                tag = "%s.%s" % (c.name, meth)
                for (origin, desc), evs in sorted(groups.items()):
                    where = "; ".join(sorted({"%s%s" % (e.loc, (" via " + "->".join(e.chain)) if e.chain else "") for e in evs}))
                    key = "%s:%s:%s" % (tag, origin, desc)
                    if any(e.sure for e in evs):
                        ctx.violation("R7", key, "%s writes in place (%s) into the object stored in %s [%s]: the call changes the estimator, so a "
                                      "second call -- or the same estimator applied to other data afterwards -- works on modified fitted state"
                                      % (tag, desc, origin, where), evs[0].loc, witness={"attribute": origin, "sink": desc, "sites": where})
                    else:
                        # results of untabled methods of member objects (library results, wrapped estimators): relation unknown -> not judged
                        ctx.info("R7 not judged: %s reaches an in-place sink (%s) through a value with unknown relation to %s [%s]" % (tag, desc, origin, where))
                if not any(e.sure for evs in groups.values() for e in evs):
                    ctx.ok("R7", tag, "no in-place write into an object stored on self (%s)" % role, ctx.loc(k.module, fn), nontrivial=False)


def _self_attr_stores(repo, c, entries, stop=()):
    """{attr: [(ClassInfo, FunctionDef, node, guarded)]} for every ``self.<attr> = ...`` (also augmented / annotated / constant
    ``setattr(self, name, ...)``) reachable from the methods ``entries`` of class ``c`` through ``self.m(...)`` / ``super().m(...)``
    calls resolved along the MRO of ``c``.  Methods named in ``stop`` are not entered.  ``guarded``: the store sits under an ``if``
    whose test reads the same attribute (lazy-cache idiom ``if self.x is None: self.x = ...``)."""
    out, seen = {}, set()
    stack = [(m, None) for m in entries]
    while stack:
        name, after = stack.pop()
        hit = repo.lookup_method(c, name, after=after)
        if hit is None or id(hit[1]) in seen:
            continue
        k, fn = hit
        seen.add(id(fn))
        parents = {}
        for n in ast.walk(fn):
            for ch in ast.iter_child_nodes(n):
                parents[id(ch)] = n

        def guarded(node, attr):
            n = node
            while id(n) in parents:
                n = parents[id(n)]
                if isinstance(n, ast.If):
                    for y in ast.walk(n.test):
                        if isinstance(y, ast.Attribute) and y.attr == attr and isinstance(y.value, ast.Name) and y.value.id == "self":
                            return True
                        if isinstance(y, ast.Constant) and y.value == attr:
                            return True
            return False

        for n in ast.walk(fn):
            if isinstance(n, ast.Call) and isinstance(n.func, ast.Attribute):
                v = n.func.value
                if isinstance(v, ast.Name) and v.id == "self" and n.func.attr not in stop:
                    stack.append((n.func.attr, None))
                elif isinstance(v, ast.Call) and isinstance(v.func, ast.Name) and v.func.id == "super" and n.func.attr not in stop:
                    stack.append((n.func.attr, k))
            if isinstance(n, ast.Call) and isinstance(n.func, ast.Name) and n.func.id == "setattr" and len(n.args) >= 2 \
                    and isinstance(n.args[0], ast.Name) and n.args[0].id == "self" and isinstance(n.args[1], ast.Constant) \
                    and isinstance(n.args[1].value, str):
                out.setdefault(n.args[1].value, []).append((k, fn, n, guarded(n, n.args[1].value)))
            tg = n.targets if isinstance(n, ast.Assign) else [n.target] if isinstance(n, (ast.AugAssign, ast.AnnAssign)) else []
            for x in tg:
                for y in ast.walk(x):
                    if isinstance(y, ast.Attribute) and isinstance(y.ctx, ast.Store) and isinstance(y.value, ast.Name) and y.value.id == "self":
                        out.setdefault(y.attr, []).append((k, fn, n, guarded(n, y.attr)))
    return out


def _renormalises(node, attr):
    """``self.<attr> = f(self.<attr>, <constants>)``: the stored value is a function of the stored value only."""
    if not isinstance(node, ast.Assign) or len(node.targets) != 1:
        return False
    callee = {id(n.func) for n in ast.walk(node.value) if isinstance(n, ast.Call)}
    reads_own = False
    for n in ast.walk(node.value):
        if isinstance(n, ast.Name) and id(n) not in callee and n.id != "self":
            return False
        if isinstance(n, ast.Attribute) and isinstance(n.value, ast.Name) and n.value.id == "self":
            if n.attr != attr:
                return False
            reads_own = True
    return reads_own


TRANSFORM_APPLY = ("transform", "inverse_transform")


def check_apply_rebinds_fitted(ctx, repo, mods):
    """R7 (d): transform / inverse_transform of the anchored transformers (with their own helpers, resolved along the MRO) never rebind
    an attribute that fit / update bind: such an attribute is fitted state, and rebinding it in an apply-type call changes the estimator
    (a later call, or another apply-type method in between, works from different state).  A store under a test of the same attribute
    (lazy cache) is reported as info only.  Attributes that only apply-type methods write (scratch outputs) are not fitted state."""
    n_cls = 0
    for m in mods:
        if not m.relpath.startswith("sktime/transformations/"):
            continue
        for c in classes_of(repo, m):
            entries = [e for e in TRANSFORM_APPLY if repo.lookup_method(c, e) is not None]
            if not entries or repo.lookup_method(c, "fit") is None:
                continue
            n_cls += 1
            fitted = _self_attr_stores(repo, c, ("fit", "update"), stop=TRANSFORM_APPLY + ("fit_transform",))
            bad = False
            for e in entries:
                stores = _self_attr_stores(repo, c, (e,), stop=("fit", "update", "fit_transform"))
                for attr in sorted(set(stores) & set(fitted)):
                    for k, fn, node, g in stores[attr]:
                        loc = ctx.loc(k.module, node)
                        if g:
                            ctx.info("R7 not judged: %s.%s stores self.%s under a test of the same attribute (lazy cache) at %s" % (c.name, e, attr, loc))
                            continue
                        if _renormalises(node, attr) and any(n2 is node for _k, _f, n2, _g in fitted[attr]):
                            # ``self.a = f(self.a)`` executed by fit and again, unchanged, by the apply-type call: the value is computed
                            # from the stored one alone (no data argument); whether f is idempotent is a statement about f's values
                            ctx.info("R7 not judged: %s.%s re-runs the normalising statement self.%s = f(self.%s) that fit also runs, at %s"
                                     % (c.name, e, attr, attr, loc))
                            continue
                        bad = True
                        ctx.violation("R7", "%s.%s:rebinds-fitted:self.%s" % (c.name, e, attr),
                                      "%s.%s rebinds self.%s (in %s.%s), an attribute that fit/update bind: the call changes the fitted "
                                      "estimator, so repeated or interleaved apply-type calls no longer agree" % (c.name, e, attr, k.name, fn.name),
                                      loc, witness={"attribute": "self." + attr, "entry": e, "store_in": "%s.%s" % (k.name, fn.name)})
            if not bad:
                ctx.ok("R7", "%s:apply-rebinds-fitted" % c.name, "transform / inverse_transform rebind no attribute that fit / update bind "
                       "(%d fitted attributes)" % len(fitted), ctx.loc(c.module, c.node), nontrivial=bool(fitted))
    if n_cls < 15:
        raise AnalysisError("C12-R7(d): only %d anchored transformer classes with fit and transform were located (expected >= 15)" % n_cls)


GROWTH = ("inplace-method:append", "inplace-method:extend", "inplace-method:insert", "inplace-method:add", "augassign")


def check_fit_accumulation(ctx, repo, mods, eng):
    """R6 (b) (history clause H1): a collection that fit grows in place (append / extend / insert / add / +=) is re-created by fit before it
    is grown.  Growing the object that is stored on self when fit starts (left by __init__ or by an earlier fit) makes the fitted
    collection the concatenation of all fits so far: est.fit(X, y).fit(X, y) differs from a fresh estimator fitted once."""
    for m in mods:
        for c in classes_of(repo, m):
            hit = repo.lookup_method(c, "fit")
            if hit is None or hit[0].is_static("fit"):
                continue
            k, fn = hit
            s_ = eng.summary(fn, k.module, c, k)
            groups = {}
            for ev in s_.events:
                if ev.kind == "write" and ev.sure and ev.via == "A" and ev.origin.startswith("self.") and ev.desc in GROWTH:
                    groups.setdefault(ev.origin, []).append(ev)
            tag = "%s.fit" % c.name
            for origin, evs in sorted(groups.items()):
                where = "; ".join(sorted({"%s (%s)%s" % (e.loc, e.desc.split(":")[-1], (" via " + "->".join(e.chain)) if e.chain else "") for e in evs}))
                ctx.violation("R6", "%s:accumulates:%s" % (tag, origin),
                              "%s grows the collection stored in %s in place without re-creating it first [%s]: the members of an earlier fit stay "
                              "in it, so history est.fit(X, y); est.fit(X, y) yields a different fitted collection (length, members, everything "
                              "derived from it) than a fresh estimator with equal parameters fitted once" % (tag, origin, where), evs[0].loc,
                              witness={"attribute": origin, "sites": where, "history": "fit(X, y); fit(X, y)"})
            if not groups:
                ctx.ok("R6", tag + ":accumulates", "every collection fit grows in place is re-created by fit first", ctx.loc(k.module, fn), nontrivial=False)


def check_derived_state(ctx, repo, mods):
    """R6: an attribute whose stored value is computed from fitted state F (cache / derived quantity) must be re-derived or reset by every
    public method that re-estimates F; otherwise results depend on the history of the estimator, not only on parameters and data."""
    from .c13 import derived_state
    for m in mods:
        for c in classes_of(repo, m):
            if "fit" not in {mn for k in repo.mro(c) if isinstance(k, ClassInfo) for mn in k.methods}:
                continue
            stale = derived_state(repo, c)
            seen = set()
            for (mn, d, f, where, k, fn) in stale:
                if (mn, d) in seen:
                    continue
                seen.add((mn, d))
                ctx.violation("R6", "%s.%s:derived:self.%s" % (c.name, mn, d),
                              "%s.%s re-estimates self.%s but does not (on every path) re-derive self.%s, which is computed from it at %s: the value "
                              "of an earlier fit survives, so two estimators with equal parameters fitted on equal data can differ" %
                              (c.name, mn, f, d, where), ctx.loc(k.module, fn), witness={"derived": d, "source": f, "computed_at": where})
            if not seen:
                ctx.ok("R6", "%s:derived-state" % c.name, "every attribute computed from fitted state is re-derived when that state is re-estimated",
                       ctx.loc(m, c.node), nontrivial=False)


def _seed_guard(test, sc):
    """classify a dominating condition with respect to the seed expression ``sc`` (canonical string)"""
    def mentions(e):
        return any(astq.canon(x) == sc for x in ast.walk(e) if isinstance(x, (ast.Name, ast.Attribute)))

    if not mentions(test):
        return "unrelated"
    t = test
    if isinstance(t, ast.UnaryOp) and isinstance(t.op, ast.Not):
        t = t.operand
    if isinstance(t, ast.Compare) and len(t.ops) == 1 and isinstance(t.ops[0], (ast.Is, ast.IsNot)) and astq.canon(t.left) == sc \
            and isinstance(t.comparators[0], ast.Constant) and t.comparators[0].value is None:
        return "none-test"
    if astq.canon(t) == sc:
        return "truthiness"
    if isinstance(t, ast.BoolOp) and any(astq.canon(v) == sc or (isinstance(v, ast.UnaryOp) and astq.canon(v.operand) == sc) for v in t.values):
        return "truthiness"
    if isinstance(t, ast.Compare) and astq.canon(t.left) == sc and len(t.ops) == 1 and isinstance(t.ops[0], (ast.Gt, ast.NotEq, ast.GtE, ast.Lt)) \
            and isinstance(t.comparators[0], ast.Constant) and t.comparators[0].value in (0, 0.0):
        return "truthiness"
    return "unrelated"


# ====================================================================================== R4


def holds_function(expr, local_defs, local_lambdas):
    """does the value expression *hold* (rather than consume) a lambda / nested function?"""
    if isinstance(expr, ast.Lambda):
        return "lambda"
    if isinstance(expr, ast.Name):
        if expr.id in local_defs:
            return "nested function %s" % expr.id
        if expr.id in local_lambdas:
            return "lambda bound to %s" % expr.id
        return None
    if isinstance(expr, (ast.List, ast.Tuple, ast.Set)):
        for e in expr.elts:
            r = holds_function(e, local_defs, local_lambdas)
            if r:
                return r
    if isinstance(expr, ast.Dict):
        for e in list(expr.values) + [k for k in expr.keys if k is not None]:
            r = holds_function(e, local_defs, local_lambdas)
            if r:
                return r
    if isinstance(expr, ast.IfExp):
        return holds_function(expr.body, local_defs, local_lambdas) or holds_function(expr.orelse, local_defs, local_lambdas)
    if isinstance(expr, ast.BoolOp):
        for e in expr.values:
            r = holds_function(e, local_defs, local_lambdas)
            if r:
                return r
    if isinstance(expr, ast.Call) and dotted(expr.func) in ("partial", "functools.partial"):
        for e in list(expr.args) + [k.value for k in expr.keywords]:
            r = holds_function(e, local_defs, local_lambdas)
            if r:
                return r
    if isinstance(expr, ast.Starred):
        return holds_function(expr.value, local_defs, local_lambdas)
    return None


def check_reduce(ctx, repo, mods):
    """R4 (b): a class whose instances are part of the estimators' state and that customises pickling / copying with ``__reduce__`` must
    hand *every* constructor argument that __init__ stores back to the constructor; an omitted argument silently takes its default in the
    restored copy (pickle.loads(pickle.dumps(est)), copy.deepcopy and joblib process workers all go through __reduce__)."""
    anchored = {m.relpath for m in mods}
    constructed, subs = dependency_classes(repo, mods)
    classes = [c for m in mods for c in classes_of(repo, m)] + [c for q_, (c, o) in sorted(constructed.items()) if c.module.relpath not in anchored]
    n = 0
    for c in classes:
        hit = repo.lookup_method(c, "__reduce__") or repo.lookup_method(c, "__reduce_ex__")
        if hit is None:
            n += 1
            continue
        k, fn = hit
        loc = ctx.loc(k.module, fn)
        key = "%s.%s" % (c.name, fn.name)
        init = repo.lookup_method(c, "__init__")
        rets = astq.returns(fn)
        if init is None or len(rets) != 1 or not isinstance(astq.inline_locals(fn, rets[0].value), ast.Tuple):
            ctx.undecided("R4", key, "custom pickling protocol not interpretable", loc)
            continue
        tup = astq.inline_locals(fn, rets[0].value)
        if len(tup.elts) != 2:
            ctx.ok("R4", key, "__reduce__ returns an explicit state (%d-tuple)" % len(tup.elts), loc, nontrivial=False)
            continue
        ctor, args = tup.elts
        ctor_ok = astq.canon(ctor) in ("type(self)", "self.__class__", c.name)
        if not ctor_ok or not isinstance(args, ast.Tuple) or any(isinstance(a, ast.Starred) for a in args.elts):
            ctx.undecided("R4", key, "__reduce__ does not return (type(self), (<arguments>,))", loc)
            continue
        ifn = init[1]
        params = astq.param_names(ifn, skip_self=True)
        defaults = astq.param_defaults(ifn)
        stored = {p for p in params if any(isinstance(x, ast.Name) and x.id == p for _, v, _s in astq.self_attr_stores(ifn) if v is not None
                                           for x in ast.walk(v))}
        # a parameter also counts as stored when a local derived from it is stored
        for p in params:
            for nm in {t.id for a_ in ast.walk(ifn) if isinstance(a_, ast.Assign) for t in a_.targets if isinstance(t, ast.Name)
                       if any(isinstance(x, ast.Name) and x.id == p for x in ast.walk(a_.value))}:
                if any(isinstance(x, ast.Name) and x.id == nm for _, v, _s in astq.self_attr_stores(ifn) if v is not None for x in ast.walk(v)):
                    stored.add(p)
        missing = [p for p in params[len(args.elts):] if p in stored]
        ctx.check(not missing, "R4", key, "__reduce__ hands all %d stored constructor arguments back" % len(args.elts),
                  "%s.__reduce__ rebuilds the object from %s only: the constructor argument(s) %s, which __init__ stores, are dropped, so a "
                  "pickled / deep-copied instance (and every estimator holding one) silently gets the default(s) %s"
                  % (c.name, ast.unparse(args), ", ".join(missing), ", ".join("%s=%s" % (p, ast.unparse(defaults[p])) for p in missing if p in defaults)),
                  loc, witness={"dropped": missing})
    ctx.count("classes_checked_for_reduce", n)


def check_pickle(ctx, repo, mods):
    for m in mods:
        for c in classes_of(repo, m):
            n_stores = 0
            bad = False
            for mn, fn in c.methods.items():
                local_defs = {n.name for n in ast.walk(fn) if isinstance(n, (ast.FunctionDef, ast.AsyncFunctionDef)) and n is not fn}
                local_lambdas = {t.id for n in astq.walk_no_nested(fn) if isinstance(n, ast.Assign) and isinstance(n.value, ast.Lambda)
                                 for t in n.targets if isinstance(t, ast.Name)}
                selfname = astq.param_names(fn)[0] if astq.param_names(fn) and not c.is_static(mn) else None
                if selfname is None:
                    continue
                for attr, val, st in astq.self_attr_stores(fn, selfname):
                    n_stores += 1
                    if val is None:
                        continue
                    r = holds_function(val, local_defs, local_lambdas)
                    if r:
                        bad = True
                        ctx.violation("R4", "%s.%s:self.%s" % (c.name, mn, attr),
                                      "%s.%s stores a %s on self.%s: the fitted estimator cannot be pickled (and cannot be sent to "
                                      "process-based joblib workers)" % (c.name, mn, r, attr), ctx.loc(m, st))
                # setattr(self, name, <lambda>)
                for call in astq.calls(fn):
                    if dotted(call.func) == "setattr" and len(call.args) == 3 and isinstance(call.args[0], ast.Name) and call.args[0].id == selfname:
                        r = holds_function(call.args[2], local_defs, local_lambdas)
                        if r:
                            bad = True
                            ctx.violation("R4", "%s.%s:setattr" % (c.name, mn), "%s.%s stores a %s on self via setattr" % (c.name, mn, r),
                                          ctx.loc(m, call))
            if not bad:
                ctx.ok("R4", c.name, "%d attribute stores, none holds a lambda / nested function" % n_stores, ctx.loc(m, c.node),
                       nontrivial=n_stores > 0)


# ====================================================================================== R5

REORDER_CALLS = {"builtins.sorted", "builtins.reversed", "builtins.set", "builtins.frozenset", "numpy.sort", "numpy.unique",
                 "numpy.random.permutation", "numpy.random.shuffle", "random.shuffle", "random.sample", "numpy.flip", "numpy.flipud"}
REORDER_METHODS = {"sort", "reverse", "shuffle"}


def _is_identity_range(scope, m, fn, it):
    """range(stop) / range(0, stop) / range(0, stop, 1) -> stop expr; else None"""
    if not (isinstance(it, ast.Call) and isinstance(it.func, ast.Name) and it.func.id == "range" and not it.keywords):
        return None
    if fn is not None and "range" in scope.bound_names(fn):
        return None
    a = it.args
    if len(a) == 1:
        return a[0]
    if len(a) in (2, 3) and isinstance(a[0], ast.Constant) and a[0].value == 0:
        if len(a) == 3 and not (isinstance(a[2], ast.Constant) and a[2].value == 1):
            return None
        return a[1]
    return None


def _strided_shares(scope, repo, m, fn, c, call, gen, g, var):
    """tasks built from strided shares ``self.A[v::k]`` for v in range(k): every member is dispatched once, but the list of shares is
    share-major; concatenating it into a sequence that is later paired by index with self.A puts member v + i*k at position
    (sum of earlier share sizes) + i -- the identity only for k == 1.  Returns None when the tasks are not strided shares."""
    if var is None:
        return None
    sl = [n for n in ast.walk(gen.elt) if isinstance(n, ast.Subscript) and isinstance(n.slice, ast.Slice) and n.slice.step is not None
          and n.slice.lower is not None and astq.canon(n.slice.lower) == var and n.slice.upper is None]
    if not sl:
        return None
    selfname = astq.param_names(fn)[0] if (c is not None and astq.param_names(fn)) else None
    steps = {astq.canon(astq.inline_locals(fn, x.slice.step)) for x in sl}
    stop = _is_identity_range(scope, m, fn, g.iter)
    if len(steps) != 1 or stop is None or astq.canon(astq.inline_locals(fn, stop)) not in steps:
        return None, "strided shares `%s` are not [v::k] for v in range(k)" % ast.unparse(sl[0])
    seqs = {x.value.attr for x in sl if selfname and astq.is_self_attr(x.value, selfname)}
    path = astq.enclosing_stmts(fn, call)
    stmt = path[-1] if path else None
    if not (isinstance(stmt, ast.Assign) and stmt.value is call and len(stmt.targets) == 1 and isinstance(stmt.targets[0], ast.Name)):
        return None, "cannot follow how the strided shares are re-assembled"
    local = stmt.targets[0].id
    # share-major flattening of the local into an attribute of self
    flat_attr = None
    for n in astq.walk_no_nested(fn):
        if isinstance(n, ast.Assign) and len(n.targets) == 1 and selfname and astq.is_self_attr(n.targets[0], selfname):
            v = n.value
            share_major = False
            if isinstance(v, (ast.ListComp, ast.GeneratorExp)) and len(v.generators) == 2 and isinstance(v.generators[0].iter, ast.Name) \
                    and v.generators[0].iter.id == local and isinstance(v.generators[0].target, ast.Name) \
                    and isinstance(v.generators[1].iter, ast.Name) and v.generators[1].iter.id == v.generators[0].target.id \
                    and astq.canon(v.elt) == astq.canon(v.generators[1].target):
                share_major = True
            if isinstance(v, ast.Call) and any(isinstance(a, ast.Name) and a.id == local for a in ast.walk(v)):
                d = scope.ext(m, fn, v.func) or (v.func.id if isinstance(v.func, ast.Name) else "")
                inner = [scope.ext(m, fn, x.func) for x in ast.walk(v) if isinstance(x, ast.Call)]
                if d in ("numpy.concatenate", "numpy.hstack", "numpy.vstack", "sum", "builtins.sum") or \
                        any(i_ in ("itertools.chain", "itertools.chain.from_iterable") for i_ in inner):
                    share_major = True
            if share_major:
                flat_attr = n.targets[0].attr
    if flat_attr is None:
        return None, "cannot follow how the strided shares bound to `%s` are re-assembled" % local
    # is the re-assembled sequence paired by index with the strided source anywhere in the class?
    paired = None
    for k_ in repo.mro(c) + repo.subclasses(c):
        if not isinstance(k_, ClassInfo):
            continue
        for mn, f2 in k_.methods.items():
            sn = astq.param_names(f2)[0] if astq.param_names(f2) else None
            for node in ast.walk(f2):
                subs = [x for x in ast.iter_child_nodes(node) if isinstance(x, ast.Subscript)]
                if isinstance(node, ast.Call):
                    subs = [a for a in node.args if isinstance(a, ast.Subscript)]
                    if isinstance(node.func, ast.Name) and node.func.id == "zip":
                        names = {a.attr for a in node.args if sn and astq.is_self_attr(a, sn)}
                        if flat_attr in names and names & seqs:
                            paired = "%s.%s (zip)" % (k_.name, mn)
                got = {x.value.attr: x for x in subs if sn and astq.is_self_attr(x.value, sn)}
                if flat_attr in got and set(got) & seqs:
                    other = got[sorted(set(got) & seqs)[0]]
                    if astq.canon(got[flat_attr].slice) == astq.canon(other.slice):
                        paired = "%s.%s (`self.%s[%s]` with `self.%s[%s]`)" % (k_.name, mn, flat_attr, ast.unparse(got[flat_attr].slice),
                                                                                other.value.attr, ast.unparse(other.slice))
    kk = ast.unparse(sl[0].slice.step)
    if paired:
        return False, ("the members are dispatched in strided shares `%s` and the shares are concatenated share-major into self.%s, which %s pairs by "
                       "index with self.%s: position p no longer holds the member built from element p unless %s == 1 (witness %s = 2, four "
                       "members: order 0, 2, 1, 3), so the result depends on n_jobs" % (ast.unparse(sl[0]), flat_attr, paired, sorted(seqs)[0], kk, kk))
    return None, "strided shares are concatenated into self.%s; no index pairing with %s found to judge the order" % (flat_attr, sorted(seqs))


def _batch_coverage(scope, m, fn, gen, g, var):
    """tasks built from slices ``self.A[v : v + B]`` for v in range(0, stop, B): the union of the slices is [0, ceil(stop / B) * B);
    every member is evaluated exactly once iff that is the whole sequence.  Returns None when the tasks do not slice by the loop variable."""
    if var is None:
        return None
    slices = [n for n in ast.walk(gen.elt) if isinstance(n, ast.Subscript) and isinstance(n.slice, ast.Slice)
              and n.slice.lower is not None and astq.canon(n.slice.lower) == var]
    if not slices:
        return None
    it = g.iter
    if not (isinstance(it, ast.Call) and isinstance(it.func, ast.Name) and it.func.id == "range" and len(it.args) == 3 and not it.keywords
            and "range" not in scope.bound_names(fn)):
        return None, "batches are sliced by `%s`, which does not come from range(start, stop, batch)" % var
    start, stop, step = (astq.inline_locals(fn, a) for a in it.args)
    if astq.const_value(start) != 0:
        return False, "the first batch starts at %s, not at member 0" % ast.unparse(start)
    for sl in slices:
        up = astq.inline_locals(fn, sl.slice.upper) if sl.slice.upper is not None else None
        want = ast.BinOp(left=ast.Name(id=var, ctx=ast.Load()), op=ast.Add(), right=step)
        if up is None or astq.canon(up) != astq.canon(want) or sl.slice.step is not None:
            return None, "batch `%s` is not [%s : %s + batch]" % (ast.unparse(sl), var, var)
    seqs = sorted({astq.canon(sl.value) for sl in slices})
    total = {"len(%s)" % q_ for q_ in seqs} | {"self.n_estimators"}
    cs = astq.canon(stop)
    if cs in total:
        return True, "batches [v : v + %s] for v in range(0, %s, %s) cover every member once" % (ast.unparse(step), ast.unparse(stop), ast.unparse(step))
    # stop = k * (n // k): the remainder n mod k is never dispatched
    if isinstance(stop, ast.BinOp) and isinstance(stop.op, ast.Mult):
        for a, b in ((stop.left, stop.right), (stop.right, stop.left)):
            if isinstance(b, ast.BinOp) and isinstance(b.op, ast.FloorDiv) and astq.canon(b.right) == astq.canon(a):
                n_ = ast.unparse(b.left)
                return False, ("the batches end at %s * (%s // %s), so the last %s mod %s members are never evaluated (e.g. %s = 10, %s = 4: "
                               "members 8 and 9 are skipped) while the result is still normalised by all members"
                               % (ast.unparse(a), n_, ast.unparse(a), n_, ast.unparse(a), n_, ast.unparse(a)))
    return None, "cannot relate the end of the batches `%s` to the number of members" % ast.unparse(stop)


def _index_uses(expr, var):
    """subscripts inside ``expr`` whose index is exactly the name ``var``"""
    return [n for n in ast.walk(expr) if isinstance(n, ast.Subscript) and isinstance(n.slice, ast.Name) and n.slice.id == var]


def _uses_name(expr, var):
    return any(isinstance(n, ast.Name) and n.id == var for n in ast.walk(expr))


def check_parallel(ctx, repo, mods):
    scope = RngScope(repo, mods)
    stored = {}  # (class qual, attr) -> (generator info)
    sites = []
    for (m, q, fn, c) in scope.funcs:
        k = 0
        for call in [x for x in ast.walk(fn) if isinstance(x, ast.Call)]:
            if not (isinstance(call.func, ast.Call) and (scope.ext(m, fn, call.func.func) or "") in ("joblib.Parallel", "joblib.parallel.Parallel")):
                continue
            sites.append((m, q, fn, c, call, k))
            k += 1
    for (m, q, fn, c, call, k) in sites:
        tag = "%s:parallel#%d" % (q, k)
        loc = ctx.loc(m, call)
        ctx.count("parallel_sites")
        ctor = call.func
        ra = [kw for kw in ctor.keywords if kw.arg == "return_as"]
        if ra:
            v = astq.const_value(ra[0].value, "?")
            if v != "list":
                ctx.check(False if v in ("generator_unordered",) else None, "R5", tag + ":return_as", "",
                          "Parallel(return_as=%r): results are not delivered as an ordered list" % (v,), loc)
                continue
        if len(call.args) != 1 or call.keywords:
            ctx.undecided("R5", tag + ":tasks", "Parallel object is not called with exactly one iterable of tasks", loc)
            continue
        gen = call.args[0]
        if not isinstance(gen, (ast.GeneratorExp, ast.ListComp)) or len(gen.generators) != 1:
            ctx.undecided("R5", tag + ":tasks", "task iterable is not a single-loop generator expression", loc)
            continue
        g = gen.generators[0]
        it = g.iter
        # unordered sources
        src = scope.ext(m, fn, it.func) if isinstance(it, ast.Call) else None
        bi = it.func.id if isinstance(it, ast.Call) and isinstance(it.func, ast.Name) else None
        if isinstance(it, (ast.Set, ast.SetComp)) or bi in ("set", "frozenset"):
            ctx.violation("R5", tag + ":source", "%s iterates a set to create the tasks: task order (and so result order) is not defined" % q, loc)
            continue
        stop = _is_identity_range(scope, m, fn, it)
        var = g.target.id if isinstance(g.target, ast.Name) else None
        strided = _strided_shares(scope, repo, m, fn, c, call, gen, g, var)
        if strided is not None:
            verdict, why = strided
            ctx.check(verdict, "R5", tag + ":order", why, "%s: %s" % (q, why), loc, witness={"iterable": ast.unparse(it)})
            continue
        cov = _batch_coverage(scope, m, fn, gen, g, var)
        if cov is not None:
            verdict, why = cov
            ctx.check(verdict, "R5", tag + ":coverage", why,
                      "%s dispatches the members in batches that do not cover every member whatever n_jobs is: %s" % (q, why), loc,
                      witness={"iterable": ast.unparse(it)})
            if verdict is not True:
                continue
        idx_uses = _index_uses(gen.elt, var) if var else []
        if idx_uses:
            if stop is None or g.ifs:
                ctx.violation("R5", tag + ":index",
                              "%s builds task number k from element `%s` of indexed sequences, but `%s` does not enumerate 0,1,2,... "
                              "(iterable `%s`%s): result k no longer belongs to element k" % (q, var, var, ast.unparse(it), ", filtered" if g.ifs else ""), loc,
                              witness={"iterable": ast.unparse(it)})
                continue
            ctx.ok("R5", tag + ":index", "task k is built from element k (range(%s))" % ast.unparse(stop), loc)
        else:
            ctx.ok("R5", tag + ":source", "tasks follow the order of `%s`" % ast.unparse(it), loc)
        # ---- consumer
        path = astq.enclosing_stmts(fn, call)
        stmt = path[-1] if path else None
        target = None
        if isinstance(stmt, ast.Assign) and stmt.value is call and len(stmt.targets) == 1:
            target = stmt.targets[0]
        if target is None:
            # used directly inside a larger expression: reordering wrappers are the only hazard
            wrap = _reordering_wrapper(scope, m, fn, stmt, call)
            ctx.check(wrap is None, "R5", tag + ":consume", "result list is consumed whole, in order",
                      "result list is passed through `%s` before use: positions no longer correspond to tasks" % wrap, loc)
            continue
        selfname = astq.param_names(fn)[0] if (c is not None and astq.param_names(fn)) else None
        if selfname and astq.is_self_attr(target, selfname):
            ctx.ok("R5", tag + ":consume", "result list stored as self.%s (position k = task k)" % target.attr, loc)
            comps = sorted({dotted(u.value) for u in idx_uses if astq.is_self_attr(u.value, selfname)})
            stored[(c.qual, target.attr)] = (q, comps, stop)
            continue
        if isinstance(target, ast.Name):
            name = target.id
            verdict, why = _check_local_consumer(scope, m, fn, name, stmt, stop, it)
            ctx.check(verdict, "R5", tag + ":consume", "local `%s` is consumed positionally (%s)" % (name, why),
                      "results bound to `%s` are not consumed positionally: %s" % (name, why), loc)
            continue
        ctx.undecided("R5", tag + ":consume", "result of Parallel is bound to an unsupported target", loc)
    # ---- pairing of stored results with the sequences their tasks were built from
    for (cq, attr), (q, comps, stop) in sorted(stored.items()):
        if not comps:
            continue
        for (m, q2, fn, c) in scope.funcs:
            if c is None or not any(isinstance(k, ClassInfo) and k.qual == cq for k in repo.mro(c)):
                continue
            selfname = astq.param_names(fn)[0] if astq.param_names(fn) else None
            if not selfname:
                continue
            n = 0
            for node in ast.walk(fn):
                if not isinstance(node, (ast.Call, ast.Tuple, ast.BinOp, ast.Compare)):
                    continue
                subs = [s for s in ast.iter_child_nodes(node) if isinstance(s, ast.Subscript)]
                if isinstance(node, ast.Call):
                    subs = [a for a in node.args if isinstance(a, ast.Subscript)] + [k.value for k in node.keywords if isinstance(k.value, ast.Subscript)]
                res = [s for s in subs if astq.is_self_attr(s.value, selfname) and s.value.attr == attr]
                oth = [s for s in subs if astq.is_self_attr(s.value, selfname) and (selfname + "." + s.value.attr).replace(selfname + ".", "self.", 1)
                       in [x.replace(selfname + ".", "self.", 1) for x in comps]]
                for r in res:
                    for o in oth:
                        same = astq.canon(r.slice) == astq.canon(o.slice)
                        ctx.check(same, "R5", "%s:pair:self.%s~self.%s#%d" % (q2, attr, o.value.attr, n),
                                  "self.%s[k] is used with self.%s[k] (same index)" % (attr, o.value.attr),
                                  "%s pairs self.%s[%s] with self.%s[%s], but task k of %s was built from self.%s[k]"
                                  % (q2, attr, ast.unparse(r.slice), o.value.attr, ast.unparse(o.slice), q, o.value.attr), ctx.loc(m, node))
                        n += 1


def check_parallel_siblings(ctx, repo, mods):
    """An ``if`` whose one branch collects per-item results with Parallel(...)(delayed(f)(args) for v in it) and whose other
    branch computes the same items sequentially must apply the same per-item computation and the same decisions:
    after replacing ``res[v]`` by ``f(args)`` and inlining the per-item temporaries, the two loops are compared statement by statement."""
    scope = RngScope(repo, mods)
    for (m, q, fn, c) in scope.funcs:
        for node in astq.walk_no_nested(fn):
            if not isinstance(node, ast.If) or not node.orelse:
                continue
            def par_sites(stmts):
                out = []
                for st in stmts:
                    for x in ast.walk(st):
                        if isinstance(x, ast.Call) and isinstance(x.func, ast.Call) and \
                                (scope.ext(m, fn, x.func.func) or "") in ("joblib.Parallel", "joblib.parallel.Parallel"):
                            out.append(x)
                return out
            pa, pb = par_sites(node.body), par_sites(node.orelse)
            if bool(pa) == bool(pb):
                continue
            par, seq = (node.body, node.orelse) if pa else (node.orelse, node.body)
            key = "%s:parallel-vs-sequential" % q
            loc = ctx.loc(m, node)
            direct = _collection_siblings(scope, repo, m, fn, par, seq)
            if direct is not None:
                diffs_ = direct
                if diffs_:
                    ctx.violation("R5", key, "%s: the n_jobs branch and the sequential branch build the same collection from different per-item "
                                  "calls: %s -- the result depends on n_jobs" % (q, "; ".join(diffs_[:3])), loc, witness={"differences": diffs_})
                else:
                    ctx.ok("R5", key, "both branches build the collection from the same per-item call", loc)
                continue
            try:
                a = _norm_parallel_branch(scope, m, fn, par)
                b = _norm_sequential_branch(seq)
            except Undecided as e:
                ctx.undecided("R5", key, "cannot align the parallel and the sequential branch: %s" % e, loc)
                continue
            diffs = _stmt_diffs(a, b)
            if diffs is None:
                ctx.undecided("R5", key, "the parallel and the sequential branch have different statement structure", loc)
            elif diffs:
                ctx.violation("R5", key, "%s: the n_jobs branch and the sequential branch of the same computation disagree: %s -- the result "
                              "depends on n_jobs" % (q, "; ".join("parallel `%s` vs sequential `%s`" % d for d in diffs[:3])), loc,
                              witness={"differences": ["%s | %s" % d for d in diffs]})
            else:
                ctx.ok("R5", key, "both branches apply the same per-item computation and decisions (%d statements compared)" % len(a), loc)


class Undecided(Exception):
    pass


def _collection_siblings(scope, repo, m, fn, par, seq):
    """`T = Parallel(...)(delayed(f)(args) for v in it)` next to `T = [f(args') for v in it]`: list of differences between the two per-item
    calls after binding the arguments to f's parameters (missing = default); None when the branches do not have this shape."""
    if len(par) != 1 or len(seq) != 1 or not all(isinstance(x, ast.Assign) and len(x.targets) == 1 for x in (par[0], seq[0])):
        return None
    pa, sa = par[0], seq[0]
    if astq.canon(pa.targets[0]) != astq.canon(sa.targets[0]):
        return None
    pc, sc = pa.value, sa.value
    if not (isinstance(pc, ast.Call) and len(pc.args) == 1 and isinstance(pc.args[0], (ast.GeneratorExp, ast.ListComp))
            and isinstance(sc, (ast.ListComp, ast.GeneratorExp)) and len(pc.args[0].generators) == 1 and len(sc.generators) == 1):
        return None
    pg, sg = pc.args[0].generators[0], sc.generators[0]
    task = pc.args[0].elt
    if not (isinstance(task, ast.Call) and isinstance(task.func, ast.Call) and (scope.ext(m, fn, task.func.func) or "").endswith("delayed")
            and task.func.args and isinstance(sc.elt, ast.Call) and isinstance(pg.target, ast.Name) and isinstance(sg.target, ast.Name)):
        return None
    pitem = ast.Call(func=task.func.args[0], args=task.args, keywords=task.keywords)
    sitem = sc.elt
    out = []
    if astq.canon(pg.iter) != astq.canon(sg.iter) or [astq.canon(x) for x in pg.ifs] != [astq.canon(x) for x in sg.ifs]:
        out.append("parallel iterates `%s`, sequential iterates `%s`" % (ast.unparse(pg.iter), ast.unparse(sg.iter)))
    if astq.canon(pitem.func) != astq.canon(sitem.func):
        out.append("parallel calls `%s`, sequential calls `%s`" % (ast.unparse(pitem.func), ast.unparse(sitem.func)))
        return out
    sig = None
    d = dotted(pitem.func)
    sym = repo.resolve_dotted(m, d) if d and d.split(".")[0] not in scope.bound_names(fn) else None
    if sym is not None and sym.kind == "func":
        sig = sym.target
    else:
        for n in ast.walk(fn):
            if isinstance(n, ast.FunctionDef) and n is not fn and n.name == d:
                sig = n
    ren_p, ren_s = {pg.target.id: "$v"}, {sg.target.id: "$v"}

    def bound(call, ren):
        if sig is not None:
            b = astq.bind_call(sig, call)
            if b is not None and not any(k in b for k in ("*", "**", "*extra", "**extra", "!unknown")):
                res = {p: astq.canon(v, ren) for p, v in b.items()}
                for p, dv in astq.param_defaults(sig).items():
                    res.setdefault(p, astq.canon(dv))
                return res
        res = {i: astq.canon(a, ren) for i, a in enumerate(call.args)}
        res.update({k.arg: astq.canon(k.value, ren) for k in call.keywords})
        return res

    bp, bs = bound(pitem, ren_p), bound(sitem, ren_s)
    for p in sorted(set(bp) | set(bs), key=str):
        if bp.get(p) != bs.get(p):
            out.append("argument `%s`: parallel passes `%s`, sequential passes `%s`" % (p, bp.get(p, "<missing>"), bs.get(p, "<missing>")))
    return out


def _flatten(stmts):
    """`if A: <always leaves> else: S`  ==  `if A: <leaves>` followed by S"""
    out = []
    for st in stmts:
        if isinstance(st, ast.If):
            body = _flatten(st.body)
            orelse = _flatten(st.orelse)
            if body and isinstance(body[-1], (ast.Return, ast.Raise, ast.Continue, ast.Break)) and orelse:
                out.append(ast.If(test=st.test, body=body, orelse=[]))
                out.extend(orelse)
                continue
            out.append(ast.If(test=st.test, body=body, orelse=orelse))
        else:
            out.append(st)
    return out


class _Sub(ast.NodeTransformer):
    def __init__(self, fn_):
        self.fn_ = fn_

    def generic_visit(self, node):
        r = self.fn_(node)
        if r is not None:
            return r
        return super().generic_visit(node)


def _norm_parallel_branch(scope, m, fn, stmts):
    import copy
    if len(stmts) != 2 or not isinstance(stmts[0], ast.Assign) or not isinstance(stmts[1], ast.For):
        raise Undecided("parallel branch is not `res = Parallel(...)(...)` followed by one loop")
    asg, loop = stmts
    call = asg.value
    if not (len(asg.targets) == 1 and isinstance(asg.targets[0], ast.Name) and isinstance(call, ast.Call) and len(call.args) == 1
            and isinstance(call.args[0], (ast.GeneratorExp, ast.ListComp)) and len(call.args[0].generators) == 1):
        raise Undecided("unsupported Parallel call shape")
    res = asg.targets[0].id
    gen = call.args[0]
    g = gen.generators[0]
    task = gen.elt
    if not (isinstance(task, ast.Call) and isinstance(task.func, ast.Call) and (scope.ext(m, fn, task.func.func) or "").endswith("delayed")
            and task.func.args and isinstance(g.target, ast.Name) and not g.ifs):
        raise Undecided("task is not delayed(f)(args)")
    item = ast.Call(func=task.func.args[0], args=task.args, keywords=task.keywords)
    if not (isinstance(loop.target, ast.Name) and astq.canon(loop.iter) == astq.canon(g.iter)):
        raise Undecided("the consuming loop does not iterate the same sequence as the tasks")
    lv, gv = loop.target.id, g.target.id

    def repl(node):
        if isinstance(node, ast.Subscript) and isinstance(node.value, ast.Name) and node.value.id == res and isinstance(node.slice, ast.Name) \
                and node.slice.id == lv:
            it = copy.deepcopy(item)
            return _Sub(lambda n_: ast.Name(id="$i", ctx=ast.Load()) if isinstance(n_, ast.Name) and n_.id == gv else None).visit(it)
        if isinstance(node, ast.Name) and node.id == lv:
            return ast.Name(id="$i", ctx=ast.Load())
        if isinstance(node, ast.Name) and node.id == res:
            raise Undecided("results are used other than as res[loop variable]")
        return None

    body = [_Sub(repl).visit(copy.deepcopy(st)) for st in loop.body]
    return [("iter", astq.canon(loop.iter))] + _canon_stmts(_flatten(body))


def _norm_sequential_branch(stmts):
    import copy
    if len(stmts) != 1 or not isinstance(stmts[0], ast.For) or not isinstance(stmts[0].target, ast.Name):
        raise Undecided("sequential branch is not a single loop")
    loop = stmts[0]
    lv = loop.target.id
    body = _flatten([copy.deepcopy(st) for st in loop.body])
    # inline per-item temporaries (single plain assignment at the top level of the loop body)
    temps = {}
    out = []
    for st in body:
        def repl(node):
            if isinstance(node, ast.Name) and isinstance(node.ctx, ast.Load) and node.id in temps:
                return copy.deepcopy(temps[node.id])
            if isinstance(node, ast.Name) and node.id == lv:
                return ast.Name(id="$i", ctx=ast.Load())
            return None
        if isinstance(st, ast.Assign) and len(st.targets) == 1 and isinstance(st.targets[0], ast.Name) and isinstance(st.value, ast.Call):
            temps[st.targets[0].id] = _Sub(repl).visit(st.value)
            continue
        out.append(_Sub(repl).visit(st))
    return [("iter", astq.canon(loop.iter))] + _canon_stmts(out)


def _canon_stmts(stmts):
    """flat list of (kind, canonical text) with nesting markers"""
    out = []
    for st in stmts:
        if isinstance(st, ast.If):
            out.append(("if", astq.canon(st.test)))
            out.extend(_canon_stmts(st.body))
            out.append(("else", ""))
            out.extend(_canon_stmts(st.orelse))
            out.append(("endif", ""))
        elif isinstance(st, ast.Return):
            out.append(("return", astq.canon(st.value)))
        elif isinstance(st, ast.AugAssign):
            out.append(("aug:" + type(st.op).__name__ + ":" + astq.canon(st.target), astq.canon(st.value)))
        elif isinstance(st, ast.Assign):
            out.append(("assign:" + ",".join(astq.canon(t) for t in st.targets), astq.canon(st.value)))
        elif isinstance(st, ast.Expr):
            out.append(("expr", astq.canon(st.value)))
        elif isinstance(st, (ast.Continue, ast.Break, ast.Pass)):
            out.append((type(st).__name__.lower(), ""))
        else:
            raise Undecided("statement kind %s in a per-item loop" % type(st).__name__)
    return out


def _stmt_diffs(a, b):
    """None if the skeletons differ, else the list of (parallel text, sequential text) of differing leaves"""
    if len(a) != len(b) or any(x[0] != y[0] for x, y in zip(a, b)):
        return None
    return [(x[1], y[1]) for x, y in zip(a, b) if x[1] != y[1]]


def _reordering_wrapper(scope, m, fn, stmt, call):
    if stmt is None:
        return None
    for node in ast.walk(stmt):
        if isinstance(node, ast.Call) and node is not call and any(a is call for a in node.args):
            d = scope.ext(m, fn, node.func)
            nm = node.func.id if isinstance(node.func, ast.Name) else None
            if d in REORDER_CALLS or ("builtins." + nm if nm else None) in REORDER_CALLS:
                return d or nm
        if isinstance(node, ast.Subscript) and node.value is call and isinstance(node.slice, ast.Slice) and node.slice.step is not None:
            return "[::step]"
    return None


def _following(fn, stmt):
    """statements executed after ``stmt`` inside its own statement list (and the lists enclosing it)"""
    path = astq.enclosing_stmts(fn, stmt)
    if not path or path[-1] is not stmt:
        return None
    out = []
    owner_lists = []
    parent_nodes = [fn] + path[:-1]
    for par, child in zip(parent_nodes, path):
        for field in ("body", "orelse", "finalbody"):
            lst = getattr(par, field, None)
            if isinstance(lst, list) and any(x is child for x in lst):
                owner_lists.append((lst, child))
        for h in getattr(par, "handlers", []) or []:
            if any(x is child for x in h.body):
                owner_lists.append((h.body, child))
    for lst, child in reversed(owner_lists):
        i = [k for k, x in enumerate(lst) if x is child][0]
        out.extend(lst[i + 1:])
    # a loop around the assignment re-executes the statements before it as well: keep it simple and include the loop bodies
    for par in path[:-1]:
        if isinstance(par, (ast.For, ast.While)):
            out.append(par)
    return out


def _check_local_consumer(scope, m, fn, name, def_stmt, stop, iterable):
    """every later use of the local result list keeps the position <-> task correspondence"""
    region = _following(fn, def_stmt)
    if region is None:
        return None, "cannot locate the statements following the assignment of `%s`" % name
    own = {id(x) for x in ast.walk(def_stmt)}
    for st in region:
        for node in ast.walk(st):
            if isinstance(node, ast.Name) and node.id == name and isinstance(node.ctx, (ast.Store, ast.Del)) and id(node) not in own:
                return None, "`%s` is re-assigned while the results are still in use" % name
    reg = ast.Module(body=list(region), type_ignores=[])
    # map loop variables to their identity ranges
    loops = {}
    for node in ast.walk(reg):
        tgt = itx = None
        if isinstance(node, ast.For):
            tgt, itx = node.target, node.iter
        elif isinstance(node, ast.comprehension):
            tgt, itx = node.target, node.iter
        if isinstance(tgt, ast.Name):
            loops.setdefault(tgt.id, []).append(_is_identity_range(scope, m, fn, itx))
    want = [astq.canon(stop)] if stop is not None else ["len(%s)" % astq.canon(iterable)]
    n_uses = 0
    for node in ast.walk(reg):
        if isinstance(node, ast.Subscript) and isinstance(node.value, ast.Name) and node.value.id == name:
            n_uses += 1
            idx = node.slice
            if isinstance(idx, ast.Slice):
                if idx.step is not None:
                    return False, "`%s[::step]` reorders / thins the results" % name
                continue
            if isinstance(idx, ast.Name) and idx.id in loops:
                stops = loops[idx.id]
                if all(s is not None and astq.canon(s) in want for s in stops):
                    continue
                if any(s is None for s in stops):
                    return False, "`%s[%s]`: `%s` does not enumerate the task positions 0..n-1" % (name, idx.id, idx.id)
                return None, "`%s[%s]`: loop bound differs from the number of tasks" % (name, idx.id)
            if isinstance(idx, ast.BinOp) and isinstance(idx.op, (ast.Add, ast.Sub)) and any(
                    isinstance(x, ast.Name) and x.id in loops for x in (idx.left, idx.right)) and any(
                    isinstance(x, ast.Constant) and x.value not in (0,) for x in (idx.left, idx.right)):
                return False, "`%s[%s]` reads the result of a neighbouring task" % (name, ast.unparse(idx))
            if isinstance(idx, ast.Constant):
                continue
            return None, "`%s[%s]`: index not interpretable" % (name, ast.unparse(idx))
        if isinstance(node, ast.Call):
            args = list(node.args) + [k.value for k in node.keywords]
            if any(isinstance(a, ast.Name) and a.id == name for a in args):
                n_uses += 1
                d = scope.ext(m, fn, node.func)
                nm = node.func.id if isinstance(node.func, ast.Name) else None
                if d in REORDER_CALLS or (("builtins." + nm) if nm else None) in REORDER_CALLS:
                    return False, "`%s(%s)` reorders the results" % (d or nm, name)
            if isinstance(node.func, ast.Attribute) and isinstance(node.func.value, ast.Name) and node.func.value.id == name \
                    and node.func.attr in REORDER_METHODS:
                return False, "`%s.%s()` reorders the results in place" % (name, node.func.attr)
    return True, "%d uses" % n_uses


# ====================================================================================== run


def run(ctx):
    repo = ctx.repo
    mods = anchored_modules(repo)
    ctx.count("anchored_modules", len(mods))
    ctx.explain(
        "C12 (partial): R1 flow-sensitive may-alias/freshness analysis (values ALIAS/VIEW/ELEMENT/UNKNOWN/FRESH per parameter, union at "
        "control-flow merges, loops to fixpoint, interprocedural by function summaries 'returns alias of parameter k' / 'writes parameter k', "
        "closures and delayed(...) tasks analysed with their captured bindings) of every public entry point (fit/transform/inverse_transform/"
        "predict*/update*) of every class in the anchored files, resolved per concrete class: no in-place sink (subscript/attribute store, "
        "augmented assignment, del, inplace=True, out=, in-place methods, callee that writes its parameter) is reachable through an alias or "
        "view of a caller argument. R2 same engine: no .fit/.fit_transform on an object aliasing self.<constructor parameter>. R3 every "
        "generator construction / draw in the anchored files has seed provenance self.random_state (through helper parameters, by call-site "
        "binding), no numpy.random.*/random.* global draw, no generator object passed into delayed(...). R4 no lambda/nested function held "
        "by an attribute of self. R5 Parallel(...)(tasks): tasks enumerate their source in order, results are consumed positionally and paired "
        "with the same index as the sequences the tasks were built from. R6 derived/accumulated state is re-created by fit. R7 apply-type "
        "methods do not write in place into objects stored on self, do not re-enter state-storing entries, and (transformers) do not rebind an "
        "attribute that fit/update bind (self-attribute stores collected through self./super() helper calls along the MRO). Not decided: equality of repeated results, n_jobs invariance of "
        "values, pickle round trip, mutation through aliases stored on self by an earlier call.")
    ctx.assume("pandas/numpy/scipy/statsmodels/sklearn functions and methods that are not in the in-place table return new objects and do not "
               "write their arguments; pd.Series(...)/pd.DataFrame(...)/np.array(...) build new containers (DESIGN App. D, E4 table)")
    ctx.assume("x.values, x.to_numpy(), x.iloc/loc[...], x[col], x.T, squeeze, reshape, np.asarray may share memory with x (views)")
    ctx.assume("joblib.Parallel returns results in task-submission order; clone() and constructor calls return new estimators")
    ctx.assume("methods named append/insert/sort/... mutate only when used as expression statements (the pandas homonyms return a value)")
    eng = check_alias(ctx, repo, mods)
    if ctx.tier == "thorough":
        widened_scope(ctx, repo, mods, eng)
    check_rng(ctx, repo, mods)
    check_seed_forwarding(ctx, repo, mods)
    check_stored_generator(ctx, repo, mods)
    check_member_seed(ctx, repo, mods)
    check_reentrancy(ctx, repo, mods)
    check_horizon_store_table(ctx, repo)
    check_derived_state(ctx, repo, mods)
    check_fit_accumulation(ctx, repo, mods, eng)
    check_apply_state_writes(ctx, repo, mods, eng)
    check_apply_rebinds_fitted(ctx, repo, mods)
    check_pickle(ctx, repo, mods)
    check_reduce(ctx, repo, mods)
    check_parallel(ctx, repo, mods)
    check_parallel_siblings(ctx, repo, mods)
    # floors = instance counts confirmed by hand on commit 132f3d5 (minus a small margin for refactorings)
    ctx.floor("R1", 125)  # 145 public entry points of 43 classes in 26 anchored modules
    ctx.floor("R2", 10)   # public entry points (and orphan helpers) that reach a .fit/.fit_transform call
    ctx.floor("R3", 150)  # 210 functions scanned; 8 generator constructions, 4 parameter/attribute draws, 6 delayed sites
    ctx.floor("R4", 35)   # 43 classes
    ctx.floor("R7", 70)   # apply-type entry points of the anchored classes
    ctx.floor("R6", 30)   # classes with a fit method
    ctx.floor("R5", 10)   # 6 Parallel sites (source/index + consumer each) + 1 cross-method pairing
