"""E6 -- role / provenance dataflow used by C09 and C10.

A small structured abstract interpreter over ``ast`` function bodies.  Values are *provenance
terms* (hashable tuples): where a value came from, not what it is.  Repo-local callees
(``self._helper``, ``super().m``, module functions, nested functions, property getters, simple
generators) are inlined, so a rule sees one flat, ordered list of *events* (opaque calls, inlined
calls, attribute / item stores, returns, raises, yields, list appends) each carrying

* the resolved callee (``flow.Target``-like), receiver term, positional / keyword argument terms,
* its structural context: enclosing ``if`` branches (condition term + polarity), guards that
  persist after a rejecting / returning branch, loops, ``with`` items, ``try`` parts,
* a sequence number (evaluation order along any single path).

Terms
-----
``("param", n)``  ``("const", v)``  ``("self",)``  ``("attr0", a)`` (self.a before the analysed call)
``("attr@", a, k)`` (self.a after opaque event k may have changed it)  ``("ret", k)`` (result of event k)
``("getattr", t, name)``  ``("item", t, idx)``  ``("slice", lo, hi, step)``  ``("tuple", items)``
``("list", items)``  ``("newlist", k)``  ``("dict", items)``  ``("elem", seq, L)``  ``("idx", seq, L)``
``("mu", L, var)`` (loop-carried variable of loop L: see ``loops[L].carried``)  ``("phi", frozenset)``
``("comp", elt, L)``  ``("unzip", s)``  ``("enum", s)``  ``("reversed", s)``  ``("list_of", s)``
``("next", s)``  ``("hasattr", t, name)``  ``("len", t)``  ``("pure", fname, args)``
``("binop", op, a, b)``  ``("unop", op, a)``  ``("cmp", op, a, b)``  ``("boolop", op, vals)``
``("func", dotted)``  ``("cls", qual)``  ``("ext", dotted)``  ``("mod", name)``  ``("localfn", k)``
``("obj", name)`` (scenario value: some object that is not None)  ``("opq", why)``.

Nothing here matches on source text or variable names: terms are built from resolved symbols and
data flow only (a renamed local or an introduced temporary yields the same terms).
"""
import ast
import builtins

from ..index import AnalysisError, ClassInfo, dotted
from .. import astq

SELF = ("self",)
NONE = ("const", None)

PURE_BUILTINS = {
    "isinstance", "callable", "type", "any", "all", "min", "max", "sum", "abs", "int", "float", "bool", "str",
    "range", "sorted", "dict", "set", "frozenset", "iter", "filter", "map", "repr", "id", "issubclass", "round",
    "format", "print",
}


class Target:
    def __init__(self, kind, name, func=None, module=None, cls=None, defcls=None, ext=None):
        # kind: method (self) | super | func | class | ext | attr (method of another object) | value | localfn | property
        self.kind, self.name, self.func, self.module = kind, name, func, module
        self.cls, self.defcls, self.ext = cls, defcls, ext

    @property
    def dotted(self):
        if self.kind == "ext":
            return self.ext
        if self.kind == "func" and self.module is not None:
            return self.module.name + "." + self.name
        if self.kind == "class" and self.cls is not None:
            return self.cls.qual
        if self.kind in ("method", "super", "property") and self.defcls is not None:
            return self.defcls.qual + "." + self.name
        return None

    def __repr__(self):
        return "<%s %s>" % (self.kind, self.dotted or self.name)


class Event:
    def __init__(self, eid, kind, name, node, frame, ctx):
        self.id, self.kind, self.name, self.node, self.frame, self.ctx = eid, kind, name, node, frame, tuple(ctx)
        self.target = None
        self.recv = None
        self.args = ()  # positional terms (("star", t) for *t)
        self.kwargs = {}  # keyword -> term ("**" for **t)
        self.bound = None  # formal -> term when the callee's FunctionDef is known
        self.value = None  # store / return / yield / append value
        self.attr = None  # stored attribute name
        self.base = None  # object stored into (setattr / setitem / append)
        self.index = None
        self.ret = None  # term an inlined call evaluated to

    @property
    def lineno(self):
        return getattr(self.node, "lineno", "?")

    @property
    def func_name(self):
        return self.frame.fn.name

    def arg(self, pos=None, kw=None):
        """Actual bound to positional slot ``pos`` or keyword ``kw`` (for callees without a FunctionDef)."""
        if kw is not None and kw in self.kwargs:
            return self.kwargs[kw]
        if pos is not None and pos < len(self.args) and not any(isinstance(a, tuple) and a[:1] == ("star",) for a in self.args[:pos + 1]):
            return self.args[pos]
        return None

    def bind(self, names):
        """Bind actuals to the formals ``names`` (interface signature without self).  None if not bindable."""
        out = {}
        for i, a in enumerate(self.args):
            if isinstance(a, tuple) and a[:1] == ("star",):
                return None
            if i >= len(names):
                return None
            out[names[i]] = a
        for k, v in self.kwargs.items():
            if k == "**":
                out["**"] = v
                continue
            if k in out:
                return None
            out[k] = v
        return out

    def __repr__(self):
        return "<ev#%d %s %s L%s>" % (self.id, self.kind, self.name, self.lineno)


class Loop:
    def __init__(self, lid, kind, it, node, frame, ctx):
        self.id, self.kind, self.iter, self.node, self.frame, self.ctx = lid, kind, it, node, frame, tuple(ctx)
        self.carried = {}  # var -> (init term, step term)


class Frame:
    def __init__(self, module, fn, cls=None, defcls=None, depth=0, parent=None):
        self.module, self.fn, self.cls, self.defcls, self.depth, self.parent = module, fn, cls, defcls, depth, parent
        self.returns = []  # (term, ctx)
        self.ret_states = []  # (heap, epoch) at every normal return point
        self.yields = []  # (term, ctx, event)
        self.is_gen = astq.is_generator(fn)
        self.static = False

    def qual(self):
        return "%s.%s" % (self.defcls.name, self.fn.name) if self.defcls is not None else self.fn.name


class St:
    def __init__(self):
        self.env = {}
        self.heap = {}
        self.epoch = 0
        self.dead = None  # None | 'return' | 'raise' | 'break' | 'continue'
        self.ctx = []
        self.exits = set()

    def copy(self):
        s = St()
        s.env, s.heap, s.epoch, s.dead, s.ctx, s.exits = dict(self.env), dict(self.heap), self.epoch, self.dead, list(self.ctx), set(self.exits)
        return s


def phi(terms):
    flat = set()
    for t in terms:
        if isinstance(t, tuple) and t and t[0] == "phi":
            flat |= set(t[1])
        else:
            flat.add(t)
    if len(flat) == 1:
        return next(iter(flat))
    return ("phi", frozenset(flat))


def alts(t):
    """Alternatives of a term (phi flattened)."""
    if isinstance(t, tuple) and t and t[0] == "phi":
        return set(t[1])
    return {t}


def const(t, default=None):
    if isinstance(t, tuple) and len(t) == 2 and t[0] == "const":
        return t[1]
    return default


def is_const(t):
    return isinstance(t, tuple) and len(t) == 2 and t[0] == "const"


class Result:
    """Outcome of one analysed entry point."""

    def __init__(self, prov, frame, st):
        self.prov, self.frame, self.state = prov, frame, st
        self.events = prov.events
        self.loops = prov.loops
        self.lists = prov.lists
        self.returns = frame.returns
        self.heap = st.heap

    # ------------------------------------------------------------------ queries
    def ev(self, k):
        return self.events[k]

    def calls(self, name=None, kind=("call", "inline"), where=None):
        out = []
        for e in self.events:
            if e.kind not in kind:
                continue
            if name is not None and e.name != name:
                continue
            if where is not None and not where(e):
                continue
            out.append(e)
        return out

    def stores(self, attr=None):
        return [e for e in self.events if e.kind == "store" and (attr is None or e.attr == attr)]

    def of_kind(self, kind):
        return [e for e in self.events if e.kind == kind]

    def ret_event(self, t):
        """Event whose result the term is (through phi-free ``("ret", k)``)."""
        if isinstance(t, tuple) and len(t) == 2 and t[0] == "ret":
            return self.events[t[1]]
        return None

    def facts(self, e, upto=0):
        """Normalised path facts of an event: list of (cond term, polarity, origin) with ``not`` stripped."""
        out = []

        def add(cond, pol, origin):
            while isinstance(cond, tuple) and cond[:2] == ("unop", "not"):
                cond, pol = cond[2], not pol
            if isinstance(cond, tuple) and cond[:1] == ("boolop",) and ((cond[1] == "and") == pol):
                # (a and b) is True  /  (a or b) is False: every operand has that polarity
                for v in cond[2]:
                    add(v, pol, origin)
                return
            out.append((cond, pol, origin))

        for c in e.ctx[upto:]:
            if c[0] in ("if", "guard") and c[1] is not None:
                add(c[1], c[2], c[0] if c[0] == "if" else c[3])
        return out

    def loops_of(self, e):
        return [c[1] for c in e.ctx if c[0] == "loop"]

    def withs_of(self, e):
        return [c[1] for c in e.ctx if c[0] == "with"]

    def try_parts(self, e):
        return [(c[1], c[2]) for c in e.ctx if c[0] == "try"]

    def structural(self, e, keep_raise_guards=False):
        """Context entries that make an event conditional (inline markers and guards after a
        rejecting branch removed: if control continues at all, those were passed)."""
        out = []
        for c in e.ctx:
            if c[0] == "inline":
                continue
            if c[0] == "guard" and c[3] == "raise" and not keep_raise_guards:
                continue
            if c[0] == "with":
                continue
            if c[0] == "try" and c[2] in ("body", "finally"):
                continue
            out.append(c)
        return out

    def dominates(self, a, b):
        """Whenever ``b`` executes, ``a`` was executed before (structural)."""
        if a.id >= b.id:
            return False
        sa, sb = self.structural(a), self.structural(b)
        return sa == sb[:len(sa)]

    def unconditional(self, e, allow_loops=(), allow=lambda c: False):
        """Executed on every path that returns normally (apart from the given loops)."""
        for c in self.structural(e):
            if c[0] == "loop" and c[1] in allow_loops:
                continue
            if allow(c):
                continue
            return False
        return True

    def fmt(self, t, depth=0):
        return self.prov.fmt(t, depth)

    def early_exits(self, lid):
        """``break`` / ``return`` / ``raise``-free?  Events that leave loop ``lid`` before it has visited every element
        (a ``break`` whose innermost loop it is, or a ``return`` of the frame that owns the loop)."""
        L = self.loops[lid]
        out = []
        for e in self.events:
            loops = self.loops_of(e)
            if lid not in loops:
                continue
            if e.kind == "break" and loops[-1] == lid:
                out.append(e)
            elif e.kind == "return":
                # a return of a callee inlined *inside* the body only leaves that callee
                pos = max(i for i, c in enumerate(e.ctx) if c[0] == "loop" and c[1] == lid)
                if not any(c[0] == "inline" for c in e.ctx[pos + 1:]):
                    out.append(e)
        return out

    def plain(self, t):
        """Peel representation-preserving wrappers: ``.values``, ``.copy()``, ``.to_numpy()``, ``np.asarray(x)``."""
        while isinstance(t, tuple) and t:
            if t[0] == "getattr" and t[2] in ("values",):
                t = t[1]
                continue
            e = self.ret_event(t)
            if e is not None and e.kind == "call" and e.target is not None:
                if e.target.kind == "attr" and e.name in ("copy", "to_numpy") and not e.args and e.recv is not None:
                    t = e.recv
                    continue
                if e.target.kind == "ext" and e.target.ext in ("numpy.asarray", "numpy.array") and len(e.args) == 1:
                    t = e.args[0]
                    continue
            break
        return t

    def as_seq(self, t):
        """A list built by ``xs = []`` + one unconditional ``xs.append(v)`` inside one loop is the
        comprehension ``[v for ...]`` over that loop."""
        if isinstance(t, tuple) and len(t) == 2 and t[0] == "newlist":
            items = self.lists.get(t[1], [])
            if len(items) == 1 and items[0][1] is not None:
                v, e = items[0]
                sc = self.structural(e)
                loops = [i for i, c in enumerate(sc) if c[0] == "loop"]
                if loops and loops[-1] == len(sc) - 1:
                    return ("list_of", ("comp", v, sc[-1][1]))
        return t


class Prov:
    def __init__(self, repo, no_inline=(), inline_public=("check_is_fitted",), max_depth=6):
        self.repo = repo
        self.no_inline = set(no_inline)
        self.inline_public = set(inline_public)
        self.max_depth = max_depth
        self.events = []
        self.loops = {}
        self.lists = {}  # list id -> [(term, event)]
        self.localfns = {}
        self._adopt_ctx = []
        self._uid = 0

    # ------------------------------------------------------------------ entry points
    def run_method(self, cls, name, args=None):
        hit = self.repo.lookup_method(cls, name)
        if hit is None:
            raise AnalysisError("method %s.%s missing" % (cls.name, name))
        k, fn = hit
        fr = Frame(k.module, fn, cls, k)
        fr.static = k.is_static(name)
        return self._run(fr, args)

    def run_func(self, module, fn, args=None):
        return self._run(Frame(module, fn), args)

    def _run(self, fr, args):
        st = St()
        args = dict(args or {})
        a = fr.fn.args
        names = [p.arg for p in a.posonlyargs + a.args + a.kwonlyargs]
        for i, p in enumerate(names):
            if i == 0 and fr.cls is not None and not fr.static:
                st.env[p] = SELF
            else:
                st.env[p] = args.get(p, ("param", p))
        if a.vararg:
            st.env[a.vararg.arg] = ("param", "*" + a.vararg.arg)
        if a.kwarg:
            st.env[a.kwarg.arg] = ("param", "**" + a.kwarg.arg)
        self.block(fr.fn.body, st, fr)
        if st.dead is None:
            fr.returns.append((NONE, tuple(st.ctx)))
            fr.ret_states.append((dict(st.heap), st.epoch))
        if fr.ret_states:
            st.heap, st.epoch = self.merge_heaps(fr.ret_states)
        return Result(self, fr, st)

    def merge_heaps(self, states):
        """Join of the self-attribute stores over several program points (the return points of a callee)."""
        if len(states) == 1:
            return states[0]
        epochs = {ep for _, ep in states}
        if len(epochs) == 1:
            ep = next(iter(epochs))
            keys = set()
            for h, _ in states:
                keys |= set(h)
            return {k: phi([h.get(k, self.heap_default(k, ep)) for h, _ in states]) for k in keys}, ep
        self._uid += 1
        ep = ("j", self._uid)
        keys = set.intersection(*[set(h) for h, _ in states])
        first = states[0][0]
        return {k: first[k] for k in keys if all(h[k] == first[k] for h, _ in states)}, ep

    # ------------------------------------------------------------------ events
    def emit(self, kind, name, node, fr, st):
        e = Event(len(self.events), kind, name, node, fr, st.ctx)
        self.events.append(e)
        return e

    def new_loop(self, kind, it, node, fr, st):
        self._uid += 1
        L = Loop(self._uid, kind, it, node, fr, st.ctx)
        self.loops[L.id] = L
        return L

    # ------------------------------------------------------------------ statements
    def block(self, stmts, st, fr):
        depth = len(st.ctx)
        for s in stmts:
            if st.dead:
                break
            self.stmt(s, st, fr)
        del st.ctx[depth:]

    def stmt(self, node, st, fr):
        m = getattr(self, "st_" + type(node).__name__, None)
        if m is None:
            return  # Import, Global, Pass, ...
        m(node, st, fr)

    def st_Expr(self, node, st, fr):
        self.ev(node.value, st, fr)

    def st_Assign(self, node, st, fr):
        if isinstance(node.value, ast.List) and all(isinstance(t, ast.Name) for t in node.targets):
            self._uid += 1
            lid = self._uid
            self.lists[lid] = []
            for x in node.value.elts:
                self.lists[lid].append((self.ev(x, st, fr), None))
            v = ("newlist", lid)
        else:
            v = self.ev(node.value, st, fr)
        for t in node.targets:
            self.assign(t, v, st, fr, node)

    def st_AnnAssign(self, node, st, fr):
        if node.value is not None:
            self.assign(node.target, self.ev(node.value, st, fr), st, fr, node)

    def st_AugAssign(self, node, st, fr):
        cur = self.ev(node.target, st, fr)
        v = ("binop", type(node.op).__name__, cur, self.ev(node.value, st, fr))
        self.assign(node.target, v, st, fr, node)

    def st_Return(self, node, st, fr):
        v = self.ev(node.value, st, fr) if node.value is not None else NONE
        e = self.emit("return", fr.fn.name, node, fr, st)
        e.value = v
        fr.returns.append((v, tuple(st.ctx)))
        fr.ret_states.append((dict(st.heap), st.epoch))
        st.dead = "return"
        st.exits.add("return")

    def st_Raise(self, node, st, fr):
        v = self.ev(node.exc, st, fr) if node.exc is not None else None
        e = self.emit("raise", fr.fn.name, node, fr, st)
        e.value = v
        st.dead = "raise"
        st.exits.add("raise")

    def st_Break(self, node, st, fr):
        self.emit("break", fr.fn.name, node, fr, st)
        st.dead = "break"

    def st_Continue(self, node, st, fr):
        self.emit("continue", fr.fn.name, node, fr, st)
        st.dead = "continue"

    def st_Assert(self, node, st, fr):
        self.ev(node.test, st, fr)

    def st_FunctionDef(self, node, st, fr):
        self._uid += 1
        self.localfns[self._uid] = (node, fr, st.env)
        st.env[node.name] = ("localfn", self._uid)

    def st_Delete(self, node, st, fr):
        for t in node.targets:
            if isinstance(t, ast.Name):
                st.env.pop(t.id, None)

    def st_If(self, node, st, fr):
        cond = self.ev(node.test, st, fr)
        d = self.decide(cond)
        if d is not None:
            for sub_stmt in (node.body if d else node.orelse):
                if st.dead:
                    break
                self.stmt(sub_stmt, st, fr)
            return
        s1, s2 = st.copy(), st.copy()
        s1.exits, s2.exits = set(), set()
        s1.ctx.append(("if", cond, True, id(node)))
        s2.ctx.append(("if", cond, False, id(node)))
        self.block(node.body, s1, fr)
        self.block(node.orelse, s2, fr)
        self.join(st, [(s1, (cond, True)), (s2, (cond, False))], node)

    def join(self, st, branches, node):
        """Merge branch states into ``st`` (which keeps its ctx)."""
        live = [(s, g) for s, g in branches if not s.dead]
        exits = set()
        for s, _ in branches:
            exits |= s.exits
        st.exits |= exits
        if not live:
            kinds = {s.dead for s, _ in branches}
            st.dead = "raise" if kinds == {"raise"} else ("return" if kinds <= {"return", "raise"} else sorted(kinds)[0])
            return
        if len(live) == 1:
            s, g = live[0]
            st.env, st.heap, st.epoch = s.env, s.heap, s.epoch
            dead_bs = [b for b, _ in branches if b.dead]
            soft = sorted({b.dead for b in dead_bs if b.dead != "raise"})
            returned = bool(soft) or any("return" in b.exits for b in dead_bs)
            if g is not None:
                reason = (soft[0] if soft else "return") if returned else "raise"
                st.ctx.append(("guard", g[0], g[1], reason, id(node)))
            elif returned:
                st.ctx.append(("guard", None, None, "return", id(node)))
            if "return" in s.exits:
                st.ctx.append(("guard", None, None, "return", id(node)))
            return
        envs = [s.env for s, _ in live]
        keys = set()
        for e in envs:
            keys |= set(e)
        env = {}
        for k in keys:
            env[k] = phi([e.get(k, ("undef",)) for e in envs])
        epochs = {s.epoch for s, _ in live}
        if len(epochs) == 1:
            ep = epochs.pop()
            hk = set()
            for s, _ in live:
                hk |= set(s.heap)
            heap = {k: phi([s.heap.get(k, self.heap_default(k, ep)) for s, _ in live]) for k in hk}
        else:
            self._uid += 1
            ep = ("j", self._uid)
            hk = set.intersection(*[set(s.heap) for s, _ in live])
            heap = {k: live[0][0].heap[k] for k in hk if all(s.heap[k] == live[0][0].heap[k] for s, _ in live)}
        st.env, st.heap, st.epoch = env, heap, ep
        if "return" in exits or any(b.dead in ("return", "break", "continue") for b, _ in branches):
            st.ctx.append(("guard", None, None, "return", id(node)))

    @staticmethod
    def heap_default(attr, epoch):
        return ("attr0", attr) if epoch == 0 else ("attr@", attr, epoch)

    def st_For(self, node, st, fr):
        it, adopted = self.iter_value(node.iter, st, fr)
        if adopted is None and isinstance(it, tuple) and it and it[0] in ("tuple", "list") and 0 < len(it[1]) <= 8 \
                and all(is_const(x) for x in it[1]) and not node.orelse \
                and not any(isinstance(n, ast.Break) for sub in node.body for n in ast.walk(sub)):
            # a loop over a literal table of constants is interpreted once per entry (exact: no abstraction of the element)
            for item in it[1]:
                if st.dead:
                    break
                self.assign(node.target, item, st, fr, node)
                depth = len(st.ctx)
                for sub_stmt in node.body:
                    if st.dead:
                        break
                    self.stmt(sub_stmt, st, fr)
                if st.dead == "continue":
                    st.dead = None
                    del st.ctx[depth:]
            return
        if adopted is not None:
            L, elem = adopted
        else:
            L = self.new_loop("for", it, node, fr, st)
            elem = self.elem_of(it, L.id)
        assigned = set()
        for sub in node.body + [node.target]:
            for n in ast.walk(sub):
                if isinstance(n, ast.Name) and isinstance(n.ctx, ast.Store):
                    assigned.add(n.id)

        own_carried = dict(L.carried)  # an adopted generator loop already carries the generator's own variables
        extra_ctx = list(getattr(self, "_adopt_ctx", ())) if adopted is not None else []
        self._adopt_ctx = []

        def run_body(head):
            body = head.copy()
            body.exits = set()
            inits = {}
            for v in assigned:
                if v in head.env:
                    inits[v] = head.env[v]
                    body.env[v] = ("mu", L.id, v)
            body.ctx.append(("loop", L.id))
            body.ctx.extend(extra_ctx)
            self.assign(node.target, elem, body, fr, node)
            self.block(node.body, body, fr)
            if body.dead in ("continue", "break"):
                body.dead = None
            L.carried = dict(own_carried)
            for v, init in inits.items():
                step = body.env.get(v, ("undef",))
                if step != ("mu", L.id, v):
                    L.carried[v] = (init, step)
            return body

        mark = (len(self.events), self._uid)
        list_lens = {k: len(v) for k, v in self.lists.items()}
        frame_marks = (len(fr.yields), len(fr.returns), len(fr.ret_states))
        body = run_body(st)
        if not body.dead and (body.epoch != st.epoch or body.heap != st.heap):
            # the body changes attributes of self: what it reads at its head is the join of the state
            # before the loop and the state at the end of the previous iteration -- interpret it again
            del self.events[mark[0]:]
            for table in (self.loops, self.lists, self.localfns):
                for k in [k for k in table if isinstance(k, int) and k > mark[1]]:
                    del table[k]
            for k, n in list_lens.items():
                del self.lists[k][n:]
            del fr.yields[frame_marks[0]:]
            del fr.returns[frame_marks[1]:]
            del fr.ret_states[frame_marks[2]:]
            self._uid = mark[1]
            head = st.copy()
            head.heap, head.epoch = self.merge_heaps([(st.heap, st.epoch), (body.heap, body.epoch)])
            body = run_body(head)
        after = st.copy()
        after.exits = set()
        self.join(st, [(body, None), (after, None)], node)
        for v in L.carried:
            st.env[v] = ("mu", L.id, v)
        if node.orelse:
            self.block(node.orelse, st, fr)

    def counting_while(self, node, st):
        """``while i < N: <body>; i += 1`` (i assigned nowhere else in the body, no ``continue``) is ``for i in range(i, N)``.
        Returns the equivalent ast.For or None."""
        t = node.test
        if not (isinstance(t, ast.Compare) and len(t.ops) == 1 and isinstance(t.ops[0], ast.Lt) and isinstance(t.left, ast.Name)):
            return None
        var = t.left.id
        if var not in st.env or node.orelse or not node.body:
            return None
        last = node.body[-1]
        if not (isinstance(last, ast.AugAssign) and isinstance(last.op, ast.Add) and isinstance(last.target, ast.Name) and last.target.id == var
                and isinstance(last.value, ast.Constant) and last.value.value == 1):
            return None
        for sub in node.body[:-1]:
            for n in ast.walk(sub):
                if isinstance(n, ast.Continue):
                    return None
                if isinstance(n, ast.Name) and n.id == var and isinstance(n.ctx, (ast.Store, ast.Del)):
                    return None
        for n in ast.walk(t.comparators[0]):
            if isinstance(n, ast.Name) and n.id == var:
                return None
        rng = ast.Call(func=ast.Name(id="range", ctx=ast.Load()), args=[ast.Name(id=var, ctx=ast.Load()), t.comparators[0]], keywords=[])
        loop = ast.For(target=ast.Name(id=var, ctx=ast.Store()), iter=rng, body=list(node.body[:-1]) or [ast.Pass()], orelse=[])
        ast.copy_location(loop, node)
        ast.fix_missing_locations(loop)
        return loop

    def st_While(self, node, st, fr):
        as_for = self.counting_while(node, st)
        if as_for is not None and "range" not in st.env:
            return self.st_For(as_for, st, fr)
        self.ev(node.test, st, fr)
        L = self.new_loop("while", ("opq", "while"), node, fr, st)
        body = st.copy()
        body.ctx.append(("loop", L.id))
        for sub in node.body:
            for n in ast.walk(sub):
                if isinstance(n, ast.Name) and isinstance(n.ctx, ast.Store):
                    body.env[n.id] = ("opq", "while-carried")
        self.block(node.body, body, fr)
        if body.dead in ("continue", "break"):
            body.dead = None
        after = st.copy()
        self.join(st, [(body, None), (after, None)], node)
        for sub in node.body:
            for n in ast.walk(sub):
                if isinstance(n, ast.Name) and isinstance(n.ctx, ast.Store):
                    st.env[n.id] = ("opq", "while-carried")

    def st_With(self, node, st, fr):
        depth = len(st.ctx)
        for item in node.items:
            v = self.ev(item.context_expr, st, fr)
            st.ctx.append(("with", v))
            if item.optional_vars is not None:
                self.assign(item.optional_vars, ("enter", v), st, fr, node)
        self.block(node.body, st, fr)
        del st.ctx[depth:]

    def st_Try(self, node, st, fr):
        tid = id(node)
        pre = st.copy()
        depth = len(st.ctx)
        st.ctx.append(("try", tid, "body"))
        self.block(node.body, st, fr)
        del st.ctx[depth:]
        if node.orelse and not st.dead:
            st.ctx.append(("try", tid, "else"))
            self.block(node.orelse, st, fr)
            del st.ctx[depth:]
        branches = [(st.copy(), None)]
        for h in node.handlers:
            hs = pre.copy()
            hs.exits = set()
            # the handler starts from an unknown mixture of the try body's effects
            hs.heap = {}
            self._uid += 1
            hs.epoch = ("exc", self._uid)
            hs.ctx.append(("try", tid, "except"))
            if h.name:
                hs.env[h.name] = ("opq", "exception")
            self.block(h.body, hs, fr)
            del hs.ctx[depth:]
            branches.append((hs, None))
        if len(branches) > 1:
            st.dead = None
            self.join(st, branches, node)
        if node.finalbody:
            dead = st.dead
            st.dead = None
            st.ctx.append(("try", tid, "finally"))
            self.block(node.finalbody, st, fr)
            del st.ctx[depth:]
            st.dead = st.dead or dead

    # ------------------------------------------------------------------ assignment
    def assign(self, target, val, st, fr, node):
        if isinstance(target, ast.Name):
            st.env[target.id] = val
        elif isinstance(target, (ast.Tuple, ast.List)):
            n = len(target.elts)
            for i, t in enumerate(target.elts):
                if isinstance(t, ast.Starred):
                    self.assign(t.value, ("opq", "starred-unpack"), st, fr, node)
                else:
                    self.assign(t, self.component(val, i, n), st, fr, node)
        elif isinstance(target, ast.Attribute):
            base = self.ev(target.value, st, fr)
            if base == SELF:
                e = self.emit("store", target.attr, node, fr, st)
                e.attr, e.value = target.attr, val
                st.heap[target.attr] = val
            else:
                e = self.emit("setattr", target.attr, node, fr, st)
                e.attr, e.value, e.base = target.attr, val, base
        elif isinstance(target, ast.Subscript):
            base = self.ev(target.value, st, fr)
            e = self.emit("setitem", None, node, fr, st)
            e.base, e.index, e.value = base, self.ev_slice(target.slice, st, fr), val

    def component(self, val, i, n=None):
        """i-th component of a value being unpacked."""
        if isinstance(val, tuple) and val and val[0] in ("tuple", "list") and i < len(val[1]):
            return val[1][i]
        if isinstance(val, tuple) and val and val[0] == "phi":
            return phi([self.component(a, i, n) for a in val[1]])
        return ("item", val, ("const", i))

    # ------------------------------------------------------------------ conditions
    def decide(self, t):
        if not isinstance(t, tuple):
            return None
        if t[0] == "const":
            try:
                return bool(t[1])
            except Exception:
                return None
        if t[0] == "unop" and t[1] == "not":
            d = self.decide(t[2])
            return None if d is None else (not d)
        if t[0] == "boolop":
            vals = [self.decide(v) for v in t[2]]
            if t[1] == "and":
                if any(v is False for v in vals):
                    return False
                return True if all(v is True for v in vals) else None
            if any(v is True for v in vals):
                return True
            return False if all(v is False for v in vals) else None
        if t[0] == "cmp":
            op, a, b = t[1], t[2], t[3]
            if is_const(a) and is_const(b):
                try:
                    if op == "Is":
                        return a[1] is b[1] if (a[1] is None or b[1] is None or isinstance(a[1], bool)) else a[1] == b[1]
                    if op == "IsNot":
                        return not (a[1] is b[1] if (a[1] is None or b[1] is None or isinstance(a[1], bool)) else a[1] == b[1])
                    if op == "Eq":
                        return a[1] == b[1]
                    if op == "NotEq":
                        return a[1] != b[1]
                    if op == "In":
                        return a[1] in b[1]
                    if op == "NotIn":
                        return a[1] not in b[1]
                except Exception:
                    return None
            if op in ("Is", "IsNot") and (a == NONE or b == NONE):
                other = b if a == NONE else a
                if isinstance(other, tuple) and other and other[0] in ("tuple", "list", "dict", "newlist", "cls", "func", "self", "localfn", "obj"):
                    return op == "IsNot"
            if op in ("Eq", "NotEq") and isinstance(a, tuple) and isinstance(b, tuple) and a[0] == "dict" and b[0] == "dict" \
                    and not a[1] and not b[1]:
                return op == "Eq"
        return None

    # ------------------------------------------------------------------ expressions
    def ev(self, e, st, fr):
        if e is None:
            return NONE
        m = getattr(self, "ev_" + type(e).__name__, None)
        if m is None:
            return ("opq", "expr:" + type(e).__name__)
        return m(e, st, fr)

    def ev_Constant(self, e, st, fr):
        try:
            hash(e.value)
            return ("const", e.value)
        except TypeError:
            return ("const", repr(e.value))

    def ev_Name(self, e, st, fr):
        if e.id in st.env:
            return st.env[e.id]
        return self.global_name(fr.module, e.id)

    def global_name(self, module, name):
        sym = self.repo.resolve_name(module, name)
        if sym is not None:
            return self.sym_term(sym)
        if hasattr(builtins, name):
            return ("ext", "builtins." + name)
        return ("opq", "name:" + name)

    def sym_term(self, sym):
        if sym.kind == "func":
            return ("func", sym.dotted)
        if sym.kind == "class":
            return ("cls", sym.target.qual)
        if sym.kind == "ext":
            return ("ext", sym.dotted)
        if sym.kind == "module":
            return ("mod", sym.target.name)
        if sym.kind == "const":
            node = sym.target
            if isinstance(node, ast.Constant):
                return self.ev_Constant(node, None, None)
            if isinstance(node, (ast.Tuple, ast.List)) and all(isinstance(x, ast.Constant) for x in node.elts):
                return ("tuple", tuple(("const", x.value) for x in node.elts))
            return ("global", sym.dotted)
        if sym.kind == "classattr":
            return ("global", sym.dotted)
        return ("opq", "symbol")

    def ev_Tuple(self, e, st, fr):
        return ("tuple", tuple(self.ev(x, st, fr) for x in e.elts))

    def ev_List(self, e, st, fr):
        return ("list", tuple(self.ev(x, st, fr) for x in e.elts))

    def ev_Set(self, e, st, fr):
        return ("set", tuple(self.ev(x, st, fr) for x in e.elts))

    def ev_Dict(self, e, st, fr):
        return ("dict", tuple((self.ev(k, st, fr) if k is not None else ("opq", "**"), self.ev(v, st, fr))
                              for k, v in zip(e.keys, e.values)))

    def ev_JoinedStr(self, e, st, fr):
        return ("opq", "fstring")

    def ev_Starred(self, e, st, fr):
        return ("star", self.ev(e.value, st, fr))

    def ev_Lambda(self, e, st, fr):
        return ("lambda", id(e))

    def ev_BinOp(self, e, st, fr):
        return ("binop", type(e.op).__name__, self.ev(e.left, st, fr), self.ev(e.right, st, fr))

    def ev_UnaryOp(self, e, st, fr):
        v = self.ev(e.operand, st, fr)
        if isinstance(e.op, ast.Not):
            return ("unop", "not", v)
        if isinstance(e.op, ast.USub) and is_const(v) and isinstance(v[1], (int, float)) and not isinstance(v[1], bool):
            return ("const", -v[1])
        if isinstance(e.op, ast.UAdd) and is_const(v) and isinstance(v[1], (int, float)) and not isinstance(v[1], bool):
            return v
        return ("unop", type(e.op).__name__, v)

    def ev_BoolOp(self, e, st, fr):
        return ("boolop", "and" if isinstance(e.op, ast.And) else "or", tuple(self.ev(v, st, fr) for v in e.values))

    def ev_Compare(self, e, st, fr):
        left = self.ev(e.left, st, fr)
        parts = []
        for op, c in zip(e.ops, e.comparators):
            right = self.ev(c, st, fr)
            parts.append(("cmp", type(op).__name__, left, right))
            left = right
        return parts[0] if len(parts) == 1 else ("boolop", "and", tuple(parts))

    def ev_IfExp(self, e, st, fr):
        cond = self.ev(e.test, st, fr)
        d = self.decide(cond)
        if d is True:
            return self.ev(e.body, st, fr)
        if d is False:
            return self.ev(e.orelse, st, fr)
        depth = len(st.ctx)
        st.ctx.append(("if", cond, True, id(e)))
        a = self.ev(e.body, st, fr)
        del st.ctx[depth:]
        st.ctx.append(("if", cond, False, id(e)))
        b = self.ev(e.orelse, st, fr)
        del st.ctx[depth:]
        return phi([a, b])

    def ev_Yield(self, e, st, fr):
        v = self.ev(e.value, st, fr) if e.value is not None else NONE
        ev = self.emit("yield", fr.fn.name, e, fr, st)
        ev.value = v
        fr.yields.append((v, tuple(st.ctx), ev))
        if fr.parent is None:
            # the consumer runs arbitrary code while the generator is suspended (an inlined
            # generator's consumer is the loop body the analysis interprets itself)
            st.heap = {}
            st.epoch = ev.id + 1
        return ("opq", "sent")

    def ev_YieldFrom(self, e, st, fr):
        # ``yield from gen(...)`` with a repo-local generator: its yields are this generator's yields
        if isinstance(e.value, ast.Call):
            tgt, recv, callee = self.resolve_callee(e.value, st, fr)
            if tgt is not None and tgt.func is not None and astq.is_generator(tgt.func) and tgt.kind in ("method", "super", "func", "localfn") \
                    and tgt.name not in self.no_inline and fr.depth < self.max_depth and not self.on_stack(tgt.func, fr):
                args, kwargs = self.eval_args(e.value, st, fr)
                if tgt.kind == "localfn":
                    sub = Frame(tgt.module, tgt.func, fr.cls, fr.defcls, fr.depth + 1, fr)
                else:
                    sub = self.callee_frame(tgt, fr)
                skip_self = tgt.kind in ("method", "super") and not sub.static
                bound = self.bind_params(tgt.func, args, kwargs, skip_self, sub)
                if bound is not None:
                    ev = self.emit("inline", tgt.name, e.value, fr, st)
                    ev.target, ev.recv, ev.args, ev.kwargs, ev.bound = tgt, recv, tuple(args), kwargs, bound
                    depth = len(st.ctx)
                    st.ctx.append(("inline", ev.id, sub.qual()))
                    sub.yields = fr.yields  # delegate: same consumer
                    sub_st = St()
                    sub_st.heap, sub_st.epoch, sub_st.ctx = st.heap, st.epoch, st.ctx
                    sub_st.env = dict(self.localfns_env(tgt.func)) if tgt.kind == "localfn" else {}
                    sub_st.env.update(bound)
                    if skip_self:
                        sub_st.env[astq.param_names(tgt.func)[0]] = SELF
                    self.block(tgt.func.body, sub_st, sub)
                    del st.ctx[depth:]
                    st.heap, st.epoch = sub_st.heap, sub_st.epoch
                    ev.ret = ("opq", "generator-result")
                    return ev.ret
        v = self.ev(e.value, st, fr)
        ev = self.emit("yield", fr.fn.name, e, fr, st)
        ev.value = ("opq", "yield-from", v)
        fr.yields.append((("opq", "yield-from"), tuple(st.ctx) + (("opaque-delegate",),), ev))
        if fr.parent is None:
            st.heap = {}
            st.epoch = ev.id + 1
        return ("opq", "yield-from")

    def ev_Subscript(self, e, st, fr):
        base = self.ev(e.value, st, fr)
        idx = self.ev_slice(e.slice, st, fr)
        if isinstance(base, tuple) and base and base[0] in ("tuple", "list") and is_const(idx) and isinstance(idx[1], int):
            k = idx[1]
            if -len(base[1]) <= k < len(base[1]):
                return base[1][k]
        if isinstance(idx, tuple) and idx[:1] == ("slice",) and idx[1] in (NONE, ("const", 0)) and idx[2] == NONE and idx[3] in (NONE, ("const", 1)):
            # x[:] / x.iloc[:] -- the same elements in the same order
            if isinstance(base, tuple) and base[:1] == ("getattr",) and base[2] in ("iloc", "loc"):
                return base[1]
            return base
        return ("item", base, idx)

    def ev_slice(self, s, st, fr):
        if isinstance(s, ast.Slice):
            return ("slice", self.ev(s.lower, st, fr) if s.lower is not None else NONE,
                    self.ev(s.upper, st, fr) if s.upper is not None else NONE,
                    self.ev(s.step, st, fr) if s.step is not None else NONE)
        if isinstance(s, ast.Tuple):
            return ("tuple", tuple(self.ev_slice(x, st, fr) for x in s.elts))
        if hasattr(ast, "Index") and isinstance(s, getattr(ast, "Index")):  # py < 3.9
            return self.ev_slice(s.value, st, fr)
        return self.ev(s, st, fr)

    def ev_Attribute(self, e, st, fr):
        base = self.ev(e.value, st, fr)
        return self.getattr(base, e.attr, e, st, fr)

    def getattr(self, base, attr, node, st, fr):
        if base == SELF and fr.cls is not None:
            return self.self_attr(attr, node, st, fr)
        if isinstance(base, tuple) and base:
            if base[0] == "mod":
                m = self.repo.modules.get(base[1])
                sym = self.repo.resolve_name(m, attr) if m is not None else None
                if sym is None and m is not None and (m.name + "." + attr) in self.repo.modules:
                    return ("mod", m.name + "." + attr)
                return self.sym_term(sym) if sym is not None else ("opq", "modattr:" + attr)
            if base[0] == "ext":
                return ("ext", base[1] + "." + attr)
            if base[0] == "phi":
                return phi([self.getattr(a, attr, node, st, fr) for a in base[1]])
        return ("getattr", base, attr)

    def self_attr(self, attr, node, st, fr):
        cls = fr.cls
        if attr in st.heap:
            return st.heap[attr]
        for k in self.repo.mro(cls):
            if not isinstance(k, ClassInfo):
                continue
            if attr in k.properties and "getter" in k.properties[attr]:
                return self.inline_property(k, attr, node, st, fr)
            if attr in k.methods:
                return ("bound", attr)
            if attr in k.class_attrs:
                # instance attributes shadow class attributes only after a store (handled by the heap above)
                return ("clsattr", k.qual, attr)
        return self.heap_default(attr, st.epoch)

    def inline_property(self, k, attr, node, st, fr):
        fn = k.properties[attr]["getter"]
        if fr.depth >= self.max_depth:
            return ("opq", "property-depth:" + attr)
        t = Target("property", attr, fn, k.module, fr.cls, k)
        return self.inline(t, fn, {}, node, st, fr, recv=SELF, kind="property")

    # ------------------------------------------------------------------ comprehensions / iteration
    def elem_of(self, it, lid):
        if isinstance(it, tuple) and it:
            if it[0] == "enum":
                idx = ("idx", it[1], lid)
                if len(it) == 3:
                    idx = ("binop", "Add", idx, it[2])
                return ("tuple", (idx, self.elem_of(it[1], lid)))
            if it[0] == "phi":
                return phi([self.elem_of(a, lid) for a in it[1]])
        return ("elem", it, lid)

    def iter_value(self, node, st, fr):
        """Value iterated by a ``for``; a call of a simple repo generator (one yield inside one loop,
        or straight-line yields) is unfolded so the loop is the generator's own loop."""
        if isinstance(node, ast.Call):
            tgt, recv, callee = self.resolve_callee(node, st, fr)
            if tgt is not None and tgt.func is not None and astq.is_generator(tgt.func) and tgt.kind in ("method", "super", "func") \
                    and tgt.name not in self.no_inline and fr.depth < self.max_depth:
                args, kwargs = self.eval_args(node, st, fr)
                sub = self.callee_frame(tgt, fr)
                bound = self.bind_params(tgt.func, args, kwargs, skip_self=(tgt.kind in ("method", "super") and not sub.static), fr=sub)
                if bound is not None:
                    ev = self.emit("inline", tgt.name, node, fr, st)
                    ev.target, ev.recv, ev.args, ev.kwargs, ev.bound = tgt, recv, tuple(args), kwargs, bound
                    depth = len(st.ctx)
                    st.ctx.append(("inline", ev.id, sub.qual()))
                    base_ctx = len(st.ctx)
                    sub_st = St()
                    sub_st.heap, sub_st.epoch, sub_st.ctx = st.heap, st.epoch, st.ctx
                    sub_st.env = dict(bound)
                    if tgt.kind in ("method", "super") and not sub.static:
                        sub_st.env[astq.param_names(tgt.func)[0]] = SELF
                    self.block(tgt.func.body, sub_st, sub)
                    del st.ctx[depth:]
                    st.heap, st.epoch = sub_st.heap, sub_st.epoch
                    if len(sub.yields) == 1:
                        val, yctx, yev = sub.yields[0]
                        rel = [c for c in yctx[base_ctx:] if not (c[0] == "guard" and c[3] == "raise") and c[0] != "inline"]
                        if rel and rel[0][0] == "loop" and rel[0][1] in self.loops and all(c[0] in ("if", "guard") for c in rel[1:]):
                            L = self.loops[rel[0][1]]
                            ev.ret = ("gen", L.id)
                            self._adopt_ctx = list(rel[1:])  # the consumer's body runs only where the generator yields
                            return ("gen", L.id), (L, val)
                    ev.ret = ("opq", "generator:" + tgt.name)
                    return ev.ret, None
        return self.ev(node, st, fr), None

    def comp(self, node, elt_fn, st, fr):
        depth = len(st.ctx)
        saved = dict(st.env)
        L0 = None
        for gen in node.generators:
            it = self.ev(gen.iter, st, fr)
            L = self.new_loop("comp", it, node, fr, st)
            L0 = L0 or L
            st.ctx.append(("loop", L.id))
            self.assign(gen.target, self.elem_of(it, L.id), st, fr, node)
            for c in gen.ifs:
                st.ctx.append(("if", self.ev(c, st, fr), True, id(c)))
        elt = elt_fn()
        del st.ctx[depth:]
        st.env = saved
        return ("comp", elt, L0.id)

    def ev_ListComp(self, e, st, fr):
        return ("list_of", self.comp(e, lambda: self.ev(e.elt, st, fr), st, fr))

    def ev_SetComp(self, e, st, fr):
        return ("set_of", self.comp(e, lambda: self.ev(e.elt, st, fr), st, fr))

    def ev_GeneratorExp(self, e, st, fr):
        return self.comp(e, lambda: self.ev(e.elt, st, fr), st, fr)

    def ev_DictComp(self, e, st, fr):
        return ("dict_of", self.comp(e, lambda: ("tuple", (self.ev(e.key, st, fr), self.ev(e.value, st, fr))), st, fr))

    # ------------------------------------------------------------------ calls
    def eval_args(self, node, st, fr):
        args = [self.ev(a, st, fr) for a in node.args]
        kwargs = {}
        for k in node.keywords:
            kwargs[k.arg if k.arg is not None else "**"] = self.ev(k.value, st, fr)
        return args, kwargs

    def callee_frame(self, tgt, fr):
        if tgt.kind in ("method", "super", "property"):
            sub = Frame(tgt.module, tgt.func, fr.cls, tgt.defcls, fr.depth + 1, fr)
            sub.static = tgt.defcls.is_static(tgt.name) if tgt.defcls is not None else False
            return sub
        return Frame(tgt.module, tgt.func, None, None, fr.depth + 1, fr)

    def resolve_callee(self, node, st, fr):
        """(Target | None, receiver term | None, callee value term | None)."""
        f = node.func
        if isinstance(f, ast.Attribute):
            b = f.value
            if isinstance(b, ast.Call) and dotted(b.func) == "super" and fr.cls is not None and fr.defcls is not None:
                hit = self.repo.lookup_method(fr.cls, f.attr, after=fr.defcls)
                if hit:
                    return Target("super", f.attr, hit[1], hit[0].module, fr.cls, hit[0]), SELF, None
                return Target("ext", f.attr, ext="super()." + f.attr), SELF, None
            base = self.ev(b, st, fr)
            if base == SELF and fr.cls is not None:
                if f.attr not in st.heap:
                    hit = self.repo.lookup_method(fr.cls, f.attr)
                    if hit:
                        return Target("method", f.attr, hit[1], hit[0].module, fr.cls, hit[0]), SELF, None
                v = self.self_attr(f.attr, f, st, fr)
                return Target("value", f.attr), None, v
            v = self.getattr(base, f.attr, f, st, fr)
            t = self.term_target(v, f.attr)
            if t is not None:
                return t, None, v
            return Target("attr", f.attr), base, None
        v = self.ev(f, st, fr)
        t = self.term_target(v, dotted(f))
        if t is not None:
            return t, None, v
        return Target("value", dotted(f)), None, v

    def term_target(self, v, name):
        if not isinstance(v, tuple) or not v:
            return None
        if v[0] == "func":
            mod, _, fn = v[1].rpartition(".")
            m = self.repo.modules.get(mod)
            node = m.defs.get(fn) if m is not None else None
            if isinstance(node, (ast.FunctionDef, ast.AsyncFunctionDef)):
                return Target("func", fn, node, m)
        if v[0] == "cls":
            k = self.repo.classes.get(v[1])
            if k is not None:
                hit = self.repo.lookup_method(k, "__init__")
                return Target("class", k.name, hit[1] if hit else None, k.module, k, hit[0] if hit else None)
        if v[0] == "ext":
            return Target("ext", v[1].rpartition(".")[2], ext=v[1])
        if v[0] == "localfn":
            node, dfr, env = self.localfns[v[1]]
            return Target("localfn", node.name, node, dfr.module)
        return None

    def bind_params(self, fn, args, kwargs, skip_self, fr):
        """formal -> term for a call of ``fn``; defaults are evaluated in the callee's module."""
        names = astq.param_names(fn, False)
        if skip_self and names:
            names = names[1:]
        kwonly = [p.arg for p in fn.args.kwonlyargs]
        out = {}
        extra = []
        for i, a in enumerate(args):
            if isinstance(a, tuple) and a[:1] == ("star",):
                return None
            if i < len(names):
                out[names[i]] = a
            elif fn.args.vararg is not None:
                extra.append(a)
            else:
                return None
        xkw = []
        for k, v in kwargs.items():
            if k == "**":
                if fn.args.kwarg is not None:
                    xkw.append((("opq", "**"), v))
                    continue
                # **mapping into named parameters: unknown which -- leave them to their defaults, remember the mapping
                out["**"] = v
                continue
            if k in names or k in kwonly:
                if k in out:
                    return None
                out[k] = v
            elif fn.args.kwarg is not None:
                xkw.append((("const", k), v))
            else:
                return None
        defaults = astq.param_defaults(fn)
        st0 = St()
        for p in names + kwonly:
            if p not in out:
                if p in defaults:
                    out[p] = self.ev(defaults[p], st0, fr)
                else:
                    out[p] = ("opq", "missing-arg:" + p)
        if fn.args.vararg is not None:
            out[fn.args.vararg.arg] = ("tuple", tuple(extra))
        if fn.args.kwarg is not None:
            out[fn.args.kwarg.arg] = ("dict", tuple(xkw))
        return out

    def ev_Call(self, node, st, fr):
        tgt, recv, callee = self.resolve_callee(node, st, fr)
        args, kwargs = self.eval_args(node, st, fr)
        # ---- transfer functions of builtins / library helpers
        if tgt.kind == "ext":
            r = self.transfer(tgt.ext, args, kwargs, node, st, fr)
            if r is not None:
                return r
        if tgt.kind == "attr" and tgt.name == "append" and isinstance(recv, tuple) and recv[:1] == ("newlist",) and len(args) == 1:
            e = self.emit("append", "append", node, fr, st)
            e.base, e.value = recv, args[0]
            self.lists[recv[1]].append((args[0], e))
            return NONE
        if tgt.kind == "value" and isinstance(callee, tuple) and callee[:1] == ("ret",):
            src = self.events[callee[1]]
            if src.target is not None and src.target.kind == "ext" and src.target.ext == "joblib.Parallel" and len(args) == 1:
                d = self.emit("dispatch", "Parallel", node, fr, st)
                d.value, d.recv = args[0], callee
                d.ret = ("list_of", args[0])
                return d.ret
        # ---- inlining
        if tgt.func is not None and fr.depth < self.max_depth and tgt.name not in self.no_inline and not self.on_stack(tgt.func, fr):
            do = False
            if tgt.kind in ("func", "localfn", "super"):
                do = True
            elif tgt.kind == "method":
                do = (tgt.name.startswith("_") and not tgt.name.startswith("__")) or tgt.name in self.inline_public
            if do and astq.is_generator(tgt.func):
                do = False
            if do:
                sub = self.callee_frame(tgt, fr)
                if tgt.kind == "localfn":
                    sub = Frame(tgt.module, tgt.func, fr.cls, fr.defcls, fr.depth + 1, fr)
                skip_self = tgt.kind in ("method", "super") and not sub.static
                bound = self.bind_params(tgt.func, args, kwargs, skip_self, sub)
                if bound is not None:
                    return self.inline(tgt, tgt.func, bound, node, st, fr, recv=recv, args=args, kwargs=kwargs, sub=sub)
        # ---- opaque call
        e = self.emit("call", tgt.name, node, fr, st)
        e.target, e.recv, e.args, e.kwargs = tgt, (recv if recv is not None else callee), tuple(args), kwargs
        if tgt.func is not None:
            sub = self.callee_frame(tgt, fr) if tgt.kind != "localfn" else fr
            skip_self = tgt.kind in ("method", "super", "class") and not getattr(sub, "static", False)
            e.bound = self.bind_params(tgt.func, args, kwargs, skip_self, sub)
        if tgt.kind in ("method", "super") and not self.method_is_pure(fr.cls, tgt):
            # a virtual call on self may change any attribute of self
            st.heap = {}
            st.epoch = e.id + 1
        return ("ret", e.id)

    def method_is_pure(self, cls, tgt):
        """The resolved method (for concrete class ``cls``) stores no attribute of self, directly or
        through other self-methods (computed by running this analysis on the callee; memoised per repo)."""
        if cls is None or tgt.func is None:
            return False
        cache = self.repo.__dict__.setdefault("_c09_pure", {})
        key = (cls.qual, tgt.defcls.qual if tgt.defcls is not None else None, tgt.name)
        if key in cache:
            return cache[key]
        cache[key] = False  # recursion / in progress
        try:
            p = Prov(self.repo, no_inline=(), inline_public=self.inline_public, max_depth=self.max_depth)
            fr = Frame(tgt.module, tgt.func, cls, tgt.defcls)
            fr.static = tgt.defcls.is_static(tgt.name) if tgt.defcls is not None else False
            res = p._run(fr, None)
            pure = True
            for e in res.events:
                if e.kind == "store":
                    pure = False
                elif e.kind == "call" and e.target is not None and e.target.kind in ("method", "super"):
                    if not p.method_is_pure(cls, e.target):
                        pure = False
                elif e.kind == "yield" and e.frame.parent is None:
                    pure = False
        except (AnalysisError, RecursionError):
            pure = False
        cache[key] = pure
        return pure

    def on_stack(self, fn, fr):
        f = fr
        while f is not None:
            if f.fn is fn:
                return True
            f = f.parent
        return False

    def inline(self, tgt, fn, bound, node, st, fr, recv=None, args=(), kwargs=None, sub=None, kind="inline"):
        sub = sub or self.callee_frame(tgt, fr)
        ev = self.emit("inline", tgt.name, node, fr, st)
        ev.target, ev.recv, ev.args, ev.kwargs, ev.bound = tgt, recv, tuple(args), kwargs or {}, bound
        if kind == "property":
            ev.kind = "propget"
        depth = len(st.ctx)
        st.ctx.append(("inline", ev.id, sub.qual()))
        sub_st = St()
        sub_st.heap, sub_st.epoch, sub_st.ctx = st.heap, st.epoch, st.ctx
        if tgt.kind == "localfn":
            sub_st.env = dict(self.localfns_env(tgt.func))
        sub_st.env.update(bound)
        if tgt.kind in ("method", "super", "property") and not sub.static:
            names = astq.param_names(fn)
            if names:
                sub_st.env[names[0]] = SELF
        self.block(fn.body, sub_st, sub)
        if sub_st.dead is None:
            sub.returns.append((NONE, tuple(st.ctx)))
            sub.ret_states.append((dict(sub_st.heap), sub_st.epoch))
        del st.ctx[depth:]
        if sub.ret_states:
            st.heap, st.epoch = self.merge_heaps(sub.ret_states)
        else:
            st.heap, st.epoch = sub_st.heap, sub_st.epoch
        if not sub.returns:
            # the callee raises on every path
            st.dead = "raise"
            st.exits.add("raise")
            ev.ret = ("opq", "never-returns")
            return ev.ret
        if "raise" in sub_st.exits:
            st.exits.add("raise")
        ev.ret = phi([r for r, _ in sub.returns])
        return ev.ret

    def localfns_env(self, fn):
        for node, dfr, env in self.localfns.values():
            if node is fn:
                return env
        return {}

    def transfer(self, ext, args, kwargs, node, st, fr):
        plain = all(not (isinstance(a, tuple) and a[:1] == ("star",)) for a in args)
        if ext.startswith("builtins."):
            nm = ext[len("builtins."):]
            if nm == "zip" and len(args) == 1 and isinstance(args[0], tuple) and args[0][:1] == ("star",):
                return ("unzip", args[0][1])
            if not plain:
                return None
            if nm == "enumerate" and len(args) == 1 and not kwargs:
                return ("enum", args[0])
            if nm == "enumerate" and len(args) + len(kwargs) == 2 and (len(args) == 2 or "start" in kwargs):
                start = args[1] if len(args) == 2 else kwargs["start"]
                if start == ("const", 0):
                    return ("enum", args[0])
                return ("enum", args[0], start)
            if nm == "reversed" and len(args) == 1:
                return ("reversed", args[0])
            if nm in ("list", "tuple") and len(args) == 1:
                return ("list_of", args[0])
            if nm in ("list", "tuple", "dict") and not args and not kwargs:
                return ("list", ()) if nm != "dict" else ("dict", ())
            if nm == "next" and len(args) >= 1:
                return ("next", args[0])
            if nm == "iter" and len(args) == 1:
                return args[0]
            if nm == "len" and len(args) == 1:
                if isinstance(args[0], tuple) and args[0][:1] in (("tuple",), ("list",)):
                    return ("const", len(args[0][1]))
                return ("len", args[0])
            if nm == "hasattr" and len(args) == 2:
                return ("hasattr", args[0], args[1])
            if nm == "getattr" and len(args) >= 2:
                if is_const(args[1]) and isinstance(args[1][1], str) and len(args) == 2:
                    return self.getattr(args[0], args[1][1], node, st, fr)
                return ("getattr_dyn", args[0], args[1]) + ((args[2],) if len(args) > 2 else ())
            if nm == "super":
                return ("super",)
            if nm in PURE_BUILTINS:
                return ("pure", nm, tuple(args), tuple(sorted(kwargs.items())))
            return None
        if ext == "joblib.delayed" and len(args) == 1 and plain:
            return args[0]
        return None

    # ------------------------------------------------------------------ printing
    def fmt(self, t, depth=0):
        if depth > 6:
            return "..."
        if not isinstance(t, tuple) or not t:
            return repr(t)
        k = t[0]
        f = lambda x: self.fmt(x, depth + 1)  # noqa: E731
        if k == "param":
            return t[1]
        if k == "const":
            return repr(t[1])
        if k == "self":
            return "self"
        if k == "attr0":
            return "self.%s" % t[1]
        if k == "attr@":
            return "self.%s@%s" % (t[1], t[2])
        if k == "ret":
            e = self.events[t[1]]
            recv = (f(e.recv) + ".") if e.recv is not None and e.target is not None and e.target.kind in ("attr",) else ""
            a = [f(x) for x in e.args] + ["%s=%s" % (kk, f(v)) for kk, v in e.kwargs.items()]
            return "%s%s(%s)" % (recv, e.name, ", ".join(a))
        if k == "getattr":
            return "%s.%s" % (f(t[1]), t[2])
        if k == "item":
            return "%s[%s]" % (f(t[1]), f(t[2]))
        if k == "slice":
            return "%s:%s" % ("" if t[1] == NONE else f(t[1]), "" if t[2] == NONE else f(t[2]))
        if k in ("tuple", "list", "set"):
            return "(%s)" % ", ".join(f(x) for x in t[1])
        if k == "elem":
            return "each(%s)" % f(t[1])
        if k == "idx":
            return "index-of-each(%s)" % f(t[1])
        if k == "mu":
            L = self.loops.get(t[1])
            if L is not None and t[2] in L.carried:
                init, step = L.carried[t[2]]
                if depth < 3:
                    return "running[%s <- %s]" % (self.fmt(init, depth + 2), self.fmt(step, depth + 3))
            return "running(%s)" % t[2]
        if k == "phi":
            return "either(%s)" % " | ".join(sorted(f(x) for x in t[1]))
        if k == "comp":
            return "[%s for each(%s)]" % (f(t[1]), f(self.loops[t[2]].iter))
        if k in ("unzip", "enum", "reversed", "list_of", "next", "len", "set_of", "dict_of", "enter", "star"):
            return "%s(%s)" % (k, f(t[1]))
        if k == "hasattr":
            return "hasattr(%s, %s)" % (f(t[1]), f(t[2]))
        if k == "pure":
            return "%s(%s)" % (t[1], ", ".join(f(x) for x in t[2]))
        if k == "lambda":
            return "<lambda>"
        if k == "binop":
            return "(%s %s %s)" % (f(t[2]), t[1], f(t[3]))
        if k == "unop":
            return "(%s %s)" % (t[1], f(t[2]))
        if k == "cmp":
            return "(%s %s %s)" % (f(t[2]), t[1], f(t[3]))
        if k == "boolop":
            return "(%s)" % (" %s " % t[1]).join(f(x) for x in t[2])
        if k in ("func", "cls", "ext", "mod", "global"):
            return t[1]
        return "%s%r" % (k, t[1:])

    def dump(self, res):
        out = []
        for e in res.events:
            ctx = []
            for c in e.ctx:
                if c[0] in ("if", "guard"):
                    ctx.append("%s[%s=%s]" % (c[0], self.fmt(c[1]) if c[1] is not None else "?", c[2]))
                elif c[0] == "loop":
                    ctx.append("loop%s" % c[1])
                elif c[0] == "inline":
                    ctx.append("in:" + c[2])
                elif c[0] == "with":
                    ctx.append("with(%s)" % self.fmt(c[1]))
                elif c[0] == "try":
                    ctx.append("try:" + c[2])
            if e.kind in ("call", "inline", "propget"):
                recv = self.fmt(e.recv) + "." if e.recv is not None else ""
                a = [self.fmt(x) for x in e.args] + ["%s=%s" % (k, self.fmt(v)) for k, v in e.kwargs.items()]
                body = "%s%s(%s) -> %s" % (recv, e.name, ", ".join(a), e.target)
            elif e.kind in ("store", "setattr"):
                body = "%s.%s = %s" % (self.fmt(e.base) if e.base is not None else "self", e.attr, self.fmt(e.value))
            elif e.kind == "setitem":
                body = "%s[%s] = %s" % (self.fmt(e.base), self.fmt(e.index), self.fmt(e.value))
            else:
                body = self.fmt(e.value) if e.value is not None else ""
            out.append("#%d L%s %-7s %s   {%s}" % (e.id, e.lineno, e.kind, body, " ".join(ctx)))
        for L in self.loops.values():
            out.append("loop%d %s over %s carried=%s" % (L.id, L.kind, self.fmt(L.iter),
                                                         {v: (self.fmt(i), self.fmt(s)) for v, (i, s) in L.carried.items()}))
        out.append("returns: %s" % [self.fmt(r) for r, _ in res.returns])
        return "\n".join(out)


# ---------------------------------------------------------------------- term helpers shared by the rules
def seq_shape(t):
    """Peel iteration adaptors: returns (base sequence term, reversed?, slice or None).

    ``enumerate`` / ``list`` / ``tuple`` are transparent for element identity; ``reversed`` toggles the
    direction; one positional slice is kept."""
    rev = False
    sl = None
    while isinstance(t, tuple) and t:
        if t[0] in ("enum", "list_of"):
            t = t[1]
        elif t[0] == "reversed":
            rev = not rev
            t = t[1]
        elif t[0] == "item" and isinstance(t[2], tuple) and t[2][:1] == ("slice",):
            s = t[2]
            if s[3] == ("const", -1) and s[1] == NONE and s[2] == NONE:
                rev = not rev
                t = t[1]
                continue
            if sl is not None:
                break
            sl = s
            t = t[1]
        else:
            break
    return t, rev, sl


def strip_views(t):
    """Peel representation-preserving views: ``.values``, ``.to_numpy()``-less attribute views, ``np.asarray``."""
    while isinstance(t, tuple) and t and t[0] == "getattr" and t[2] in ("values",):
        t = t[1]
    return t


def main(argv):
    import sys
    sys.path.insert(0, "/verif")
    from sa.index import Repo
    repo = Repo(argv[1] if len(argv) > 2 else "/repo")
    spec = argv[-1]
    no_inline = ()
    if "!" in spec:
        spec, _, ni = spec.partition("!")
        no_inline = tuple(ni.split(","))
    p = Prov(repo, no_inline=no_inline)
    if ":" in spec:
        mod, _, fn = spec.partition(":")
        m = repo.module(mod)
        res = p.run_func(m, repo.func(mod, fn))
    else:
        cn, _, mn = spec.partition(".")
        res = p.run_method(repo.cls(cn), mn)
    print(p.dump(res))


if __name__ == "__main__":
    import sys
    main(sys.argv)


# ---------------------------------------------------------------------- rule-level helpers (C09 / C10)
def note_base_attrs(res, e):
    """Names of self attributes whose (pre-state or stored) value is the object an item/attr store writes into."""
    out = set()
    b = e.base
    if isinstance(b, tuple) and b and b[0] in ("attr0", "attr@"):
        out.add(b[1])
    for s in res.stores():
        if s.id < e.id and s.value == b:
            out.add(s.attr)
    return out


class Chain:
    """A loop-carried value ``v = init; for ...: v = step(v)``."""

    def __init__(self, res, t):
        self.ok = isinstance(t, tuple) and len(t) == 3 and t[0] == "mu" and t[1] in res.loops and t[2] in res.loops[t[1]].carried
        self.term = t
        if not self.ok:
            return
        self.loop = res.loops[t[1]]
        self.init, step = self.loop.carried[t[2]]
        self.passthrough = False
        self.steps, self.other = [], []
        for a in alts(step):
            if a == t:
                self.passthrough = True
            else:
                e = res.ret_event(a)
                if e is not None and e.kind == "call":
                    self.steps.append(e)
                else:
                    self.other.append(a)


def interface_positions(repo, root, method):
    """Positional interface of ``method`` over ``root`` and its subclasses: list (by position, self
    excluded) of the set of parameter names used there.  None when the definitions disagree on arity
    order of the named (non-data) parameters."""
    defs = []
    for k in [root] + repo.subclasses(root):
        if method in k.methods:
            defs.append(astq.param_names(k.methods[method], skip_self=True))
    if not defs:
        return None
    n = max(len(d) for d in defs)
    pos = [set() for _ in range(n)]
    for d in defs:
        for i, nm in enumerate(d):
            pos[i].add(nm)
    for i in range(1, n):
        if len(pos[i]) != 1:
            return None
    return pos


def bind_interface(e, pos):
    """Bind the actuals of event ``e`` to interface positions; returns list (per position) of terms / None
    for absent, or None when the call cannot be bound (star arguments, unknown keyword)."""
    out = [None] * len(pos)
    for i, a in enumerate(e.args):
        if isinstance(a, tuple) and a[:1] == ("star",):
            return None
        if i >= len(pos):
            return None
        out[i] = a
    for k, v in e.kwargs.items():
        if k == "**":
            continue
        hit = [i for i, names in enumerate(pos) if k in names]
        if len(hit) != 1 or out[hit[0]] is not None:
            return None
        out[hit[0]] = v
    return out


def is_clone_of(res, t):
    """If ``t`` is the result of ``sklearn.base.clone(x)`` return x, else None."""
    e = res.ret_event(t)
    if e is not None and e.kind == "call" and e.target is not None and e.target.kind == "ext" and e.target.ext == "sklearn.base.clone":
        if e.args and not e.kwargs:
            return e.args[0]
        if "estimator" in e.kwargs:
            return e.kwargs["estimator"]
    return None


def none_valued(res, e, t):
    """The term is None at event ``e``: the constant, or a parameter for which a dominating guard says so."""
    if t is None or t == NONE:
        return True
    for cond, pol, _ in res.facts(e):
        if isinstance(cond, tuple) and cond[0] == "cmp":
            op, a, b = cond[1], cond[2], cond[3]
            if {a, b} == {t, NONE} and ((op == "Is" and pol) or (op == "IsNot" and not pol)):
                return True
    return False


def mentions(res, term, needle, _seen=None):
    """Does ``term`` depend on ``needle`` (structurally, through the receiver / arguments of the calls
    it is the result of, and through loop-carried values)?"""
    _seen = _seen if _seen is not None else set()
    stack = [term]
    while stack:
        t = stack.pop()
        if t == needle:
            return True
        if isinstance(t, frozenset):
            stack.extend(t)
            continue
        if not isinstance(t, tuple) or not t:
            continue
        key = t
        try:
            if key in _seen:
                continue
            _seen.add(key)
        except TypeError:
            pass
        if t[0] == "ret" and len(t) == 2 and isinstance(t[1], int):
            e = res.events[t[1]]
            stack.append(e.recv)
            stack.extend(e.args)
            stack.extend(e.kwargs.values())
            if e.ret is not None:
                stack.append(e.ret)
            continue
        if t[0] == "mu" and len(t) == 3 and t[1] in res.loops and t[2] in res.loops[t[1]].carried:
            stack.extend(res.loops[t[1]].carried[t[2]])
            continue
        if t[0] == "newlist" and len(t) == 2:
            stack.extend(v for v, _ in res.lists.get(t[1], []))
            continue
        if t[0] in ("comp",) and len(t) == 3:
            stack.append(t[1])
            if t[2] in res.loops:
                stack.append(res.loops[t[2]].iter)
            continue
        stack.extend(t[1:] if isinstance(t[0], str) else t)
    return False


def proper_part(got, want):
    """``want.iloc[a:b]`` / ``want[a:b]`` with a constant bound that cuts something off."""
    if isinstance(got, tuple) and got and got[0] == "item" and isinstance(got[2], tuple) and got[2][:1] == ("slice",):
        base = got[1]
        if base == want or base in (("getattr", want, "iloc"), ("getattr", want, "loc")):
            lo, hi = got[2][1], got[2][2]
            return (is_const(lo) and lo[1] not in (None, 0)) or (is_const(hi) and hi[1] is not None)
    return False


def forwarded(ctx, res, rule, construct, got, want, ok_detail, bad_detail, loc, witness=None):
    """Obligation 'the actual is exactly ``want``'.  Equal -> HOLDS; an actual that does not depend on
    ``want`` at all (absent, constant, another parameter) -> VIOLATION; a value derived from it -> UNDECIDED."""
    if got == want or (got is not None and res.plain(got) == want):
        ctx.ok(rule, construct, ok_detail, loc)
        return True
    if proper_part(got, want):
        ctx.violation(rule, construct, "%s: only a part of it is passed: %s" % (bad_detail, res.fmt(got)), loc,
                      witness or {"actual": res.fmt(got), "expected": res.fmt(want)})
        return False
    if got is not None and mentions(res, got, want):
        ctx.undecided(rule, construct, "%s (derived value %s, not interpretable)" % (bad_detail, res.fmt(got)), loc)
        return None
    ctx.violation(rule, construct, "%s: got %s" % (bad_detail, res.fmt(got) if got is not None else "nothing (callee default)"), loc,
                  witness or {"actual": res.fmt(got) if got is not None else None, "expected": res.fmt(want)})
    return False


def subst(t, old, new):
    if t == old:
        return new
    if isinstance(t, tuple):
        return tuple(subst(x, old, new) for x in t)
    if isinstance(t, frozenset):
        return frozenset(subst(x, old, new) for x in t)
    return t


def bool_behaviour(res, t, param):
    """Truth value of the term for ``param`` = True / False (None where not decidable by constant folding)."""
    out = []
    for v in (True, False):
        out.append(res.prov.decide(subst(t, param, ("const", v))))
    return tuple(out)


def analysed(ctx, res):
    """Evidence bookkeeping: one more entry point interpreted, with so many provenance events."""
    ctx.count("entry points interpreted")
    ctx.count("provenance events", len(res.events))
    ctx.count("functions inlined", sum(1 for e in res.events if e.kind in ("inline", "propget")))
    return res


def first_call_only_stores(res):
    """(H1) stores to ``self.a`` that are guarded by a test of ``self.a``'s own previous value (``is None``, truthiness,
    ``len`` unchanged, ``hasattr``): the attribute is established on the first call only and goes stale when the method
    is called again with other data / parameters.  Returns [(store event, guarding condition term)]."""
    out = []
    for s in res.stores():
        for cond, pol, origin in res.facts(s):
            stack, hit = [cond], False
            while stack and not hit:
                x = stack.pop()
                if isinstance(x, tuple):
                    if len(x) >= 2 and x[0] in ("attr0", "attr@") and x[1] == s.attr:
                        hit = True
                    elif len(x) == 3 and x[0] == "hasattr" and x[1] == SELF and x[2] == ("const", s.attr):
                        hit = True
                    else:
                        stack.extend(x)
                elif isinstance(x, frozenset):
                    stack.extend(x)
            if hit:
                out.append((s, cond))
                break
    return out


def check_first_call_only(ctx, res, rule, construct, loc_of):
    """Record the H1 obligation for one interpreted entry point."""
    bad = first_call_only_stores(res)
    seen = set()
    for s, cond in bad:
        if s.attr in seen:
            continue
        seen.add(s.attr)
        ctx.violation(rule, "%s:re-established:%s" % (construct, s.attr),
                      "self.%s is (re)computed only when a test of its own previous value holds (%s): on a second call with other data "
                      "or parameters the value of the first call is silently reused" % (s.attr, res.fmt(cond)), loc_of(s),
                      witness={"history": "call twice (fit(y1); fit(y2) or set_params(...); fit(y))"})
    if not bad:
        ctx.ok(rule, construct + ":re-established", "no fitted attribute is guarded by its own previous value (%d stores)" % len(res.stores()), None)
    # a container attribute that this call only *adds to* (append / insert / extend / update / add / item store) without
    # having (re)created it first still holds what the previous call put there
    grown = {}
    for e in res.events:
        base = None
        if e.kind == "call" and e.target is not None and e.target.kind == "attr" and e.name in MUTATORS:
            base = e.recv
        elif e.kind == "setitem":
            base = e.base
        if isinstance(base, tuple) and len(base) >= 2 and base[0] in ("attr0", "attr@") and base[1] not in grown:
            if not any(s.attr == base[1] and s.id < e.id for s in res.stores()):
                grown[base[1]] = e
    for attr, e in grown.items():
        ctx.violation(rule, "%s:re-created:%s" % (construct, attr),
                      "self.%s is only added to (`%s`), never re-created in this call: what an earlier call collected is still in it, "
                      "so a second call works on the union of both" % (attr, e.name or "[...] ="), loc_of(e),
                      witness={"history": "fit(y1); fit(y2): the collection holds the entries of both fits"})
    if not grown:
        ctx.ok(rule, construct + ":re-created", "no fitted collection is grown without being re-created first", None)


MUTATORS = ("append", "insert", "extend", "update", "add", "setdefault", "appendleft")



_BORROWED = {}


def closure_digest(repo, roots):
    """Digest of the sources of ``roots`` (relpaths) and of every repo module they import, transitively (through
    packages' ``__init__`` too).  A borrowed rule only reads code inside this closure, so its verdicts can be reused
    while the digest is unchanged (the self-test re-runs every check on ~300 overlays that mostly differ elsewhere)."""
    import hashlib
    seen, stack = set(), []
    for r in roots:
        m = repo.by_relpath.get(r)
        if m is None:
            return None
        stack.append(m)
    while stack:
        m = stack.pop()
        if m.name in seen:
            continue
        seen.add(m.name)
        parts = m.name.split(".")
        for i in range(1, len(parts)):
            pkg = repo.modules.get(".".join(parts[:i]))
            if pkg is not None and pkg.name not in seen:
                stack.append(pkg)
        for target in list(m.imports.values()) + list(m.star_imports):
            t = target
            while t:
                tm = repo.modules.get(t)
                if tm is not None:
                    if tm.name not in seen:
                        stack.append(tm)
                    break
                t = t.rpartition(".")[0]
    h = hashlib.sha1()
    for name in sorted(seen):
        h.update(name.encode())
        h.update(repo.modules[name].src.encode())
    return h.hexdigest()


def borrow(ctx, prop, func_name, args, rule, construct, accept, what, roots=()):
    """Decide a contract this property *trusts* by running the rule of the property that owns it
    (``sa.props.<prop>.<func_name>``) on a scratch context and reporting its verdicts here (no duplicated logic).
    ``accept(result)`` selects the borrowed instances that express the trusted contract; violations that are known
    findings of the owning property are that property's business and are skipped."""
    import importlib
    from .. import report as _report
    try:
        key = (prop, func_name, tuple(args), closure_digest(ctx.repo, roots)) if roots else None
        if key is not None and key in _BORROWED:
            sub = _BORROWED[key]
        else:
            mod = importlib.import_module("sa.props." + prop.lower())
            fn = getattr(mod, func_name)
            sub = _report.Ctx(prop, ctx.repo, ctx.tier)
            fn(sub, ctx.repo, *args)
            if key is not None:
                _BORROWED[key] = sub
    except AnalysisError as e:
        ctx.undecided(rule, construct, "%s: the %s rule could not interpret the callee (%s)" % (what, prop, e), None)
        return
    except Exception as e:  # the borrowed rule failed internally: fail closed, never a violation
        ctx.undecided(rule, construct, "%s: the %s rule `%s` is not usable here (%r)" % (what, prop, func_name, e), None)
        return
    known = {(k["rule"], k["construct"]) for k in _report.load_known() if k.get("property") == prop and k.get("status", "known") == "known"}
    n_ok = n = 0
    seen = set()
    for r in sub.results:
        if not accept(r):
            continue
        n += 1
        key = (r["rule"], r["construct"])
        if r["verdict"] == _report.HOLDS or key in known:
            n_ok += 1
            continue
        if key in seen:
            continue
        seen.add(key)
        c = "%s:%s-%s:%s" % (construct, prop, r["rule"], r["construct"])
        if r["verdict"] == _report.VIOLATION:
            ctx.violation(rule, c, "%s is broken in the callee (decided by %s-%s): %s" % (what, prop, r["rule"], r["detail"]), r["loc"], r.get("witness"))
        else:
            ctx.undecided(rule, c, "%s cannot be decided in the callee (%s-%s): %s" % (what, prop, r["rule"], r["detail"]), r["loc"])
    if n == 0:
        ctx.undecided(rule, construct, "%s: the %s rule produced no instance for the trusted callee" % (what, prop), None)
    elif not seen:
        ctx.ok(rule, construct, "%s holds in the callee (%d obligations of %s)" % (what, n_ok, prop), None)


def _affine(res, t, e, n):
    """(a, b, c) with t = a*e + b*n + c for the terms e (loop element) and n (a length), else None."""
    if t == e:
        return (1, 0, 0)
    if t == n:
        return (0, 1, 0)
    if is_const(t) and isinstance(t[1], int) and not isinstance(t[1], bool):
        return (0, 0, t[1])
    if isinstance(t, tuple) and t[:1] == ("binop",) and t[1] in ("Add", "Sub"):
        x, y = _affine(res, t[2], e, n), _affine(res, t[3], e, n)
        if x is None or y is None:
            return None
        sg = 1 if t[1] == "Add" else -1
        return tuple(p + sg * q for p, q in zip(x, y))
    if isinstance(t, tuple) and t[:2] == ("unop", "USub"):
        x = _affine(res, t[2], e, n)
        return None if x is None else tuple(-p for p in x)
    return None


def element_view(res, x):
    """Read ``x`` as "the current element of a traversal of a sequence": returns (sequence term, reversed?, loop id) for
    ``for x in seq`` as well as for the indexed forms ``for i in range(len(seq)): seq[i]`` / ``seq[len(seq) - 1 - i]``."""
    if isinstance(x, tuple) and len(x) == 3 and x[0] == "elem":
        return x[1], False, x[2]
    if isinstance(x, tuple) and len(x) == 3 and x[0] == "item":
        S, idx = x[1], x[2]
        n = ("len", S)
        for sub in _all_subterms(idx):
            if isinstance(sub, tuple) and len(sub) == 3 and sub[0] == "elem" and isinstance(sub[1], tuple) and sub[1][:2] == ("pure", "range"):
                rargs = sub[1][2]
                if rargs in ((n,), (("const", 0), n)):
                    co = _affine(None, idx, sub, n)
                    if co == (1, 0, 0):
                        return S, False, sub[2]
                    if co == (-1, 1, -1):
                        return S, True, sub[2]
    return None


def _all_subterms(t):
    out, stack = [], [t]
    while stack:
        x = stack.pop()
        if isinstance(x, tuple):
            out.append(x)
            stack.extend(x)
        elif isinstance(x, frozenset):
            stack.extend(x)
    return out


def as_position(res, t):
    """A hand-written loop counter (``i = 0`` before the loop, ``i += 1`` as the only update, read before the increment) is
    the position of the loop's current element: normalise it to ``("idx", seq, L)``."""
    if isinstance(t, tuple) and t[:1] == ("binop",) and len(t) == 4:
        return ("binop", t[1], as_position(res, t[2]), as_position(res, t[3]))
    if isinstance(t, tuple) and len(t) == 3 and t[0] == "mu" and t[1] in res.loops and t[2] in res.loops[t[1]].carried:
        L = res.loops[t[1]]
        init, step = L.carried[t[2]]
        if init == ("const", 0) and step in (("binop", "Add", t, ("const", 1)), ("binop", "Add", ("const", 1), t)):
            it = L.iter
            seq = it[1] if isinstance(it, tuple) and it[0] == "enum" else it
            return ("idx", seq, L.id)
    return t
