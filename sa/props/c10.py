"""C10 -- updating with new data is equivalent to having observed it (DESIGN 3/C10; structural clauses).

R1 merge: ``_update_y_X`` validates first (``allow_empty=True``), then ``self._y = NEW.combine_first(OLD)``
   (receiver = the new batch, so later values win), likewise ``_X``; the cutoff moves to the last index
   of the new batch, only for a non-empty batch.
R2 refit default: ``_SktimeForecaster.update`` refits, only under ``update_params``, on *all remembered*
   data (``self._y`` / ``self._X`` as merged just before, ``self.fh``), after the guard and the merge.
   (+ ThetaForecaster.update: the re-estimated trend is computed from all remembered data.)
R3 cutoff restoration: ``_detached_cutoff`` saves before ``yield`` and restores in ``finally``;
   every cutoff-moving action of ``_predict_moving_cutoff`` lies inside ``with self._detached_cutoff()``;
   each iteration records the forecast and the cutoff *as it is after* that iteration's update;
   ``_format_moving_cutoff_predictions`` labels the forecast columns with those cutoffs.
R4 propagation: every composite ``update`` passes the guard, merges via ``_update_y_X(y, X)`` and
   forwards ``y``, ``X`` and ``update_params`` to every inner ``update`` on every path.
"""
import ast

from ..index import AnalysisError
from .. import astq
from ._c09_prov import (Prov, Chain, NONE, alts, const, is_const, seq_shape, strip_views, interface_positions,
                        bind_interface, mentions, forwarded, proper_part, bool_behaviour, analysed,
                        check_first_call_only, borrow, element_view)
from .c09 import P, loc_of, fsig, tpos, TLoop, last_step_component, loop_plain

SK = "sktime/forecasting/base/_sktime.py"
BASE = "sktime/forecasting/base/_base.py"
PIPE = "sktime/forecasting/compose/_pipeline.py"
ENS = "sktime/forecasting/compose/_ensemble.py"
MUX = "sktime/forecasting/compose/_multiplexer.py"
STACK = "sktime/forecasting/compose/_stack.py"
ONLINE = "sktime/forecasting/online_learning/_online_ensemble.py"
TUNE = "sktime/forecasting/model_selection/_tune.py"
THETA = "sktime/forecasting/theta.py"
DETREND = "sktime/transformations/series/detrend/_detrend.py"
DESEAS = "sktime/transformations/series/detrend/_deseasonalize.py"


def is_old(t, attr):
    return isinstance(t, tuple) and t and t[0] in ("attr0", "attr@") and t[1] == attr


def concat_dedup_kind(res, t, new, attr):
    """``c = pd.concat([A, B]); c[~c.index.duplicated(keep=K)]`` (optionally ``.sort_index()`` / ``.loc``):
    the first operand wins for keep='first', the last for keep='last'.  'ok' | 'swapped' | None."""
    e = res.ret_event(t)
    while e is not None and e.kind == "call" and e.target.kind == "attr" and e.name in ("sort_index", "copy") and not e.args:
        t = e.recv
        e = res.ret_event(t)
    if not (isinstance(t, tuple) and t[0] == "item"):
        return None
    frame, mask = t[1], t[2]
    if isinstance(frame, tuple) and frame[0] == "getattr" and frame[2] == "loc":
        frame = frame[1]
    if not (isinstance(mask, tuple) and mask[:2] == ("unop", "Invert")):
        return None
    d = res.ret_event(mask[2])
    c = res.ret_event(frame)
    if d is None or c is None or d.name != "duplicated" or d.target.kind != "attr" or d.recv != ("getattr", frame, "index"):
        return None
    if not (c.target.kind == "ext" and c.target.ext == "pandas.concat"):
        return None
    objs = c.arg(0, "objs")
    if not (isinstance(objs, tuple) and objs[0] in ("list", "tuple") and len(objs[1]) == 2):
        return None
    ax = c.arg(1, "axis")
    if ax is not None and ax not in (("const", 0), ("const", "index")):
        return None
    keep = d.arg(0, "keep")
    keep = "first" if keep is None else const(keep, "?")
    if keep not in ("first", "last"):
        return None
    a, b = objs[1]
    winner = a if keep == "first" else b
    loser = b if keep == "first" else a
    if winner == new and is_old(loser, attr):
        return "ok"
    if is_old(winner, attr) and loser == new:
        return "swapped"
    return None


def plain_concat_kind(res, t, new, attr):
    """``pd.concat([<part of OLD>, NEW])`` without de-duplication: 'truncates' when the old operand is a filtered / sliced
    part of the remembered data (observations are forgotten), 'duplicates' when it is all of it (overlapping time points
    are kept twice instead of the new value winning)."""
    e = res.ret_event(t)
    while e is not None and e.kind == "call" and e.target.kind == "attr" and e.name in ("sort_index", "copy") and not e.args:
        t = e.recv
        e = res.ret_event(t)
    if e is None or e.kind != "call" or e.target.kind != "ext" or e.target.ext != "pandas.concat":
        return None
    objs = e.arg(0, "objs")
    if not (isinstance(objs, tuple) and objs[0] in ("list", "tuple") and len(objs[1]) == 2 and new in objs[1]):
        return None
    other = [x for x in objs[1] if x != new]
    if len(other) != 1:
        return None
    o = other[0]
    if is_old(o, attr):
        return "duplicates"
    if isinstance(o, tuple) and o[0] == "item" and (is_old(o[1], attr) or (isinstance(o[1], tuple) and o[1][0] == "getattr" and is_old(o[1][1], attr)
                                                                           and o[1][2] in ("loc", "iloc"))):
        return "truncates"
    return None


def merge_kind(res, t, new, attr):
    """'ok' for NEW.combine_first(OLD) (or the concat + de-duplication form in which NEW wins), 'swapped' when OLD wins,
    'truncates' / 'duplicates' for a plain concat, None otherwise."""
    ck = concat_dedup_kind(res, t, new, attr) or plain_concat_kind(res, t, new, attr)
    if ck is not None:
        return ck
    e = res.ret_event(t)
    if e is None or e.kind != "call" or e.name != "combine_first" or e.target.kind != "attr":
        return None
    other = e.arg(0, "other")
    if other is None:
        return None
    if e.recv == new and is_old(other, attr):
        return "ok"
    if is_old(e.recv, attr) and other == new:
        return "swapped"
    return None


def merged_value(res, t, new, attr, any_order=False):
    """``t`` is what ``self.<attr>`` holds after the merge: the merge result, or (empty batch) the old value.
    ``any_order``: also accept a merge in which the old values win (the operand order is R1's obligation)."""
    a = alts(t)
    good = ("ok", "swapped", "truncates", "duplicates") if any_order else ("ok",)
    kinds = [merge_kind(res, x, new, attr) for x in a]
    has = any(k in good for k in kinds)
    rest_ok = all(k in good or is_old(x, attr) for x, k in zip(a, kinds))
    return has and rest_ok


def nonempty_fact(res, e, new):
    """Some dominating fact says the new batch is non-empty."""
    ln = ("len", new)
    for cond, pol, origin in res.facts(e):
        if not (isinstance(cond, tuple) and cond[0] == "cmp"):
            continue
        op, a, b = cond[1], cond[2], cond[3]
        if not pol:
            op = {"Gt": "LtE", "GtE": "Lt", "Lt": "GtE", "LtE": "Gt", "Eq": "NotEq", "NotEq": "Eq"}.get(op)
        if a == ln and ((op == "Gt" and b == ("const", 0)) or (op == "GtE" and b == ("const", 1)) or (op == "NotEq" and b == ("const", 0))):
            return True
        if b == ln and ((op == "Lt" and a == ("const", 0)) or (op == "LtE" and a == ("const", 1)) or (op == "NotEq" and a == ("const", 0))):
            return True
    return False


# ------------------------------------------------------------------------------------------ R1
def r1(ctx, repo):
    cls = repo.cls(SK + ":_SktimeForecaster")
    fn = repo.func(SK, "_SktimeForecaster._update_y_X")
    res = analysed(ctx, Prov(repo).run_method(cls, "_update_y_X"))
    C = "_SktimeForecaster._update_y_X"
    check_first_call_only(ctx, res, "R1", C, loc_of)
    loc0 = ctx.loc(cls.module, fn)
    val = [e for e in res.calls("check_y_X", kind=("inline", "call")) if e.target.dotted == "sktime.utils.validation.forecasting.check_y_X"]
    stores = [s for s in res.stores() if s.attr in ("_y", "_X", "_cutoff")]
    if len(val) != 1 or val[0].bound is None:
        ctx.check(None if val else False, "R1", C + ":validate-first", "", "the new data is merged without check_y_X" if not val
                  else "several check_y_X calls", loc0)
        new_y, new_X = P("y"), P("X")
    else:
        v = val[0]
        ok = all(res.dominates(v, s) for s in stores) and res.unconditional(v)
        ctx.check(ok, "R1", C + ":validate-first", "check_y_X precedes every store", "a store to _y/_X/_cutoff is not preceded by check_y_X", loc_of(v))
        forwarded(ctx, res, "R1", C + ":validate:y", v.bound.get("y"), P("y"), "the new y is validated", "check_y_X does not receive the new `y`", loc_of(v))
        forwarded(ctx, res, "R1", C + ":validate:X", v.bound.get("X"), P("X"), "the new X is validated", "check_y_X does not receive the new `X`", loc_of(v))
        ae = v.bound.get("allow_empty")
        ctx.check(ae == ("const", True) if is_const(ae) else None, "R1", C + ":allow-empty", "an empty batch is accepted (allow_empty=True)",
                  "update rejects an empty batch (allow_empty=%s): update_predict over windows without new data would fail" % res.fmt(ae), loc_of(v))
        ret = v.ret if v.kind == "inline" else ("ret", v.id)
        if isinstance(ret, tuple) and ret[0] == "tuple" and len(ret[1]) == 2:
            new_y, new_X = ret[1]
        else:
            new_y, new_X = ("item", ret, ("const", 0)), ("item", ret, ("const", 1))
    for attr, new, pname in (("_y", new_y, "y"), ("_X", new_X, "X")):
        ss = [s for s in stores if s.attr == attr]
        key = C + ":merge-" + pname
        if not ss:
            ctx.violation("R1", key, "the new `%s` is never merged into self.%s" % (pname, attr), loc0)
            continue
        for s in ss:
            k = merge_kind(res, s.value, new, attr)
            if k == "ok":
                ctx.ok("R1", key, "self.%s = merge(NEW, OLD) in which values of the new batch win on overlap" % attr, loc_of(s))
            elif k == "swapped":
                ctx.violation("R1", key, "self.%s is merged so that on overlapping time points the OLD values win (%s)"
                              % (attr, "OLD.combine_first(NEW)" if concat_dedup_kind(res, s.value, new, attr) is None else
                                 "concat + index.duplicated keeps the remembered entry"), loc_of(s),
                              witness={"history": "fit(y1); update(y2) with y2 overlapping the end of y1 with revised values"})
            elif k == "truncates":
                ctx.violation("R1", key, "self.%s = concat(part of OLD, NEW): remembered observations outside the kept part are forgotten "
                              "(the union of all observations is not kept): %s" % (attr, res.fmt(s.value)), loc_of(s),
                              witness={"history": "fit(y[0:10]); update(y[3:6]): observations 6..9 are lost; in-sample moving-cutoff prediction does exactly this"})
            elif k == "duplicates":
                ctx.violation("R1", key, "self.%s = concat(OLD, NEW) without de-duplication: an overlapping time point is kept twice instead of "
                              "the new value replacing the old one" % attr, loc_of(s))
            elif s.value == new or strip_views(s.value) == P(pname):
                ctx.violation("R1", key, "self.%s is replaced by the new batch: earlier observations are forgotten" % attr, loc_of(s))
            else:
                ctx.undecided("R1", key, "self.%s = %s (not a combine_first merge)" % (attr, res.fmt(s.value)), loc_of(s))
            if attr == "_y":
                odd = []
                for c, pol, origin in res.facts(s):
                    if isinstance(c, tuple) and c[0] == "cmp" and (("len", new) in (c[2], c[3])):
                        odd.append((c, pol))
                if odd and not nonempty_fact(res, s, new):
                    ctx.violation("R1", C + ":merge-guard", "the merge is skipped for some non-empty batches (guard %s)"
                                  % ", ".join("%s is %s" % (res.fmt(c), p) for c, p in odd), loc_of(s),
                                  witness={"history": "fit(y1); update(one new observation): the observation is dropped"})
                else:
                    ctx.ok("R1", C + ":merge-guard", "the merge is skipped at most for an empty batch", loc_of(s))
            if attr == "_X":
                facts = res.facts(s)
                guarded = any(isinstance(c, tuple) and c[0] == "cmp" and {c[2], c[3]} == {new, NONE}
                              and ((c[1] == "IsNot") == pol) and c[1] in ("Is", "IsNot") for c, pol, _ in facts)
                ctx.check(guarded, "R1", C + ":merge-X:guard", "X merged only when given", "X is merged without an `X is not None` test", loc_of(s))
    cs = [s for s in stores if s.attr == "_cutoff"]
    key = C + ":cutoff"
    if not cs:
        ctx.violation("R1", key, "the cutoff is not moved by an update", loc0)
    for s in cs:
        want = ("item", ("getattr", new_y, "index"), ("const", -1))
        if s.value == want:
            ctx.ok("R1", key, "cutoff := last index of the new batch", loc_of(s))
        elif isinstance(s.value, tuple) and s.value[0] == "item" and s.value[1] == ("getattr", new_y, "index") and is_const(s.value[2]):
            ctx.violation("R1", key, "cutoff := index[%r] of the new batch, must be its last index" % (s.value[2][1],), loc_of(s))
        elif isinstance(s.value, tuple) and s.value[0] == "item" and s.value[2] == ("const", -1) and isinstance(s.value[1], tuple) \
                and s.value[1][0] == "getattr" and s.value[1][2] == "index" \
                and (merged_value(res, s.value[1][1], new_y, "_y") or is_old(s.value[1][1], "_y")):
            ctx.violation("R1", key, "cutoff := end of all remembered data, not of the new batch (an update with an earlier window, as in "
                          "in-sample moving-cutoff prediction, never moves the cutoff back)", loc_of(s))
        elif not mentions(res, s.value, new_y):
            ctx.violation("R1", key, "the cutoff is set from %s, not from the new batch" % res.fmt(s.value), loc_of(s))
        else:
            ctx.undecided("R1", key, "cutoff := %s" % res.fmt(s.value), loc_of(s))
        ctx.check(nonempty_fact(res, s, new_y), "R1", key + ":non-empty", "the cutoff moves only for a non-empty batch",
                  "the cutoff is read from index[-1] of a possibly empty batch", loc_of(s))
    # information: the dead merge in _update_X (outside the anchored mechanism; used by the Prophet adapter only)
    try:
        r2 = analysed(ctx, Prov(repo).run_method(cls, "_update_X"))
        for s in r2.stores("_X"):
            for c, pol, _ in r2.facts(s):
                if isinstance(c, tuple) and c[0] == "boolop" and any(isinstance(x, tuple) and x[:2] == ("cmp", "Is") for x in c[2]):
                    ctx.info("_SktimeForecaster._update_X: the merge is guarded by `X is len(X) > 0` (an identity test between a frame and an int: "
                             "always False) -- dead merge, used only by the Prophet adapter; information only")
    except AnalysisError:
        pass


# ------------------------------------------------------------------------------------------ R2
def _subterms(t):
    out, stack = set(), [t]
    while stack:
        x = stack.pop()
        if isinstance(x, tuple):
            out.add(x)
            stack.extend(x)
        elif isinstance(x, frozenset):
            stack.extend(x)
    return out


def guard_taken(res, facts, param):
    """Is a path with these facts taken for param = True / False?  (True/False/None each.)"""
    out = []
    for idx in (0, 1):
        verdict = True
        for c, pol in facts:
            d = bool_behaviour(res, c, param)[idx]
            if d is None:
                verdict = None
                break
            if d != pol:
                verdict = False
                break
        out.append(verdict)
    return tuple(out)


def r2(ctx, repo):
    cls = repo.cls(SK + ":_SktimeForecaster")
    fn = repo.func(SK, "_SktimeForecaster.update")
    res = analysed(ctx, Prov(repo).run_method(cls, "update"))
    C = "_SktimeForecaster.update"
    loc0 = ctx.loc(cls.module, fn)
    guard = res.calls("check_is_fitted", kind=("inline", "call"))
    merge = [e for e in res.calls("_update_y_X", kind=("inline", "call"))]
    fits = [e for e in res.calls("fit", kind=("call", "inline")) if e.target.kind in ("method", "super")]
    others = [e for e in res.events if e.kind in ("call", "inline", "store") and e.frame is res.frame and e.kind != "propget"]
    ctx.check(bool(guard) and res.unconditional(guard[0]) and all(res.dominates(guard[0], e) or e is guard[0] for e in merge + fits),
              "R2", C + ":guard-first", "check_is_fitted precedes merge and refit", "update can merge / refit before the not-fitted guard", loc0)
    _ = others
    if len(merge) != 1 or merge[0].bound is None:
        ctx.check(None if merge else False, "R2", C + ":merge", "", "update does not merge the new data (_update_y_X is not called)", loc0)
        return
    m = merge[0]
    ctx.check(res.unconditional(m), "R2", C + ":merge", "the new data is merged on every path (also with update_params=False)",
              "the new data is remembered only on some paths", loc_of(m))
    forwarded(ctx, res, "R2", C + ":merge:y", m.bound.get("y"), P("y"), "y forwarded to the merge", "_update_y_X does not receive `y`", loc_of(m))
    forwarded(ctx, res, "R2", C + ":merge:X", m.bound.get("X"), P("X"), "X forwarded to the merge", "_update_y_X does not receive `X`", loc_of(m))
    if len(fits) != 1:
        ctx.check(None if fits else False, "R2", C + ":refit-guarded", "", "the default update never refits (no self.fit call)", loc0)
        return
    f = fits[0]
    facts = [(c, pol) for c, pol, origin in res.facts(f)]
    # a test "the batch is not empty" next to update_params changes nothing (refitting on unchanged data is idempotent)
    extra = [(c, pol) for c, pol in facts if not mentions(res, c, P("update_params"))]
    benign = [(c, pol) for c, pol in extra if isinstance(c, tuple) and c[0] == "cmp" and (("len", P("y")) in (c[2], c[3]))]
    stateful = [(c, pol) for c, pol in extra if (c, pol) not in benign and any(
        isinstance(x, tuple) and len(x) >= 2 and x[0] in ("attr0", "attr@") for x in _subterms(c))]
    if stateful:
        ctx.violation("R2", C + ":refit-guarded", "with update_params=True the refit additionally depends on the forecaster's state (%s): a batch that "
                      "leaves that state unchanged (e.g. revised values up to the current cutoff, or an earlier window) is merged but the "
                      "parameters are not re-estimated" % ", ".join("%s is %s" % (res.fmt(c), p) for c, p in stateful), loc_of(f),
                      witness={"history": "fit(y1); update(revised last points of y1, update_params=True) != fresh fit on the merged data"})
        facts = [x for x in facts if x not in stateful]
    facts = [x for x in facts if x not in benign]
    taken = guard_taken(res, facts, P("update_params"))
    if stateful:
        pass
    elif taken == (True, False):
        ctx.ok("R2", C + ":refit-guarded", "refit iff update_params", loc_of(f))
    elif taken[1] is True:
        ctx.violation("R2", C + ":refit-guarded", "the refit also happens with update_params=False (fitted parameters change although updating is disabled)",
                      loc_of(f), witness={"guards": [(res.fmt(c), p) for c, p in facts]})
    elif taken[0] is False:
        ctx.violation("R2", C + ":refit-guarded", "the refit is skipped with update_params=True", loc_of(f),
                      witness={"guards": [(res.fmt(c), p) for c, p in facts]})
    else:
        ctx.undecided("R2", C + ":refit-guarded", "refit guarded by %s" % [(res.fmt(c), p) for c, p in facts], loc_of(f))
    ctx.check(res.dominates(m, f), "R2", C + ":merge-before-refit", "merge precedes the refit", "the refit runs before the new data is merged", loc_of(f))
    b = f.bound or f.bind(fsig(repo, "fit"))
    if b is None:
        ctx.undecided("R2", C + ":refit-data", "cannot bind self.fit(...)", loc_of(f))
        return
    for p, attr in (("y", "_y"), ("X", "_X")):
        got = b.get(p)
        key = C + ":refit-data:" + p
        if got is not None and merged_value(res, got, P(p), attr, any_order=True):
            ctx.ok("R2", key, "refit on self.%s as merged (all remembered data)" % attr, loc_of(f))
        elif got == P(p) or proper_part(got, P(p)):
            ctx.violation("R2", key, "the refit uses only the batch passed to update, not all remembered data", loc_of(f),
                          witness={"history": "fit(y1); update(y2): forecasts equal those of fit(y2) alone, y1 is forgotten"})
        elif got is not None and is_old(got, attr):
            ctx.violation("R2", key, "the refit uses self.%s as it was before the merge (the new batch is ignored)" % attr, loc_of(f))
        elif got is None or got == NONE:
            ctx.violation("R2", key, "the refit drops `%s`" % p, loc_of(f))
        elif any(q != p and merged_value(res, got, P(q), a2) for q, a2 in (("y", "_y"), ("X", "_X"))) or \
                (got is not None and all(is_old(x, "_fh") for x in alts(got))):
            ctx.violation("R2", key, "the refit passes %s in the role of `%s` (arguments swapped)" % (res.fmt(got), p), loc_of(f))
        else:
            ctx.undecided("R2", key, "refit on %s" % res.fmt(got), loc_of(f))
    fh = b.get("fh")
    ok = fh is not None and all(is_old(a, "_fh") for a in alts(fh))
    ctx.check(True if ok else (False if fh in (None, NONE) or fh[0] in ("param", "const") else None), "R2", C + ":refit-data:fh",
              "refit with the remembered horizon", "the refit does not pass the remembered horizon (fh=%s)" % res.fmt(fh), loc_of(f))
    rets = [v for v, _ in res.returns]
    ctx.check(all(v == ("self",) for v in rets), "R2", C + ":returns-self", "returns self", "update does not return self", loc0)
    # --- ThetaForecaster.update: custom parameter update must use all remembered data
    tcls = repo.cls(THETA + ":ThetaForecaster")
    tfn = repo.func(THETA, "ThetaForecaster.update")
    tres = analysed(ctx, Prov(repo, no_inline=("_compute_trend",)).run_method(tcls, "update"))
    CT = "ThetaForecaster.update"
    tm = tres.calls("_update_y_X", kind=("inline",))
    ctx.check(bool(tm) and tres.unconditional(tm[0]) and tm[0].bound.get("y") == P("y"), "R2", CT + ":merge",
              "delegates the merge to the base update", "the new data is not merged on every path", ctx.loc(tcls.module, tfn))
    # with update_params=False the fitted parameters stay: no refit may be reachable for update_params=False
    tfits = [e for e in tres.calls("fit", kind=("call",)) if e.target.kind in ("method", "super")]
    refit_on = [guard_taken(tres, [(c, p) for c, p, _ in tres.facts(e)], P("update_params")) for e in tfits]
    if any(t[1] is True for t in refit_on):
        bad = tfits[[t[1] is True for t in refit_on].index(True)]
        ctx.violation("R2", CT + ":refit-guarded", "update(y, update_params=False) refits the whole model: the inherited update is entered with "
                      "update_params fixed to True, so its refit-by-default branch runs whatever the caller asked for", loc_of(bad),
                      witness={"history": "fit(y1); update(y2, update_params=False): smoothing level, seasonal component and trend all change"})
    elif any(t[1] is None for t in refit_on):
        ctx.undecided("R2", CT + ":refit-guarded", "cannot decide whether a refit is reachable with update_params=False", loc_of(tfits[0]))
    else:
        ctx.ok("R2", CT + ":refit-guarded", "no refit is reachable with update_params=False", ctx.loc(tcls.module, tfn))
    trend = [e for e in tres.calls("_compute_trend", kind=("call", "inline"))]
    if not trend and not any(t[0] is True for t in refit_on) and not tres.stores("trend_"):
        fit_sets = "trend_" in {s_.attr for s_ in analysed(ctx, Prov(repo, no_inline=("_compute_trend",)).run_method(tcls, "fit")).stores()}
        ctx.check(False if fit_sets else None, "R2", CT + ":trend-re-estimated", "",
                  "update(y, update_params=True) neither refits nor re-estimates `trend_` (fit derives it from the data): the drift added to every later "
                  "forecast stays that of the first fit", ctx.loc(tcls.module, tfn),
                  witness={"history": "fit(y1); update(y2) with a changed slope: forecasts keep the old drift"})
    else:
        ctx.ok("R2", CT + ":trend-re-estimated", "update(update_params=True) re-estimates the trend (or refits)", ctx.loc(tcls.module, tfn))
    if trend and len(trend) != 1:
        ctx.undecided("R2", CT + ":trend-data", "expected one _compute_trend call, found %d" % len(trend), ctx.loc(tcls.module, tfn))
    elif trend:
        te = trend[0]
        arg = (te.bound or {}).get("y") if te.bound else (te.args[0] if te.args else None)
        bad, unknown, rest = [], [], set()
        dom = bool(tm) and tres.dominates(tm[0], te)
        for a in alts(arg) if arg is not None else [None]:
            tr = tres.ret_event(a)
            if tr is not None and tr.kind == "call" and tr.name == "transform" and tr.args:
                root = tr.args[0]
                if dom and merged_value(tres, root, P("y"), "_y"):
                    continue
                (bad if root == P("y") or is_old(root, "_y") else unknown).append(a)
            elif a == P("y"):
                bad.append(a)
            elif a is None:
                unknown.append(a)
            else:
                rest.add(a)
        if rest:
            from ._c09_prov import phi
            if dom and merged_value(tres, phi(rest), P("y"), "_y"):
                pass
            elif all(is_old(x, "_y") for x in rest):
                bad.extend(rest)
            else:
                unknown.extend(rest)
        if bad:
            ctx.violation("R2", CT + ":trend-data", "with update_params=True the trend is re-estimated from %s on some path "
                          "(only the new batch), not from all remembered data" % " / ".join(tres.fmt(x) for x in bad), loc_of(te),
                          witness={"path": "deseasonalize=False", "history": "fit(y1); update(y2, update_params=True): trend_ = slope(y2)/2"})
        elif unknown:
            ctx.undecided("R2", CT + ":trend-data", "trend estimated from %s" % [tres.fmt(x) for x in unknown], loc_of(te))
        else:
            ctx.ok("R2", CT + ":trend-data", "trend re-estimated from all remembered data on every path", loc_of(te))
        tk = guard_taken(tres, [(c, p) for c, p, _ in tres.facts(te)], P("update_params"))
        ctx.check(True if tk == (True, False) else (False if tk[1] is True or tk[0] is False else None), "R2", CT + ":trend-guarded",
                  "parameters are re-estimated iff update_params", "the trend update does not follow `update_params` (taken for True/False: %s)" % (tk,),
                  loc_of(te))


# ------------------------------------------------------------------------------------------ R3
CUTOFF_MOVERS = {"fit", "update", "update_predict", "update_predict_single", "_update_predict_single", "_predict_moving_cutoff",
                 "_set_cutoff", "_set_y_X", "_update_y_X"}


def may_move_cutoff(repo, cls, tgt, _depth=0):
    """A (non-inlined) call on self may write the cutoff: a public state-changing API method (virtual, any subclass may
    override it), or a helper whose own body stores ``_cutoff`` / calls such a method."""
    if tgt.name in CUTOFF_MOVERS:
        return True
    if tgt.func is None or _depth > 3:
        return True
    try:
        from ._c09_prov import Frame
        p = Prov(repo)
        fr = Frame(tgt.module, tgt.func, cls, tgt.defcls)
        fr.static = tgt.defcls.is_static(tgt.name) if tgt.defcls is not None else False
        r = p._run(fr, None)
    except (AnalysisError, RecursionError):
        return True
    for e in r.events:
        if e.kind == "store" and e.attr == "_cutoff":
            return True
        if e.kind == "call" and e.target is not None and e.target.kind in ("method", "super") and may_move_cutoff(repo, cls, e.target, _depth + 1):
            return True
    return False


def r3(ctx, repo):
    cls = repo.cls(SK + ":_SktimeForecaster")
    mod = cls.module
    # (a) the context manager
    fn = repo.func(SK, "_SktimeForecaster._detached_cutoff")
    C = "_SktimeForecaster._detached_cutoff"
    loc0 = ctx.loc(mod, fn)
    decs = [repo.resolve_expr(mod, d.func if isinstance(d, ast.Call) else d) for d in fn.decorator_list]
    ctx.check(any(s is not None and s.dotted == "contextlib.contextmanager" for s in decs), "R3", C + ":contextmanager",
              "generator is a contextlib.contextmanager", "_detached_cutoff is not decorated with contextlib.contextmanager", loc0)
    res = analysed(ctx, Prov(repo).run_method(cls, "_detached_cutoff"))
    ys = res.of_kind("yield")
    if len(ys) != 1:
        ctx.undecided("R3", C + ":restore-in-finally", "expected exactly one yield, found %d" % len(ys), loc0)
    else:
        yv = ys[0]
        after = [s for s in res.stores("_cutoff") if s.id > yv.id]
        before = [s for s in res.stores("_cutoff") if s.id < yv.id]
        ctx.check(not before, "R3", C + ":no-move-before-yield", "the cutoff is not touched before the body runs",
                  "the cutoff is modified before the with-body runs", loc0)
        tries = [t for t, part in res.try_parts(yv) if part == "body"]
        fin = [s for s in after if any(part == "finally" and t in tries for t, part in res.try_parts(s))]
        if not after:
            ctx.violation("R3", C + ":restore-in-finally", "the cutoff is never restored after the with-body", loc0)
        elif not fin:
            ctx.violation("R3", C + ":restore-in-finally", "the cutoff is restored only on normal exit: not in a `finally` enclosing the yield "
                          "(an exception inside update_predict leaves the forecaster at a moved cutoff)", loc_of(after[0]))
        else:
            ctx.ok("R3", C + ":restore-in-finally", "restored in the finally of the try that encloses the yield", loc_of(fin[0]))
        for s in after:
            if s.value == ("attr0", "_cutoff"):
                ctx.ok("R3", C + ":save-before-yield", "the restored value was read before the yield", loc_of(s))
            elif isinstance(s.value, tuple) and s.value[0] == "attr@" and s.value[1] == "_cutoff":
                ctx.violation("R3", C + ":save-before-yield", "the value written back is read *after* the with-body ran (the moved cutoff is 'restored')", loc_of(s))
            elif not mentions(res, s.value, ("attr0", "_cutoff")):
                ctx.violation("R3", C + ":save-before-yield", "the value written back is %s, not the cutoff saved before the yield" % res.fmt(s.value), loc_of(s))
            else:
                ctx.undecided("R3", C + ":save-before-yield", "value written back: %s" % res.fmt(s.value), loc_of(s))
    # (b) the moving-cutoff loop
    fn = repo.func(SK, "_SktimeForecaster._predict_moving_cutoff")
    C = "_SktimeForecaster._predict_moving_cutoff"
    loc0 = ctx.loc(mod, fn)
    res = analysed(ctx, Prov(repo, no_inline=("_update_predict_single", "_format_moving_cutoff_predictions", "_shift")).run_method(cls, "_predict_moving_cutoff"))
    withs = [e for e in res.calls("_detached_cutoff", kind=("call", "inline")) if e.target.kind == "method"]
    if len(withs) != 1:
        ctx.check(None if withs else False, "R3", C + ":inside-detached", "", "the moving-cutoff loop does not run inside _detached_cutoff()", loc0)
        return
    w = ("ret", withs[0].id)
    movers = [e for e in res.events if (e.kind == "store" and e.attr == "_cutoff")
              or (e.kind == "call" and e.target is not None and e.target.kind in ("method", "super") and e is not withs[0]
                  and may_move_cutoff(repo, cls, e.target))]
    outside = [e for e in movers if w not in res.withs_of(e)]
    ctx.check(bool(movers) and not outside, "R3", C + ":inside-detached", "every cutoff-moving action lies inside `with self._detached_cutoff()`",
              "the cutoff is moved outside the detached-cutoff block (%s): the original cutoff is not what gets restored"
              % ", ".join("%s L%s" % (e.name or e.attr, e.lineno) for e in outside), loc_of(outside[0]) if outside else loc0)
    # the replay starts "just before the data": cutoff := first index shifted back by one step
    init = [e for e in res.stores("_cutoff") if w in res.withs_of(e) and not res.loops_of(e)]
    key = C + ":initial-cutoff"
    if len(init) != 1:
        ctx.check(None if init else False, "R3", key, "", "the cutoff is not moved to the point before the data when the replay starts "
                  "(an empty first window would forecast from the old cutoff)", loc0)
    else:
        se_ = res.ret_event(init[0].value)
        if se_ is not None and se_.target is not None and se_.target.dotted == "sktime.utils.datetime._shift" and se_.bound is not None:
            pnames = astq.param_names(se_.target.func)
            x0, by = se_.bound.get(pnames[0]), se_.bound.get("by")
            first = ("item", ("getattr", P("y"), "index"), ("const", 0))
            if x0 == first and by == ("const", -1):
                ctx.ok("R3", key, "replay starts at _shift(y.index[0], by=-1): one step before the data", loc_of(init[0]))
            elif (x0 != first and isinstance(x0, tuple) and x0[0] == "item" and x0[1] == first[1] and is_const(x0[2])) or (x0 == first and is_const(by)):
                ctx.violation("R3", key, "replay starts at _shift(y.index[%s], by=%s), not one step before the first observation"
                              % (const(x0[2]) if isinstance(x0, tuple) and x0[0] == "item" else "?", const(by)), loc_of(init[0]),
                              witness={"effect": "forecasts of an empty first window are issued from the wrong cutoff"})
            else:
                ctx.undecided("R3", key, "initial cutoff is %s" % res.fmt(init[0].value), loc_of(init[0]))
        else:
            ctx.undecided("R3", key, "initial cutoff is %s" % res.fmt(init[0].value), loc_of(init[0]))
    ups = [e for e in res.calls("_update_predict_single", kind=("call",)) if e.target.kind == "method"]
    if len(ups) != 1 or ups[0].bound is None or not res.loops_of(ups[0]):
        ctx.undecided("R3", C + ":window", "expected one _update_predict_single call inside the split loop", loc0)
        return
    u = ups[0]
    L = res.loops[res.loops_of(u)[-1]]
    se = res.ret_event(L.iter)
    if se is None or se.name != "split" or se.recv != P("cv"):
        ctx.undecided("R3", C + ":splits", "the loop does not iterate cv.split(...): %s" % res.fmt(L.iter), loc_of(u))
    else:
        forwarded(ctx, res, "R3", C + ":splits", se.arg(0, "y"), P("y"), "iterates cv.split(y)", "the windows are not computed on the series `y` they are applied to",
                  loc_of(se))
    elem = ("elem", L.iter, L.id)
    want_y = ("item", ("getattr", P("y"), "iloc"), ("item", elem, ("const", 0)))
    got_y = u.bound.get("y")
    if got_y == want_y:
        ctx.ok("R3", C + ":window", "each step updates with y.iloc[new_window] (first component of the split)", loc_of(u))
    elif got_y == ("item", ("getattr", P("y"), "iloc"), ("item", elem, ("const", 1))):
        ctx.violation("R3", C + ":window", "each step updates with the *test* window of the split (second component)", loc_of(u))
    elif got_y == P("y"):
        ctx.violation("R3", C + ":window", "each step updates with the whole series instead of the new window", loc_of(u))
    elif isinstance(got_y, tuple) and got_y[0] == "item" and got_y[1] == ("getattr", P("y"), "iloc") and isinstance(got_y[2], tuple) \
            and got_y[2][0] == "item" and got_y[2][1] == ("item", elem, ("const", 0)) \
            and (is_const(got_y[2][2]) or (got_y[2][2][:1] == ("slice",) and any(is_const(b) and b[1] not in (None, 0) for b in got_y[2][2][1:3]))):
        ctx.violation("R3", C + ":window", "each step updates with only a part of the split's train window (%s): observations of the window that "
                      "were not seen before are never merged (step_length > 1, initial window, user-supplied cv)" % res.fmt(got_y[2]), loc_of(u),
                      witness={"history": "update_predict(y, cv=SlidingWindowSplitter(step_length=3, ...))"})
    else:
        ctx.undecided("R3", C + ":window", "update data is %s" % res.fmt(got_y), loc_of(u))
    fhe = res.ret_event(u.bound.get("fh"))
    ctx.check(fhe is not None and fhe.name == "get_fh" and fhe.recv == P("cv"), "R3", C + ":forward:fh", "forecasts use the splitter's horizon cv.get_fh()",
              "forecast horizon is %s, not cv.get_fh()" % res.fmt(u.bound.get("fh")), loc_of(u))
    for p in ("X", "update_params", "return_pred_int", "alpha"):
        forwarded(ctx, res, "R3", C + ":forward:" + p, u.bound.get(p), P(p), "%s forwarded" % p, "`%s` is not forwarded to _update_predict_single" % p, loc_of(u))
    ctx.check(res.unconditional(u, allow_loops=(L.id,)), "R3", C + ":every-window", "every window is processed",
              "some windows are skipped (conditional update)", loc_of(u))
    fm = [e for e in res.calls("_format_moving_cutoff_predictions", kind=("call",))]
    if len(fm) != 1 or fm[0].bound is None:
        ctx.undecided("R3", C + ":format-args", "expected one _format_moving_cutoff_predictions call", loc0)
        return
    fe = fm[0]
    lp, lc = fe.bound.get("y_preds"), fe.bound.get("cutoffs")
    after_u = ("attr@", "_cutoff", u.id + 1)

    def appended(t):
        if isinstance(t, tuple) and len(t) == 2 and t[0] == "newlist":
            return res.lists.get(t[1], [])
        return None

    ap, ac = appended(lp), appended(lc)
    if ap is None or ac is None:
        ctx.undecided("R3", C + ":format-args", "results are not collected in local lists: %s / %s" % (res.fmt(lp), res.fmt(lc)), loc_of(fe))
        return
    # forecasts
    key = C + ":collect-prediction"
    if len(ap) == 1 and ap[0][0] == ("ret", u.id) and ap[0][1] is not None and res.structural(ap[0][1]) == res.structural(u):
        ctx.ok("R3", key, "each iteration appends its own forecast", loc_of(ap[0][1]))
    elif len(ap) == 1 and ap[0][0] == after_u:
        ctx.violation("R3", key, "the list handed over as forecasts collects the cutoffs (roles swapped)", loc_of(fe))
    else:
        ctx.check(None if ap else False, "R3", key, "", "the forecasts are not collected" if not ap else "forecast list receives %s"
                  % [res.fmt(v) for v, _ in ap], loc_of(fe))
    key = C + ":collect-cutoff-after-update"
    if len(ac) == 1 and ac[0][1] is not None:
        v, e = ac[0]
        if v == after_u and res.structural(e) == res.structural(u):
            ctx.ok("R3", key, "each iteration appends self.cutoff as it is after that iteration's update", loc_of(e))
        elif v == ("ret", u.id):
            ctx.violation("R3", key, "the list handed over as cutoffs collects the forecasts (roles swapped)", loc_of(fe))
        elif not res.loops_of(e):
            ctx.violation("R3", key, "the cutoff is recorded once, outside the loop over the windows (one label for all forecasts)", loc_of(e))
        elif mentions(res, v, ("item", elem, ("const", 1))) and not mentions(res, v, after_u):
            ctx.violation("R3", key, "the label recorded for a forecast is computed from the split's *test* window (%s), not read from the "
                          "forecaster's cutoff after the update: for horizons that do not start at 1 (or with gaps) the columns carry a time "
                          "point that is not the cutoff the forecast was made from" % res.fmt(v), loc_of(e),
                          witness={"history": "update_predict(y, cv=SlidingWindowSplitter(fh=[2, 3])): labels are one step late"})
        elif isinstance(v, tuple) and v[0] in ("attr0", "attr@") and v[1] == "_cutoff":
            ctx.violation("R3", key, "the cutoff recorded for a window is read before that window's update (%s): every forecast is labelled "
                          "with the previous cutoff" % res.fmt(v), loc_of(e))
        elif any(isinstance(st.value, tuple) and st.value == v for st in res.stores("_cutoff")):
            ctx.violation("R3", key, "the cutoff recorded is the value set before the loop (%s), not the cutoff after the window's update"
                          % res.fmt(v), loc_of(e))
        elif not res.loops_of(e):
            ctx.violation("R3", key, "the cutoff is recorded once, outside the loop over the windows", loc_of(e))
        else:
            ctx.undecided("R3", key, "cutoff list receives %s" % res.fmt(v), loc_of(e))
    else:
        ctx.check(None if ac else False, "R3", key, "", "the cutoffs are not collected" if not ac else "cutoff list receives several values", loc_of(fe))
    rets = [v for v, _ in res.returns]
    ctx.check(rets == [("ret", fe.id)], "R3", C + ":result", "returns the formatted predictions", "result is %s" % [res.fmt(v) for v in rets], loc_of(fe))
    # (c) the formatter
    ffn = repo.func(SK, "_format_moving_cutoff_predictions")
    fres = analysed(ctx, Prov(repo).run_func(mod, ffn))
    C = "_format_moving_cutoff_predictions"
    cols = [e for e in fres.of_kind("setattr") if e.attr == "columns"]
    if len(cols) != 1:
        ctx.check(None if cols else False, "R3", C + ":columns", "", "multi-step forecasts are not labelled with their cutoffs", ctx.loc(mod, ffn))
    else:
        c = cols[0]
        forwarded(ctx, fres, "R3", C + ":columns", c.value, P("cutoffs"), "forecast columns are labelled with the cutoffs",
                  "forecast columns are not labelled with `cutoffs`", loc_of(c))
        one = ("len", ("item", P("y_preds"), ("const", 0)))
        pols = []
        for cond, pol, origin in fres.facts(c):
            if isinstance(cond, tuple) and cond[0] == "cmp" and one in (cond[2], cond[3]):
                other = cond[3] if cond[2] == one else cond[2]
                op = cond[1]
                if other == ("const", 1) and op in ("Eq", "NotEq"):
                    pols.append((op == "NotEq") == pol)  # True: this path is the multi-step one
                elif other == ("const", 1) and op in ("Gt", "LtE") and cond[2] == one:
                    pols.append((op == "Gt") == pol)
                elif is_const(other) and isinstance(other[1], int) and op in ("Eq", "NotEq"):
                    ctx.violation("R3", C + ":single-step-test", "forecasts are treated as single-step when their length is %r, not 1: "
                                  "%s-step forecasts are concatenated without cutoff labels and 1-step forecasts are not" % (other[1], other[1]),
                                  loc_of(c), witness={"fh": list(range(1, max(other[1], 1) + 1))})
                    pols.append(True)
                else:
                    pols.append(None)
        if pols:
            ctx.check(None if None in pols else all(pols), "R3", C + ":multi-step-branch", "the cutoff labels are attached on the multi-step path",
                      "the cutoff labels are attached only to single-step forecasts; multi-step forecasts are concatenated without their cutoffs", loc_of(c))
        else:
            ctx.ok("R3", C + ":multi-step-branch", "the cutoff labels are attached unconditionally", loc_of(c))
        frame = c.base
        ncols = ("item", ("getattr", frame, "shape"), ("const", 1))
        for r_ in [x for x in fres.of_kind("return") if x.frame is fres.frame]:
            v_ = r_.value
            if isinstance(v_, tuple) and v_[0] == "item" and v_[1] == ("getattr", frame, "iloc"):
                single = None
                for cond, pol, origin in fres.facts(r_):
                    for side in (cond[2], cond[3]) if isinstance(cond, tuple) and cond[0] == "cmp" else ():
                        if isinstance(side, tuple) and side[0] == "item" and side[1] == ("getattr", frame, "shape") and is_const(side[2]) \
                                and side[2][1] not in (1, -1):
                            ctx.violation("R3", C + ":single-window-test-axis", "the single-window shortcut tests shape[%r] (the steps) instead of the "
                                          "number of windows shape[1]: for one window and a multi-step horizon update_predict returns a one-column "
                                          "frame where the single update+predict (and the unmodified code) return a series" % (side[2][1],), loc_of(r_),
                                          witness={"history": "update_predict(y, cv) with exactly one window, fh=[1, 2]"})
                            single = True
                    ncols_last = ("item", ("getattr", frame, "shape"), ("const", -1))  # a frame has two axes: shape[-1] is shape[1]
                    if isinstance(cond, tuple) and cond[0] == "cmp" and cond[1] in ("Eq", "NotEq") and (ncols in (cond[2], cond[3]) or ncols_last in (cond[2], cond[3])):
                        k_ = cond[3] if cond[2] in (ncols, ncols_last) else cond[2]
                        if k_ == ("const", 1):
                            single = (cond[1] == "Eq") == pol
                        elif is_const(k_) and isinstance(k_[1], int):
                            single = False  # one column is returned when there are k != 1 windows
                ctx.check(single, "R3", C + ":all-windows-returned", "a single column is returned only when there is a single window",
                          "only one window's forecasts are returned although there are several (column shortcut on the wrong branch)", loc_of(r_))
        base = c.base
        df = fres.ret_event(base[1]) if isinstance(base, tuple) and base[0] == "getattr" and base[2] == "T" else None
        ok = df is not None and df.target.kind == "ext" and df.target.ext == "pandas.DataFrame" and df.arg(0, "data") == P("y_preds")
        if ok:
            ctx.ok("R3", C + ":one-column-per-cutoff", "DataFrame(y_preds).T: one column per window", loc_of(c))
        else:
            df2 = fres.ret_event(base)
            if df2 is not None and df2.target.kind == "ext" and df2.target.ext == "pandas.DataFrame" and df2.arg(0, "data") == P("y_preds"):
                ctx.violation("R3", C + ":one-column-per-cutoff", "DataFrame(y_preds) has one *row* per window; its columns (the steps) are labelled with cutoffs",
                              loc_of(c))
            else:
                ctx.undecided("R3", C + ":one-column-per-cutoff", "labelled frame is %s" % fres.fmt(base), loc_of(c))


# ------------------------------------------------------------------------------------------ R3 (continued): each step = update, then predict
def r3_steps(ctx, repo):
    """update_predict_single / _update_predict_single: the new data is observed *before* the forecast is made, all
    options are forwarded; update_predict hands everything to the moving-cutoff loop; in-sample prediction never
    touches the fitted parameters."""
    sites = (
        (SK, "_SktimeForecaster", "_SktimeForecaster", "_update_predict_single", "predict"),
        (SK, "_BaseWindowForecaster", "_BaseWindowForecaster", "_update_predict_single", "_predict"),
        (BASE, "BaseForecaster", "BaseForecaster", "update_predict_single", "predict"),
    )
    for path, cname, anchor_cls, mname, inner in sites:
        cls = repo.cls(path + ":" + cname)
        fn = repo.func(path, anchor_cls + "." + mname)
        res = analysed(ctx, Prov(repo, no_inline=(inner, "update")).run_method(cls, mname))
        C = "%s.%s" % (cname, mname)
        loc0 = ctx.loc(cls.module, fn)
        params = astq.param_names(fn, skip_self=True)
        ups = [e for e in res.calls("update", kind=("call",)) if e.target.kind == "method"]
        prs = [e for e in res.calls(inner, kind=("call",)) if e.target.kind == "method"]
        if len(ups) != 1 or len(prs) != 1 or ups[0].bound is None or prs[0].bound is None:
            ctx.undecided("R3", C + ":update-then-predict", "expected one self.update and one self.%s call (found %d / %d)" % (inner, len(ups), len(prs)), loc0)
            continue
        u, pr = ups[0], prs[0]
        if res.dominates(u, pr) and res.unconditional(u) and res.unconditional(pr):
            ctx.ok("R3", C + ":update-then-predict", "the forecast is made after the new data was observed", loc_of(pr))
        elif pr.id < u.id:
            ctx.violation("R3", C + ":update-then-predict", "the forecast is made *before* the update (it ignores the new data and the new cutoff)", loc_of(pr))
        else:
            ctx.violation("R3", C + ":update-then-predict", "update and predict are not both executed, in this order, on every path", loc_of(pr))
        forwarded(ctx, res, "R3", C + ":update:y", u.bound.get("y"), P(params[0]), "new data handed to update", "update does not receive the new data", loc_of(u))
        for p_ in ("X", "update_params"):
            forwarded(ctx, res, "R3", C + ":update:" + p_, u.bound.get(p_), P(p_), "%s handed to update" % p_, "update does not receive `%s`" % p_, loc_of(u))
        for p_ in ("fh", "X", "return_pred_int", "alpha"):
            forwarded(ctx, res, "R3", C + ":predict:" + p_, pr.bound.get(p_), P(p_), "%s handed to %s" % (p_, inner), "%s does not receive `%s`" % (inner, p_), loc_of(pr))
        rets = [v for v, _ in res.returns]
        ctx.check(rets == [("ret", pr.id)], "R3", C + ":result", "returns that forecast", "does not return the forecast made after the update", loc_of(pr))
    # public update_predict_single: guard, horizon, then the internal step with the remembered horizon
    for cname, path, tag in (("EnsembleForecaster", ENS, "optional-fh"), ("StackingForecaster", STACK, "required-fh")):
        cls = repo.cls(path + ":" + cname)
        fn = repo.func(SK, "_SktimeForecaster.update_predict_single")
        hit = repo.lookup_method(cls, "update_predict_single")
        if hit is None or hit[1] is not fn:
            ctx.undecided("R3", "_SktimeForecaster.update_predict_single[%s]" % tag, "%s does not inherit the base update_predict_single" % cname, ctx.loc(cls.module, cls.node))
            continue
        res = analysed(ctx, Prov(repo, no_inline=("_update_predict_single",)).run_method(cls, "update_predict_single"))
        C = "_SktimeForecaster.update_predict_single[%s]" % tag
        loc0 = ctx.loc(hit[0].module, fn)
        st = [e for e in res.calls("_update_predict_single", kind=("call",)) if e.target.kind == "method"]
        sf = res.calls("_set_fh", kind=("inline", "call"))
        if len(st) != 1 or st[0].bound is None or not sf:
            ctx.undecided("R3", C + ":step", "expected _set_fh and one _update_predict_single call", loc0)
            continue
        e = st[0]
        fh_terms = {pg.ret for pg in res.of_kind("propget") if pg.name == "fh" and pg.id > sf[0].id}
        ctx.check(res.dominates(sf[0], e) and e.bound.get("fh") in fh_terms, "R3", C + ":horizon", "the step uses the horizon as set by _set_fh(fh)",
                  "the step's horizon is %s, not self.fh after _set_fh(fh)" % res.fmt(e.bound.get("fh")), loc_of(e))
        forwarded(ctx, res, "R3", C + ":y", e.bound.get("y"), P("y_new"), "new data forwarded", "the new data is not forwarded", loc_of(e))
        for p_ in ("X", "update_params", "return_pred_int", "alpha"):
            forwarded(ctx, res, "R3", C + ":" + p_, e.bound.get(p_), P(p_), "%s forwarded" % p_, "`%s` is not forwarded to _update_predict_single" % p_, loc_of(e))
    # update_predict -> moving-cutoff loop
    for path, cname in ((SK, "_SktimeForecaster"), (SK, "_BaseWindowForecaster"), (ONLINE, "OnlineEnsembleForecaster")):
        cls = repo.cls(path + ":" + cname)
        fn = repo.func(path, cname + ".update_predict")
        res = analysed(ctx, Prov(repo, no_inline=("_predict_moving_cutoff",)).run_method(cls, "update_predict"))
        C = cname + ".update_predict"
        loc0 = ctx.loc(cls.module, fn)
        params = astq.param_names(fn, skip_self=True)
        pm = [e for e in res.calls("_predict_moving_cutoff", kind=("call",)) if e.target.kind == "method"]
        if len(pm) != 1 or pm[0].bound is None:
            ctx.undecided("R3", C + ":delegate", "expected one _predict_moving_cutoff call", loc0)
            continue
        e = pm[0]
        xname = [p_ for p_ in params if p_.startswith("X")][0]
        forwarded(ctx, res, "R3", C + ":y", e.bound.get("y"), P(params[0]), "the series is handed to the moving-cutoff loop", "the series is not forwarded", loc_of(e))
        forwarded(ctx, res, "R3", C + ":X", e.bound.get("X"), P(xname), "X forwarded", "`%s` is not forwarded" % xname, loc_of(e))
        for p_ in ("update_params", "return_pred_int", "alpha"):
            forwarded(ctx, res, "R3", C + ":" + p_, e.bound.get(p_), P(p_), "%s forwarded" % p_, "`%s` is not forwarded to the moving-cutoff loop" % p_, loc_of(e))
        for scen, val in (("given", ("obj", "cv")), ("default", NONE)):
            r2_ = analysed(ctx, Prov(repo, no_inline=("_predict_moving_cutoff",)).run_method(cls, "update_predict", {"cv": val}))
            pm2 = [x for x in r2_.calls("_predict_moving_cutoff", kind=("call",)) if x.target.kind == "method"]
            key = C + ":cv-" + scen
            if len(pm2) != 1 or pm2[0].bound is None:
                ctx.undecided("R3", key, "expected one _predict_moving_cutoff call", loc0)
                continue
            cvv = pm2[0].bound.get("cv")
            if scen == "given":
                if cvv == val:
                    ctx.ok("R3", key, "a splitter passed by the caller is the one used", loc_of(pm2[0]))
                elif cvv is None or not mentions(r2_, cvv, val):
                    ctx.violation("R3", key, "the caller's `cv` is ignored: the moving-cutoff loop runs over %s" % r2_.fmt(cvv), loc_of(pm2[0]))
                else:
                    ctx.undecided("R3", key, "with a given cv the loop runs over %s" % r2_.fmt(cvv), loc_of(pm2[0]))
            else:
                ce_ = r2_.ret_event(cvv)
                if ce_ is not None and ce_.target is not None and ce_.target.kind == "class":
                    ctx.ok("R3", key, "without cv a default %s is built" % ce_.target.cls.name, loc_of(pm2[0]))
                elif cvv in (None, NONE):
                    ctx.violation("R3", key, "without `cv` no default splitter is built (None reaches the moving-cutoff loop)", loc_of(pm2[0]))
                else:
                    ctx.undecided("R3", key, "without cv the loop runs over %s" % r2_.fmt(cvv), loc_of(pm2[0]))
        rets = [v for v, _ in res.returns]
        ctx.check(rets == [("ret", e.id)], "R3", C + ":result", "returns the moving-cutoff predictions", "result is not the moving-cutoff prediction", loc_of(e))
    # in-sample prediction through the moving cutoff must not refit
    cls = repo.cls(SK + ":_BaseWindowForecaster")
    fn = repo.func(SK, "_BaseWindowForecaster._predict_in_sample")
    res = analysed(ctx, Prov(repo, no_inline=("_predict_moving_cutoff",)).run_method(cls, "_predict_in_sample"))
    pm = [e for e in res.calls("_predict_moving_cutoff", kind=("call",)) if e.target.kind == "method"]
    C = "_BaseWindowForecaster._predict_in_sample"
    if len(pm) != 1 or pm[0].bound is None:
        ctx.undecided("R3", C + ":no-param-update", "expected one _predict_moving_cutoff call", ctx.loc(cls.module, fn))
    else:
        up = pm[0].bound.get("update_params")
        ctx.check(True if up == ("const", False) else (False if is_const(up) or up == P("update_params") else None), "R3", C + ":no-param-update",
                  "in-sample predictions replay the data with update_params=False", "predicting in-sample refits the forecaster (update_params=%s)" % res.fmt(up),
                  loc_of(pm[0]))
        yv = pm[0].bound.get("y")
        ctx.check(True if is_old(yv, "_y") else None, "R3", C + ":replays-own-data", "replays the remembered series", "replays %s" % res.fmt(yv), loc_of(pm[0]))


# ------------------------------------------------------------------------------------------ R3: helpers the replay trusts
FH_MOD = "sktime/forecasting/base/_fh.py"
DT_MOD = "sktime/utils/datetime.py"


def r3_helpers(ctx, repo):
    """Contracts the moving-cutoff rules assume of their callees, decided from the callees' source:
    ``_shift(x, by)`` is x + by in units of x's own frequency; the horizon's cutoff-dependent conversions are recomputed
    for every cutoff (the cutoff moves with every update); the default splitter yields the windows C01 specifies."""
    mod = repo.module(DT_MOD)
    fn = repo.func(DT_MOD, "_shift")
    res = analysed(ctx, Prov(repo).run_func(mod, fn))
    C = "_shift"
    loc0 = ctx.loc(mod, fn)
    pn = astq.param_names(fn)
    x, by = P(pn[0]), P(pn[1])
    rets = [v for v, _ in res.returns]
    verdict, why = None, ""
    if len(rets) == 1 and isinstance(rets[0], tuple) and rets[0][:2] == ("binop", "Add") and x in rets[0][2:]:
        step = rets[0][3] if rets[0][2] == x else rets[0][2]
        verdict = True
        for a in alts(step):
            if a == by:
                continue
            if isinstance(a, tuple) and a[:2] == ("binop", "Mult") and by in a[2:]:
                factor = a[3] if a[2] == by else a[2]
                if factor == ("getattr", x, "freq"):
                    continue  # Timestamp: an integer step is turned into an offset of x's frequency
                verdict, why = False, "on some path the step is multiplied by %s before it is added (Period / integer arithmetic already counts in " \
                    "units of x's own frequency, so the shift is scaled twice)" % res.fmt(factor)
                break
            verdict = None
            break
    ctx.check(verdict, "R3", C + ":unit-step", "_shift(x, by) = x + by in units of x's own frequency (offset only for Timestamps)",
              "_shift does not move by `by` steps of x's frequency: %s" % (why or [res.fmt(v) for v in rets]), loc0,
              witness={"input": "x = pd.Period('2000-01-01', freq='2D'), by=-1", "effect": "the replay of update_predict starts two periods before the data"})
    # cutoff-dependent conversions of the horizon must be recomputed per cutoff (H1/H2)
    fcls = repo.cls(FH_MOD + ":ForecastingHorizon")
    for m in ("to_relative", "to_absolute"):
        repo.func(FH_MOD, "ForecastingHorizon." + m)
        fres = analysed(ctx, Prov(repo).run_method(fcls, m))
        check_first_call_only(ctx, fres, "R3", "ForecastingHorizon." + m, loc_of)
        cached = [(v, c) for v, c in fres.returns if isinstance(v, tuple) and v and v[0] in ("attr0", "attr@")]
        key = "ForecastingHorizon.%s:depends-on-cutoff" % m
        if cached:
            ctx.violation("R3", key, "returns a value remembered on the horizon (%s) whatever `cutoff` is passed: after an update moved the "
                          "cutoff the old conversion is reused" % fres.fmt(cached[0][0]), ctx.loc(fcls.module, fcls.methods[m]),
                          witness={"history": "fh.to_relative(c1); fh.to_relative(c2) with c2 != c1 returns the first result"})
        else:
            ctx.ok("R3", key, "no result is served from a per-instance store", ctx.loc(fcls.module, fcls.methods[m]))
    borrow(ctx, "C01", "check_window_class", ("SlidingWindowSplitter",), "R3", "update_predict:default-splitter-contract",
           lambda r: r["construct"].startswith("SlidingWindowSplitter") and r["rule"] != "R4",  # get_cutoffs / get_n_splits are not used by the replay
           "the SlidingWindowSplitter contract the moving-cutoff replay relies on "
           "(every feasible window is produced, train/test positions as specified)", roots=("sktime/forecasting/model_selection/_split.py",))
    # with update_params=False the fitted model is reused at a later cutoff: fit-time and predict-time time axes must agree
    borrow(ctx, "C11", "rule_time_axis", (), "R2", "update-without-refit:time-axis",
           lambda r: r["construct"].startswith("PolynomialTrendForecaster"), "the agreement of the trend forecaster's fit-time and predict-time "
           "time axis (it must not depend on how much data has been merged since the fit)",
           roots=("sktime/forecasting/trend.py", "sktime/forecasting/base/adapters/_statsmodels.py", FH_MOD, DT_MOD))


# ------------------------------------------------------------------------------------------ R2/R4: the default of update_params
DEFAULT_TRUE = ((SK, "_SktimeForecaster", "R2"), (BASE, "BaseForecaster", "R2"), (ENS, "EnsembleForecaster", "R4"), (STACK, "StackingForecaster", "R4"),
                (MUX, "MultiplexForecaster", "R4"), (PIPE, "TransformedTargetForecaster", "R4"), (THETA, "ThetaForecaster", "R2"),
                (DETREND, "Detrender", "R4"))


def update_defaults(ctx, repo):
    """"A forecaster that refits on update ..." is about ``update(y_new)`` as it is called: the default of ``update_params``
    is part of the mechanism.  The base default must be True (refit); composites that forward the flag explicitly must
    have the same default as the interface they forward to, otherwise ``composite.update(y)`` silently differs from
    updating its parts.  (OnlineEnsembleForecaster and the tuner document ``False`` and are reported as information.)"""
    base_fn = repo.func(BASE, "BaseForecaster.update")
    base_default = astq.const_value(astq.param_defaults(base_fn).get("update_params"), "?")
    for path, cname, rule in DEFAULT_TRUE:
        fn = repo.func(path, cname + ".update")
        d = astq.param_defaults(fn).get("update_params")
        loc = ctx.loc(repo.module(path), fn)
        key = cname + ".update:default-update_params"
        if d is None or not isinstance(d, ast.Constant):
            ctx.undecided(rule, key, "update_params has no constant default", loc)
            continue
        if cname in ("_SktimeForecaster", "BaseForecaster"):
            ctx.check(d.value is True, rule, key, "update(y) refits by default (update_params=True)",
                      "update(y) no longer re-estimates by default (update_params=%r): fit(y1); update(y2) differs from a fresh fit" % (d.value,), loc)
        else:
            ctx.check(d.value == base_default, rule, key, "same default as the forecaster interface (%r)" % (base_default,),
                      "%s.update(y) defaults to update_params=%r but the estimators it forwards to default to %r: updating the composite differs "
                      "from updating its parts" % (cname, d.value, base_default), loc)
    for path, cname in ((ONLINE, "OnlineEnsembleForecaster"), (TUNE, "BaseGridSearch")):
        d = astq.param_defaults(repo.func(path, cname + ".update")).get("update_params")
        if isinstance(d, ast.Constant) and d.value != base_default:
            ctx.info("%s.update defaults to update_params=%r (interface default %r): documented deviation, information only" % (cname, d.value, base_default))


# ------------------------------------------------------------------------------------------ R4
COMPOSITES = (
    (ENS, "EnsembleForecaster", True),
    (STACK, "StackingForecaster", True),
    (MUX, "MultiplexForecaster", True),
    (PIPE, "TransformedTargetForecaster", True),
    (ONLINE, "OnlineEnsembleForecaster", True),
    (TUNE, "BaseGridSearch", False),
    (DETREND, "Detrender", None),
)


def classify_receiver(res, recv):
    """(label, role, loop id or None, covers-all?)"""
    if isinstance(recv, tuple) and recv and recv[0] == "item":
        view = element_view(res, recv)  # for i in range(len(seq)): seq[i]
        if view is not None:
            base, rev, sl = seq_shape(view[0])
            if isinstance(base, tuple) and base[0] in ("attr0", "attr@") and base[1] == "forecasters_":
                return "members", "forecaster", view[2], sl is None
    if isinstance(recv, tuple) and recv and recv[0] == "elem":
        base, rev, sl = seq_shape(recv[1])
        if isinstance(base, tuple) and base[0] in ("attr0", "attr@") and base[1] == "forecasters_":
            return "members", "forecaster", recv[2], sl is None
    if isinstance(recv, tuple) and recv and recv[0] in ("attr0", "attr@") and recv[1] in ("_forecaster", "best_forecaster_", "forecaster_"):
        return recv[1], "forecaster", None, True
    if last_step_component(recv, 1):
        return "final-forecaster", "forecaster", None, True
    if isinstance(recv, tuple) and recv and recv[0] == "item" and recv[2] == ("const", 1) and isinstance(recv[1], tuple) and recv[1][0] == "elem":
        base, rev, sl = seq_shape(recv[1][1])
        if isinstance(base, tuple) and base[0] in ("attr0", "attr@") and base[1] in ("steps_", "steps"):
            return "transformers", "transformer", recv[1][2], sl == ("slice", NONE, ("const", -1), NONE)
    return None


def discover_composites(repo):
    """Estimator classes (outside the frozen table) whose own ``update`` calls ``update`` on another object."""
    listed = {c for _, c, _ in COMPOSITES}
    out = []
    for k in repo.estimator_classes():
        if k.name in listed or "update" not in k.methods:
            continue
        try:
            res = Prov(repo, no_inline=("_has_tag",)).run_method(k, "update")
        except (AnalysisError, RecursionError):
            continue
        if any(e.target is not None and e.target.kind == "attr" and classify_receiver(res, e.recv) for e in res.calls("update", kind=("call",))):
            is_sk = True if repo.is_subclass(k, "_SktimeForecaster") else (False if repo.is_subclass(k, "BaseForecaster") else None)
            out.append((k.module.relpath, k.name, is_sk))
    return out


def r4(ctx, repo):
    extra = discover_composites(repo)
    ctx.count("composite update methods", len(COMPOSITES) + len(extra))
    for path, cname, is_sk in COMPOSITES + tuple(extra):
        cls = repo.cls(path + ":" + cname)
        fn = repo.func(path, cname + ".update")
        res = analysed(ctx, Prov(repo, no_inline=("_has_tag", "_fit_ensemble")).run_method(cls, "update"))
        C = cname + ".update"
        loc0 = ctx.loc(cls.module, fn)
        params = astq.param_names(fn, skip_self=True)
        data = params[0]
        inner = [e for e in res.calls("update", kind=("call",)) if e.target.kind == "attr"]
        if not inner:
            ctx.violation("R4", C + ":propagates", "the new data is not propagated to any inner estimator", loc0)
            continue
        guard = res.calls("check_is_fitted", kind=("inline", "call"))
        if is_sk is not None:
            ctx.check(bool(guard) and res.unconditional(guard[0]) and all(res.dominates(guard[0], e) for e in inner), "R4", C + ":guard",
                      "check_is_fitted precedes every inner update", "an inner update can run before the not-fitted guard", loc0)
        if is_sk:
            merge = res.calls("_update_y_X", kind=("inline", "call"))
            if len(merge) != 1 or merge[0].bound is None:
                ctx.check(None if merge else False, "R4", C + ":merge", "", "the composite does not remember the new data itself (_update_y_X missing): "
                          "its own cutoff does not move", loc0)
            else:
                m = merge[0]
                ctx.check(res.unconditional(m), "R4", C + ":merge", "own data and cutoff updated on every path", "own merge is conditional", loc_of(m))
                forwarded(ctx, res, "R4", C + ":merge:y", m.bound.get("y"), P(data), "y handed to _update_y_X", "_update_y_X does not receive `y`", loc_of(m))
                forwarded(ctx, res, "R4", C + ":merge:X", m.bound.get("X"), P("X"), "X handed to _update_y_X", "_update_y_X does not receive `X`", loc_of(m))
        seen = set()
        for e in inner:
            cr = classify_receiver(res, e.recv)
            if cr is None:
                ctx.undecided("R4", C + ":inner", "update call on %s" % res.fmt(e.recv), loc_of(e))
                continue
            label, role, lid, covers = cr
            K = "%s:%s" % (C, label)
            seen.add(label)
            if role == "forecaster":
                b = e.bind(fsig(repo, "update"))
                vals = None if b is None else (b.get("y"), b.get("X"), b.get("update_params"))
            else:
                pos = tpos(repo, "update")
                bb = bind_interface(e, pos) if pos else None
                vals = None if bb is None else (bb[0], bb[1] if len(bb) > 1 else None, bb[2] if len(bb) > 2 else None)
            if vals is None:
                ctx.undecided("R4", K + ":bind", "cannot bind the inner update call", loc_of(e))
                continue
            d, x, up = vals
            # data
            ch = Chain(res, d) if d is not None else None
            if d is not None and (strip_views(d) == P(data) or (ch is not None and ch.ok and strip_views(ch.init) == P(data))
                                  or merged_value(res, d, P(data), "_y")):
                ctx.ok("R4", K + ":y", "inner update receives the new observations", loc_of(e))
            elif d is None or not mentions(res, d, P(data)) or proper_part(d, P(data)):
                ctx.violation("R4", K + ":y", "inner update does not receive the new observations: %s" % (res.fmt(d) if d is not None else "nothing"), loc_of(e))
            else:
                ctx.undecided("R4", K + ":y", "inner update receives %s" % res.fmt(d), loc_of(e))
            if role == "forecaster":
                forwarded(ctx, res, "R4", K + ":X", x, P("X"), "X forwarded", "the new exogenous data `X` is not forwarded to the inner update "
                          "(the inner forecaster's remembered X falls behind its y)", loc_of(e))
            bb2 = bool_behaviour(res, up, P("update_params")) if up is not None else (None, None)
            if up is not None and up != P("update_params") and bb2 == (True, False):
                ctx.ok("R4", K + ":update_params", "update_params forwarded (equivalent boolean)", loc_of(e))
            elif up is not None and up != P("update_params") and mentions(res, up, P("update_params")) and None not in bb2:
                ctx.violation("R4", K + ":update_params", "the inner update receives %s: for update_params=True/False the inner value is %s/%s"
                              % (res.fmt(up), bb2[0], bb2[1]), loc_of(e))
            else:
                forwarded(ctx, res, "R4", K + ":update_params", up, P("update_params"), "update_params forwarded",
                          "`update_params` is not forwarded (inner parameters are %s regardless of the caller's choice)"
                          % ("updated" if up in (None, ("const", True)) else "kept"), loc_of(e))

            def allowed(c, recv=e.recv):
                return c[0] == "if" and c[1] == ("hasattr", recv, ("const", "update")) and c[2] is True

            disp = [d for d in res.of_kind("dispatch") if any(isinstance(x, tuple) and x[:1] == ("comp",) and len(x) == 3 and x[2] in res.loops_of(e)
                                                                for x in _subterms(d.value))]
            if disp:
                kept = any(mentions(res, st.value, ("ret", e.id)) or mentions(res, st.value, disp[0].ret) for st in res.stores() if st.id > disp[0].id)
                ctx.check(kept, "R4", K + ":in-process", "the updated estimators returned by the workers are stored back",
                          "the inner updates are dispatched through joblib.Parallel and the returned estimators are dropped: with n_jobs > 1 the "
                          "workers update pickled copies, the composite's own members never see the new data", loc_of(disp[0]),
                          witness={"configuration": "n_jobs=2", "history": "fit(y1); update(y2); predict(): member cutoffs unchanged"})
            cov = res.unconditional(e, allow_loops=(lid,) if lid else (), allow=allowed) and covers and (lid is None or loop_plain(res, lid))
            ctx.check(cov, "R4", K + ":coverage", "every inner estimator is updated on every path",
                      "not every inner estimator is updated on every path (conditional or partial loop)", loc_of(e))
        if is_sk is None:
            val = [e for e in res.calls("check_series", kind=("inline", "call")) if e.bound]
            if len(val) == 1:
                ae = val[0].bound.get("allow_empty")
                ctx.check(ae == ("const", True) if is_const(ae) else None, "R4", C + ":allow-empty", "an empty batch is accepted (allow_empty=True)",
                          "%s.update rejects an empty batch (allow_empty=%s): a pipeline containing it fails in update_predict whenever a window "
                          "brings no new data (the forecaster side accepts it)" % (cname, res.fmt(ae)), loc_of(val[0]))
        if cname == "TransformedTargetForecaster":
            ctx.check("transformers" in seen, "R4", C + ":transformers:present", "the transformers are updated",
                      "the transformers are never updated (their time reference / inner models fall behind the data)", loc0)
            ctx.check("final-forecaster" in seen, "R4", C + ":final-forecaster:present", "the final forecaster is updated",
                      "the final forecaster is never updated", loc0)
        rets = [v for v, _ in res.returns]
        ctx.check(all(v == ("self",) for v in rets), "R4", C + ":returns-self", "returns self", "update does not return self", loc0)


def run(ctx):
    repo = ctx.repo
    ctx.explain("C10: provenance dataflow over the update machinery: R1 operand order and guards of the merge in _update_y_X; "
                "R2 the refit of the default update uses the merged self._y/_X/self.fh under update_params (and Theta's trend update "
                "uses all remembered data); R3 save/restore pairing of _detached_cutoff (try/finally around the yield), every "
                "cutoff-moving action of _predict_moving_cutoff inside the with-block, forecast and post-update cutoff collected per "
                "iteration and handed to the formatter in the right roles; R4 every composite update guards, merges and forwards "
                "y, X, update_params to every inner update.")
    ctx.assume("pandas: a.combine_first(b) keeps a's values where both have one (receiver wins)")
    ctx.assume("contextlib.contextmanager runs the code after `yield` in a `finally` also when the with-body raises")
    ctx.assume("calling a non-inlined method on self may change any attribute of self (reads afterwards are fresh values)")
    for anchor in ("_update_y_X", "update", "_detached_cutoff", "_predict_moving_cutoff", "_set_cutoff", "update_predict"):
        repo.func(SK, "_SktimeForecaster." + anchor)
    repo.func(BASE, "BaseForecaster.update")
    repo.func(DESEAS, "Deseasonalizer.update")
    r1(ctx, repo)
    r2(ctx, repo)
    r3(ctx, repo)
    r3_steps(ctx, repo)
    r3_helpers(ctx, repo)
    update_defaults(ctx, repo)
    r4(ctx, repo)
    # floors (today: R1 10, R2 13, R3 86, R4 61 instances): a vanished family fails closed
    ctx.floor("R1", 8)
    ctx.floor("R2", 10)
    ctx.floor("R3", 70)
    ctx.floor("R4", 50)
