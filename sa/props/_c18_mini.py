"""Token interpreter for C18: abstract interpretation of the .ts writer / parsers over *symbolic tokens*.

Nothing below /repo is imported or executed by Python: function bodies are walked as ``ast`` trees by this
interpreter.  Values are ordinary Python scalars / str / list / tuple / dict for what the analysed code computes
with literals, plus

* token strings -- opaque observation / label / name tokens written as ``<o3>``-style markers inside real
  strings, so the code's own ``split`` / ``strip`` / ``lower`` / ``startswith`` decide how separators and tags
  are handled, never a table in the checker;
* model objects (files, frames, series, modules) supplied by the rule through ``externals`` -- the transfer
  table of trusted library semantics.

Anything outside the supported language subset or the transfer table raises ``Undecided`` (reported as
UNDECIDED, exit 2) -- never a verdict.  ``coverage`` records which branch of which ``if`` was taken so a rule
can prove that its scenario set exercises every path it claims to cover.
"""
import ast

from ..index import dotted

MAX_STEPS = 400000
MAX_DEPTH = 8


class Undecided(Exception):
    pass


class PyRaise(Exception):
    """The interpreted code raised an exception."""

    def __init__(self, exc, node=None):
        Exception.__init__(self, "%s" % (exc,))
        self.exc, self.node = exc, node


class ExcInstance:
    def __init__(self, cls_name, args, bases=()):
        self.cls_name, self.args, self.bases = cls_name, args, tuple(bases)

    def __repr__(self):
        return "%s(%s)" % (self.cls_name, ", ".join(str(a)[:120] for a in self.args))


class ExcClass:
    def __init__(self, name, bases=("Exception",)):
        self.name, self.bases = name, tuple(bases)

    def m_call(self, interp, args, kwargs, node):
        return ExcInstance(self.name, args, self.bases)

    def matches(self, inst):
        return inst.cls_name == self.name or self.name in inst.bases or self.name in ("Exception", "BaseException")


class Ext:
    """External (non-repo) name, e.g. Ext('numpy.float32'); behaviour comes from the externals table."""

    def __init__(self, name):
        self.name = name

    def __repr__(self):
        return "<ext %s>" % self.name

    def __eq__(self, o):
        return isinstance(o, Ext) and o.name == self.name

    def __hash__(self):
        return hash(("Ext", self.name))


class Func:
    """Repo function.  ``raw``: call the body directly (decorators already applied / deliberately bypassed);
    ``outer``: environment of the enclosing function for a nested definition (closure)."""

    def __init__(self, module, node, raw=False, outer=None):
        self.module, self.node, self.raw, self.outer = module, node, raw, outer


class Builtin:
    def __init__(self, fn, name=""):
        self.fn, self.name = fn, name


class BoundExt:
    """Method of a model object: obj.m_method(name, args, kwargs)."""

    def __init__(self, obj, name):
        self.obj, self.name = obj, name


class _Return(Exception):
    def __init__(self, v):
        self.v = v


class _Break(Exception):
    pass


class _Continue(Exception):
    pass


STR_METHODS = {"strip", "lstrip", "rstrip", "lower", "upper", "split", "rsplit", "startswith", "endswith", "replace",
               "rfind", "find", "join", "isspace", "isdigit", "isnumeric", "isalpha", "format", "capitalize", "count",
               "index", "splitlines", "title", "partition", "rpartition", "zfill", "encode"}
LIST_METHODS = {"append", "extend", "insert", "pop", "index", "count", "copy", "sort", "reverse", "remove", "clear"}
DICT_METHODS = {"get", "keys", "values", "items", "pop", "setdefault", "update", "copy"}
TUPLE_METHODS = {"index", "count"}
SET_METHODS = {"add", "union", "intersection", "discard", "update", "difference"}

BUILTIN_EXC = {
    "Exception": (), "BaseException": (), "ValueError": ("Exception",), "TypeError": ("Exception",),
    "IndexError": ("LookupError", "Exception"), "KeyError": ("LookupError", "Exception"), "OSError": ("Exception",),
    "IOError": ("OSError", "Exception"), "NotImplementedError": ("RuntimeError", "Exception"),
    "RuntimeError": ("Exception",), "AttributeError": ("Exception",), "NameError": ("Exception",),
    "FileNotFoundError": ("OSError", "Exception"), "StopIteration": ("Exception",), "AssertionError": ("Exception",),
    "UnboundLocalError": ("NameError", "Exception"), "ZeroDivisionError": ("ArithmeticError", "Exception"),
}


class Interp:
    def __init__(self, repo, externals=None, to_float=None, str_hook=None, set_reverse=True):
        self.repo = repo
        self.set_reverse = set_reverse  # which of the two fixed iteration orders sets are given (order is unspecified)
        self.str_hook = str_hook  # (string, method name) -> callable or None: token-aware string methods
        self.externals = externals or {}
        self.to_float = to_float
        self.steps = 0
        self.coverage = set()  # (id(if-node), bool)
        self.lines = {}  # id(if-node) -> lineno
        self.top_env = {}

    # ------------------------------------------------------------------------------------------- functions
    TRANSPARENT_DECORATORS = {"functools.wraps", "functools.lru_cache", "functools.cache", "staticmethod", "classmethod",
                              "abc.abstractmethod"}

    def decorated(self, module, fn, outer=None):
        """The callable a ``def`` statement binds: the function with its decorators applied (bottom-up).  Repo-local
        decorators are interpreted; an external decorator without a transfer function is UNDECIDED."""
        cur = Func(module, fn, raw=True, outer=outer)
        frame = {"module": module, "env": {}, "depth": 0, "fn": None, "outer": outer}
        for d in reversed(fn.decorator_list):
            dv = self.ev(d, frame)
            if isinstance(dv, Builtin) and dv.name in ("staticmethod", "classmethod", "property"):
                continue
            cur = self.call(dv, [cur], {}, d, frame)
        return cur

    def call_entry(self, module, fn, args=(), kwargs=None):
        """Call a module-level function the way a client does: through its decorators."""
        f = self.decorated(module, fn) if fn.decorator_list else Func(module, fn, raw=True)
        return self.call(f, list(args), dict(kwargs or {}), fn, {"module": module, "env": {}, "depth": 0, "fn": None})

    def call_function(self, module, fn, args=(), kwargs=None, depth=0, outer=None):
        if depth > MAX_DEPTH:
            raise Undecided("call depth exceeded in %s" % fn.name)
        kwargs = dict(kwargs or {})
        a = fn.args
        names = [p.arg for p in a.posonlyargs + a.args]
        env = {}
        args = list(args)
        if len(args) > len(names) and a.vararg is None:
            raise PyRaise(ExcInstance("TypeError", ["%s() takes %d positional arguments but %d were given" % (fn.name, len(names), len(args))], ("Exception",)))
        for n, v in zip(names, args):
            env[n] = v
        if a.vararg is not None:
            env[a.vararg.arg] = tuple(args[len(names):])
        for k in list(kwargs):
            if k in names or k in [p.arg for p in a.kwonlyargs]:
                if k in env:
                    raise PyRaise(ExcInstance("TypeError", ["%s() got multiple values for argument %r" % (fn.name, k)], ("Exception",)))
                env[k] = kwargs.pop(k)
        if kwargs:
            if a.kwarg is None:
                raise PyRaise(ExcInstance("TypeError", ["%s() got an unexpected keyword argument %r" % (fn.name, sorted(kwargs)[0])], ("Exception",)))
            env[a.kwarg.arg] = kwargs
        frame = {"module": module, "env": env, "depth": depth, "fn": fn, "outer": outer}
        if depth == 0:
            self.top_env = env
        pos = a.posonlyargs + a.args
        for p, d in zip(pos[len(pos) - len(a.defaults):], a.defaults):
            if p.arg not in env:
                env[p.arg] = self.ev(d, frame)
        for p, d in zip(a.kwonlyargs, a.kw_defaults):
            if p.arg not in env and d is not None:
                env[p.arg] = self.ev(d, frame)
        for p in pos + a.kwonlyargs:
            if p.arg not in env:
                raise PyRaise(ExcInstance("TypeError", ["%s() missing required argument %r" % (fn.name, p.arg)], ("Exception",)))
        gen = _is_generator(fn)
        if gen:
            frame["yields"] = []
        try:
            self.block(fn.body, frame)
        except _Return as r:
            return frame["yields"] if gen else r.v
        return frame["yields"] if gen else None

    # ------------------------------------------------------------------------------------------ statements
    def block(self, stmts, frame):
        for st in stmts:
            self.stmt(st, frame)

    def tick(self):
        self.steps += 1
        if self.steps > MAX_STEPS:
            raise Undecided("step budget exhausted (non-terminating or too large scenario)")

    def stmt(self, st, frame):
        self.tick()
        m = getattr(self, "st_" + type(st).__name__, None)
        if m is None:
            raise Undecided("statement %s not supported (line %s)" % (type(st).__name__, getattr(st, "lineno", "?")))
        try:
            m(st, frame)
        except PyRaise as e:
            if e.node is None:
                e.node = st
            raise

    def st_Expr(self, st, frame):
        self.ev(st.value, frame)

    def st_Pass(self, st, frame):
        pass

    def st_Assign(self, st, frame):
        v = self.ev(st.value, frame)
        for t in st.targets:
            self.assign(t, v, frame)

    def st_AnnAssign(self, st, frame):
        if st.value is not None:
            self.assign(st.target, self.ev(st.value, frame), frame)

    def st_AugAssign(self, st, frame):
        load = ast.copy_location(_as_load(st.target), st.target)
        cur = self.ev(load, frame)
        val = self.binop(st.op, cur, self.ev(st.value, frame), st)
        self.assign(st.target, val, frame)

    def st_Return(self, st, frame):
        raise _Return(self.ev(st.value, frame) if st.value is not None else None)

    def st_Break(self, st, frame):
        raise _Break()

    def st_Continue(self, st, frame):
        raise _Continue()

    def st_Import(self, st, frame):
        for a in st.names:
            frame["env"][a.asname or a.name.split(".")[0]] = Ext(a.name if a.asname else a.name.split(".")[0])

    def st_ImportFrom(self, st, frame):
        for a in st.names:
            frame["env"][a.asname or a.name] = Ext((st.module or "") + "." + a.name)

    def st_Assert(self, st, frame):
        if not self.truth(self.ev(st.test, frame), st):
            raise PyRaise(ExcInstance("AssertionError", [], ("Exception",)), st)

    def st_Raise(self, st, frame):
        if st.exc is None:
            cur = frame.get("handling")
            if cur is None:
                raise Undecided("bare raise outside handler")
            raise PyRaise(cur, st)
        v = self.ev(st.exc, frame)
        if isinstance(v, ExcClass):
            v = ExcInstance(v.name, [], v.bases)
        if not isinstance(v, ExcInstance):
            raise Undecided("raise of a non-exception value")
        raise PyRaise(v, st)

    def st_If(self, st, frame):
        t = self.truth(self.ev(st.test, frame), st)
        self.coverage.add((id(st), t))
        self.lines[id(st)] = st.lineno
        self.block(st.body if t else st.orelse, frame)

    def st_While(self, st, frame):
        while self.truth(self.ev(st.test, frame), st):
            self.tick()
            try:
                self.block(st.body, frame)
            except _Break:
                return
            except _Continue:
                continue
        self.block(st.orelse, frame)

    def st_For(self, st, frame):
        it = self.iterate(self.ev(st.iter, frame), st)
        for v in it:
            self.tick()
            self.assign(st.target, v, frame)
            try:
                self.block(st.body, frame)
            except _Break:
                return
            except _Continue:
                continue
        self.block(st.orelse, frame)

    def st_With(self, st, frame):
        for item in st.items:
            v = self.ev(item.context_expr, frame)
            if hasattr(v, "m_enter"):
                v = v.m_enter()
            if item.optional_vars is not None:
                self.assign(item.optional_vars, v, frame)
        self.block(st.body, frame)

    def st_Try(self, st, frame):
        try:
            try:
                self.block(st.body, frame)
            except PyRaise as e:
                for h in st.handlers:
                    if self.handler_matches(h, e.exc, frame):
                        if h.name:
                            frame["env"][h.name] = e.exc
                        old = frame.get("handling")
                        frame["handling"] = e.exc
                        try:
                            self.block(h.body, frame)
                        finally:
                            frame["handling"] = old
                        break
                else:
                    raise
            else:
                self.block(st.orelse, frame)
        finally:
            if st.finalbody:
                self.block(st.finalbody, frame)

    def handler_matches(self, h, exc, frame):
        if h.type is None:
            return True
        t = self.ev(h.type, frame)
        ts = t if isinstance(t, tuple) else (t,)
        for k in ts:
            if isinstance(k, ExcClass) and k.matches(exc):
                return True
            if isinstance(k, Ext):
                short = k.name.split(".")[-1]
                if short in ("error",) and ("OSError" in (exc.cls_name,) + exc.bases):
                    return True
                if exc.cls_name == short or short in exc.bases:
                    return True
        return False

    def st_FunctionDef(self, st, frame):
        """Nested definition: a closure over the enclosing frame (free names are looked up there at call time)."""
        frame["env"][st.name] = self.decorated(frame["module"], st, outer=frame) if st.decorator_list \
            else Func(frame["module"], st, raw=True, outer=frame)

    def st_Delete(self, st, frame):
        raise Undecided("del statement")

    # ------------------------------------------------------------------------------------------ assignment
    def assign(self, t, v, frame):
        if isinstance(t, ast.Name):
            frame["env"][t.id] = v
        elif isinstance(t, (ast.Tuple, ast.List)):
            vals = list(self.iterate(v, t))
            if any(isinstance(e, ast.Starred) for e in t.elts):
                raise Undecided("starred assignment target")
            if len(vals) != len(t.elts):
                raise PyRaise(ExcInstance("ValueError", ["cannot unpack %d values into %d targets" % (len(vals), len(t.elts))], ("Exception",)), t)
            for e, x in zip(t.elts, vals):
                self.assign(e, x, frame)
        elif isinstance(t, ast.Subscript):
            base = self.ev(t.value, frame)
            idx = self.ev_index(t.slice, frame)
            if hasattr(base, "m_setitem"):
                base.m_setitem(self, idx, v)
            elif isinstance(base, (list, dict)):
                try:
                    base[idx] = v
                except (IndexError, KeyError, TypeError) as e:
                    raise PyRaise(ExcInstance(type(e).__name__, [str(e)], BUILTIN_EXC.get(type(e).__name__, ())), t)
            else:
                raise Undecided("subscript store on %s" % type(base).__name__)
        elif isinstance(t, ast.Attribute):
            base = self.ev(t.value, frame)
            if hasattr(base, "m_setattr"):
                base.m_setattr(self, t.attr, v)
            else:
                raise Undecided("attribute store on %s" % type(base).__name__)
        else:
            raise Undecided("assignment target %s" % type(t).__name__)

    # ----------------------------------------------------------------------------------------- expressions
    def ev(self, e, frame):
        m = getattr(self, "ev_" + type(e).__name__, None)
        if m is None:
            raise Undecided("expression %s not supported (line %s)" % (type(e).__name__, getattr(e, "lineno", "?")))
        return m(e, frame)

    def ev_Constant(self, e, frame):
        return e.value

    def ev_Name(self, e, frame):
        env = frame["env"]
        if e.id in env:
            return env[e.id]
        if e.id in frame.get("locals_declared", ()):
            pass
        # a name assigned somewhere in the function but not yet bound -> UnboundLocalError
        fn = frame.get("fn")
        if fn is not None and _is_local(fn, e.id):
            raise PyRaise(ExcInstance("UnboundLocalError", ["local variable %r referenced before assignment" % e.id],
                                      BUILTIN_EXC["UnboundLocalError"]), e)
        outer = frame.get("outer")
        while outer is not None:
            if e.id in outer["env"]:
                return outer["env"][e.id]
            outer = outer.get("outer")
        return self.global_name(frame["module"], e.id, previous=frame.get("rebinding") == e.id)

    def global_name(self, module, name, previous=False):
        """``previous``: the binding the name had *before* a module-level ``name = wrapper(name)`` (i.e. the import)."""
        if previous and module is not None and name in module.imports:
            sym = self.repo._resolve_abs(module.imports[name])
        else:
            sym = self.repo.resolve_name(module, name) if module is not None else None
        if sym is not None:
            if sym.kind == "func":
                return Func(sym.module, sym.target)
            if sym.kind == "class":
                k = sym.target
                bases = []
                for b in self.repo.mro(k)[1:]:
                    bases.append(b.name if hasattr(b, "name") else str(b).replace("ext:", "").split(".")[-1])
                if any(b in ("Exception", "BaseException") or b in BUILTIN_EXC for b in bases):
                    return ExcClass(k.name, tuple(bases) + ("Exception",))
                return Ext(sym.dotted)
            if sym.kind == "const":
                return self.ev(sym.target, {"module": sym.module, "env": {}, "depth": 0, "fn": None, "rebinding": name})
            if sym.kind in ("ext", "module"):
                return Ext(sym.dotted)
        if name in BUILTIN_EXC:
            return ExcClass(name, BUILTIN_EXC[name])
        if name in PY_BUILTINS:
            return PY_BUILTINS[name]
        if "builtins." + name in self.externals:
            return Ext("builtins." + name)
        if name in ("__file__", "__name__"):
            return "<%s>" % name
        raise Undecided("unresolved name %r" % name)

    def ev_Attribute(self, e, frame):
        base = self.ev(e.value, frame)
        return self.getattr(base, e.attr, e)

    def getattr(self, base, attr, node=None):
        if isinstance(base, Ext):
            full = base.name + "." + attr
            if full in self.externals and not callable(self.externals[full]):
                return self.externals[full]
            return Ext(full)
        if hasattr(base, "m_getattr"):
            return base.m_getattr(self, attr)
        if isinstance(base, str) and attr in STR_METHODS:
            if self.str_hook is not None:
                h = self.str_hook(base, attr)
                if h is not None:
                    return Builtin(h, "str." + attr)
            return Builtin(getattr(base, attr), "str." + attr)
        if isinstance(base, list) and attr in LIST_METHODS:
            return Builtin(getattr(base, attr), "list." + attr)
        if isinstance(base, dict) and attr in DICT_METHODS:
            return Builtin(getattr(base, attr), "dict." + attr)
        if isinstance(base, tuple) and attr in TUPLE_METHODS:
            return Builtin(getattr(base, attr), "tuple." + attr)
        if isinstance(base, (set, frozenset)) and attr in SET_METHODS:
            return Builtin(getattr(base, attr), "set." + attr)
        if isinstance(base, Builtin) and base.name == "str" and attr in STR_METHODS:
            return Builtin(getattr(str, attr), "str." + attr)
        if isinstance(base, ExcInstance) and attr == "args":
            return tuple(base.args)
        if base is None or isinstance(base, (bool, int, float, str, list, tuple, dict)):
            raise PyRaise(ExcInstance("AttributeError", ["%s object has no attribute %r" % (type(base).__name__, attr)],
                                      BUILTIN_EXC["AttributeError"]), node)
        raise Undecided("attribute %r of %s" % (attr, type(base).__name__))

    def ev_Call(self, e, frame):
        f = self.ev(e.func, frame)
        args = []
        for a in e.args:
            if isinstance(a, ast.Starred):
                args.extend(self.iterate(self.ev(a.value, frame), a))
            else:
                args.append(self.ev(a, frame))
        kwargs = {}
        for k in e.keywords:
            if k.arg is None:
                d = self.ev(k.value, frame)
                if not isinstance(d, dict):
                    raise Undecided("** of non-dict")
                kwargs.update(d)
            else:
                kwargs[k.arg] = self.ev(k.value, frame)
        return self.call(f, args, kwargs, e, frame)

    def call(self, f, args, kwargs, node, frame):
        self.tick()
        if isinstance(f, Func):
            if not f.raw and f.node.decorator_list:
                return self.call(self.decorated(f.module, f.node), args, kwargs, node, frame)
            return self.call_function(f.module, f.node, args, kwargs, frame.get("depth", 0) + 1, outer=f.outer)
        if isinstance(f, Builtin):
            wants = getattr(f.fn, "_wants_interp", False)
            container = f.name.split(".")[0] in ("list", "dict", "set")
            if not wants and not container and any(_symbolic(a) for a in args):
                raise Undecided("builtin %s applied to a model object" % (f.name or f.fn))
            try:
                if wants:
                    return f.fn(self, node, *args, **kwargs)
                return f.fn(*args, **kwargs)
            except (PyRaise, Undecided):
                raise
            except (ValueError, TypeError, IndexError, KeyError, AttributeError, ZeroDivisionError) as ex:
                raise PyRaise(ExcInstance(type(ex).__name__, [str(ex)], BUILTIN_EXC.get(type(ex).__name__, ("Exception",))), node)
        if isinstance(f, ExcClass):
            return f.m_call(self, args, kwargs, node)
        if isinstance(f, Ext):
            h = self.externals.get(f.name)
            if h is None or not callable(h):
                raise Undecided("no transfer function for %s" % f.name)
            try:
                return h(self, args, kwargs, node)
            except (PyRaise, Undecided):
                raise
            except (TypeError, ValueError, AttributeError, IndexError, KeyError) as ex:
                # the modelled library call rejects these arguments (e.g. os.path.dirname(None))
                raise PyRaise(ExcInstance(type(ex).__name__, ["%s: %s" % (f.name, ex)], BUILTIN_EXC.get(type(ex).__name__, ("Exception",))), node)
        if isinstance(f, BoundExt):
            return f.obj.m_method(self, f.name, args, kwargs, node)
        if hasattr(f, "m_call"):
            return f.m_call(self, args, kwargs, node)
        raise Undecided("call of %s" % type(f).__name__)

    def ev_BinOp(self, e, frame):
        return self.binop(e.op, self.ev(e.left, frame), self.ev(e.right, frame), e)

    def binop(self, op, a, b, node):
        for x in (a, b):
            if hasattr(x, "m_binop"):
                return x.m_binop(self, op, a, b, node)
        if _symbolic(a) or _symbolic(b):
            raise Undecided("arithmetic on a model object (line %s)" % getattr(node, "lineno", "?"))
        try:
            if isinstance(op, ast.Add):
                return a + b
            if isinstance(op, ast.Sub):
                return a - b
            if isinstance(op, ast.Mult):
                return a * b
            if isinstance(op, ast.Div):
                return a / b
            if isinstance(op, ast.FloorDiv):
                return a // b
            if isinstance(op, ast.Mod):
                return a % b
            if isinstance(op, ast.Pow):
                return a ** b
        except (TypeError, ValueError, ZeroDivisionError) as ex:
            raise PyRaise(ExcInstance(type(ex).__name__, [str(ex)], BUILTIN_EXC.get(type(ex).__name__, ())), node)
        raise Undecided("operator %s" % type(op).__name__)

    def ev_UnaryOp(self, e, frame):
        v = self.ev(e.operand, frame)
        if isinstance(e.op, ast.Not):
            return not self.truth(v, e)
        if isinstance(e.op, ast.Invert) and hasattr(v, "m_invert"):
            return v.m_invert(self)
        if _symbolic(v):
            raise Undecided("unary operator on a model object")
        if isinstance(e.op, ast.USub):
            return -v
        if isinstance(e.op, ast.UAdd):
            return +v
        raise Undecided("unary operator")

    def ev_BoolOp(self, e, frame):
        v = None
        for x in e.values:
            v = self.ev(x, frame)
            t = self.truth(v, e)
            if isinstance(e.op, ast.And) and not t:
                return v
            if isinstance(e.op, ast.Or) and t:
                return v
        return v

    def ev_Compare(self, e, frame):
        left = self.ev(e.left, frame)
        for op, c in zip(e.ops, e.comparators):
            right = self.ev(c, frame)
            res = self.compare(op, left, right, e)
            if len(e.ops) == 1:
                return res  # may be a vector (element-wise comparison of a model object)
            if not self.truth(res, e):
                return False
            left = right
        return True

    def compare(self, op, a, b, node):
        if isinstance(op, ast.Is):
            return a is b or (_scalar(a) and _scalar(b) and type(a) is type(b) and a == b and isinstance(a, (bool, type(None))))
        if isinstance(op, ast.IsNot):
            return not self.compare(ast.Is(), a, b, node)
        if isinstance(op, (ast.In, ast.NotIn)):
            if hasattr(b, "m_contains"):
                r = b.m_contains(self, a)
            elif isinstance(b, (list, tuple, dict, set, frozenset, str)):
                if isinstance(b, str) and not isinstance(a, str):
                    raise PyRaise(ExcInstance("TypeError", ["'in <string>' requires string as left operand"], ("Exception",)), node)
                r = a in b
            else:
                raise Undecided("membership test on %s" % type(b).__name__)
            return r if isinstance(op, ast.In) else not r
        for x in (a, b):
            if hasattr(x, "m_compare"):
                return x.m_compare(self, op, a, b, node)
        if isinstance(op, ast.Eq):
            return a == b
        if isinstance(op, ast.NotEq):
            return a != b
        if _symbolic(a) or _symbolic(b):
            raise Undecided("ordering comparison on a model object")
        try:
            if isinstance(op, ast.Lt):
                return a < b
            if isinstance(op, ast.LtE):
                return a <= b
            if isinstance(op, ast.Gt):
                return a > b
            if isinstance(op, ast.GtE):
                return a >= b
        except TypeError as ex:
            raise PyRaise(ExcInstance("TypeError", [str(ex)], ("Exception",)), node)
        raise Undecided("comparison")

    def ev_IfExp(self, e, frame):
        return self.ev(e.body if self.truth(self.ev(e.test, frame), e) else e.orelse, frame)

    def ev_JoinedStr(self, e, frame):
        out = []
        for v in e.values:
            if isinstance(v, ast.Constant):
                out.append(str(v.value))
            else:
                x = self.ev(v.value, frame)
                if v.format_spec is not None:
                    raise Undecided("format spec in f-string")
                out.append(self.to_str(x, v, repr_=(v.conversion == 114)))
        return "".join(out)

    def to_str(self, x, node=None, repr_=False):
        if hasattr(x, "m_str"):
            return x.m_str(self)
        if _symbolic(x):
            raise Undecided("str() of %s" % type(x).__name__)
        return repr(x) if repr_ else str(x)

    def ev_List(self, e, frame):
        return [self.ev(x, frame) for x in e.elts]

    def ev_Tuple(self, e, frame):
        return tuple(self.ev(x, frame) for x in e.elts)

    def ev_Set(self, e, frame):
        return set(self.ev(x, frame) for x in e.elts)

    def ev_Dict(self, e, frame):
        return {self.ev(k, frame): self.ev(v, frame) for k, v in zip(e.keys, e.values)}

    def _comp(self, e, frame, emit):
        env = dict(frame["env"])
        sub = dict(frame, env=env)

        def rec(i):
            if i == len(e.generators):
                emit(sub)
                return
            g = e.generators[i]
            for v in self.iterate(self.ev(g.iter, sub), g):
                self.tick()
                self.assign(g.target, v, sub)
                if all(self.truth(self.ev(c, sub), c) for c in g.ifs):
                    rec(i + 1)
        rec(0)

    def ev_ListComp(self, e, frame):
        out = []
        self._comp(e, frame, lambda f: out.append(self.ev(e.elt, f)))
        return out

    ev_GeneratorExp = ev_ListComp

    def ev_SetComp(self, e, frame):
        return set(self.ev_ListComp(e, frame))

    def ev_DictComp(self, e, frame):
        out = {}
        self._comp(e, frame, lambda f: out.__setitem__(self.ev(e.key, f), self.ev(e.value, f)))
        return out

    def ev_Subscript(self, e, frame):
        base = self.ev(e.value, frame)
        idx = self.ev_index(e.slice, frame)
        if hasattr(base, "m_getitem"):
            return base.m_getitem(self, idx, e)
        if isinstance(base, (list, tuple, str, dict)):
            try:
                return base[idx]
            except (IndexError, KeyError, TypeError) as ex:
                raise PyRaise(ExcInstance(type(ex).__name__, [str(ex)], BUILTIN_EXC.get(type(ex).__name__, ("Exception",))), e)
        raise Undecided("subscript of %s" % type(base).__name__)

    def ev_index(self, s, frame):
        if isinstance(s, ast.Slice):
            return slice(*(self.ev(x, frame) if x is not None else None for x in (s.lower, s.upper, s.step)))
        if isinstance(s, ast.Tuple):
            return tuple(self.ev_index(x, frame) for x in s.elts)
        return self.ev(s, frame)

    def ev_Yield(self, e, frame):
        """Generators are run to completion; the yielded values are collected in order (no value is sent in)."""
        if "yields" not in frame:
            raise Undecided("yield outside a function")
        frame["yields"].append(self.ev(e.value, frame) if e.value is not None else None)
        return None

    def ev_YieldFrom(self, e, frame):
        if "yields" not in frame:
            raise Undecided("yield outside a function")
        frame["yields"].extend(self.iterate(self.ev(e.value, frame), e))
        return None

    def ev_Starred(self, e, frame):
        raise Undecided("starred expression")

    def ev_Lambda(self, e, frame):
        raise Undecided("lambda")

    # ------------------------------------------------------------------------------------------ protocols
    def truth(self, v, node=None):
        if hasattr(v, "m_truth"):
            return v.m_truth(self)
        if _symbolic(v):
            raise Undecided("truth value of %s (line %s)" % (type(v).__name__, getattr(node, "lineno", "?")))
        return bool(v)

    def iterate(self, v, node=None):
        if hasattr(v, "m_iter"):
            return v.m_iter(self)
        if isinstance(v, (set, frozenset)):
            # iteration order of a set is unspecified: take a fixed, deliberately non-insertion order so that code
            # relying on it is judged the same way on every run
            return sorted(v, key=repr, reverse=self.set_reverse)
        if isinstance(v, (list, tuple, str, dict, range)):
            return list(v)
        if v is None or isinstance(v, (bool, int, float)):
            raise PyRaise(ExcInstance("TypeError", ["%r object is not iterable" % type(v).__name__], ("Exception",)), node)
        raise Undecided("iteration over %s (line %s)" % (type(v).__name__, getattr(node, "lineno", "?")))

    def length(self, v, node=None):
        if hasattr(v, "m_len"):
            return v.m_len(self)
        if isinstance(v, (list, tuple, str, dict, set, frozenset, range)):
            return len(v)
        raise PyRaise(ExcInstance("TypeError", ["object of type %s has no len()" % type(v).__name__], ("Exception",)), node)


def _as_load(t):
    import copy
    t2 = copy.copy(t)
    t2.ctx = ast.Load()
    return t2


_local_cache = {}


def _is_generator(fn):
    stack = list(fn.body)
    while stack:
        n = stack.pop()
        if isinstance(n, (ast.FunctionDef, ast.AsyncFunctionDef, ast.ClassDef, ast.Lambda)):
            continue
        if isinstance(n, (ast.Yield, ast.YieldFrom)):
            return True
        stack.extend(ast.iter_child_nodes(n))
    return False


def _is_local(fn, name):
    key = id(fn)
    if key in _local_cache and _local_cache[key][0] is not fn:
        del _local_cache[key]  # the id of a collected node was reused
    if key not in _local_cache:
        names = set()
        stack = list(fn.body)
        while stack:
            n = stack.pop()
            if isinstance(n, (ast.FunctionDef, ast.AsyncFunctionDef, ast.ClassDef, ast.Lambda)):
                continue
            if isinstance(n, ast.Name) and isinstance(n.ctx, ast.Store):
                names.add(n.id)
            if isinstance(n, (ast.ListComp, ast.SetComp, ast.DictComp, ast.GeneratorExp)):
                continue
            stack.extend(ast.iter_child_nodes(n))
        _local_cache[key] = (fn, names)
    return name in _local_cache[key][1]


def _scalar(v):
    return v is None or isinstance(v, (bool, int, float, str))


def _symbolic(v):
    return not (v is None or isinstance(v, (bool, int, float, str, list, tuple, dict, set, frozenset, slice, range)))


def _plain(v):
    return v


# ------------------------------------------------------------------------------------------------ builtins
def _b_len(interp, node, v):
    return interp.length(v, node)


def _b_str(interp, node, v=""):
    return interp.to_str(v, node)


def _b_float(interp, node, v):
    if isinstance(v, str):
        if interp.to_float is not None:
            r = interp.to_float(v)
            if r is not None:
                return r
        try:
            return float(v)
        except ValueError as ex:
            raise PyRaise(ExcInstance("ValueError", [str(ex)], ("Exception",)), node)
    if isinstance(v, (int, float, bool)):
        return float(v)
    if hasattr(v, "m_float"):
        return v.m_float(interp)
    raise Undecided("float() of %s" % type(v).__name__)


def _b_int(interp, node, v=0):
    if isinstance(v, (str, int, float, bool)):
        try:
            return int(v)
        except ValueError as ex:
            raise PyRaise(ExcInstance("ValueError", [str(ex)], ("Exception",)), node)
    raise Undecided("int() of %s" % type(v).__name__)


def _b_bool(interp, node, v=False):
    return interp.truth(v, node)


def _b_list(interp, node, v=()):
    return list(interp.iterate(v, node))


def _b_tuple(interp, node, v=()):
    return tuple(interp.iterate(v, node))


def _b_set(interp, node, v=()):
    return set(interp.iterate(v, node))


def _b_enumerate(interp, node, v, start=0):
    return list(enumerate(interp.iterate(v, node), start))


def _b_zip(interp, node, *vs):
    return list(zip(*[interp.iterate(v, node) for v in vs]))


def _b_isinstance(interp, node, v, k):
    ks = k if isinstance(k, tuple) else (k,)
    for c in ks:
        if hasattr(v, "m_isinstance"):
            r = v.m_isinstance(interp, c)
            if r:
                return True
            continue
        if isinstance(c, Builtin) and c.name in PY_TYPES:
            if isinstance(v, PY_TYPES[c.name]):
                return True
        elif isinstance(c, ExcClass):
            if isinstance(v, ExcInstance) and c.matches(v):
                return True
        elif isinstance(c, Ext):
            if _symbolic(v):
                raise Undecided("isinstance(%s, %s)" % (type(v).__name__, c.name))
        else:
            raise Undecided("isinstance against %s" % type(c).__name__)
    return False


def _b_sorted(interp, node, v, reverse=False):
    return sorted(interp.iterate(v, node), reverse=reverse)


def _b_reversed(interp, node, v):
    return list(reversed(list(interp.iterate(v, node))))


def _b_getattr(interp, node, obj, name, *default):
    if not isinstance(name, str):
        raise Undecided("getattr with a non-constant name")
    try:
        return interp.getattr(obj, name, node)
    except PyRaise as e:
        if default and getattr(e.exc, "cls_name", "") == "AttributeError":
            return default[0]
        raise


def _b_hasattr(interp, node, obj, name):
    try:
        interp.getattr(obj, name, node)
        return True
    except PyRaise as e:
        if getattr(e.exc, "cls_name", "") == "AttributeError":
            return False
        raise


def _b_any(interp, node, v):
    return any(interp.truth(x) for x in interp.iterate(v, node))


def _b_all(interp, node, v):
    return all(interp.truth(x) for x in interp.iterate(v, node))


def _b_print(interp, node, *a, **k):
    return None


def _b_type(interp, node, v):
    return Builtin(type(v), "type") if not _symbolic(v) else Ext("type:" + type(v).__name__)


for _f in (_b_len, _b_str, _b_float, _b_int, _b_bool, _b_list, _b_tuple, _b_set, _b_enumerate, _b_zip, _b_isinstance,
           _b_sorted, _b_reversed, _b_getattr, _b_hasattr, _b_any, _b_all, _b_print, _b_type):
    _f._wants_interp = True
    _f._accepts_symbolic = True

PY_BUILTINS = {
    "len": Builtin(_b_len, "len"), "str": Builtin(_b_str, "str"), "float": Builtin(_b_float, "float"),
    "int": Builtin(_b_int, "int"), "bool": Builtin(_b_bool, "bool"), "list": Builtin(_b_list, "list"),
    "tuple": Builtin(_b_tuple, "tuple"), "set": Builtin(_b_set, "set"), "enumerate": Builtin(_b_enumerate, "enumerate"),
    "zip": Builtin(_b_zip, "zip"), "isinstance": Builtin(_b_isinstance, "isinstance"), "sorted": Builtin(_b_sorted, "sorted"),
    "any": Builtin(_b_any, "any"), "getattr": Builtin(_b_getattr, "getattr"), "hasattr": Builtin(_b_hasattr, "hasattr"), "reversed": Builtin(_b_reversed, "reversed"), "all": Builtin(_b_all, "all"), "print": Builtin(_b_print, "print"),
    "type": Builtin(_b_type, "type"), "range": Builtin(range, "range"), "min": Builtin(min, "min"), "max": Builtin(max, "max"),
    "abs": Builtin(abs, "abs"), "sum": Builtin(sum, "sum"), "dict": Builtin(dict, "dict"), "repr": Builtin(repr, "repr"),
    "True": True, "False": False, "None": None,
}
PY_TYPES = {"list": list, "str": str, "int": int, "float": float, "tuple": tuple, "dict": dict, "bool": bool, "set": set}
