"""C17 -- classifier outputs (DESIGN 3/C17): R1 arg-max decoding through the label table that defines the
column order, R2 normaliser = accumulated mass / column of a vote, R3 not-fitted guard and score.

All rules work on resolved callees (per concrete class, C3 MRO with external bases respected), bound
parameters and small symbolic terms -- never on source text or local names.
"""
import ast

from ..flow import Flow, name_pred
from ..index import ClassInfo, dotted
from .. import astq
from .c16 import Analyzer as _Lookup, DELAYED, BUILTINS

CLF = "sktime/classification/"
ANCHORED = (
    (CLF + "interval_based/_tsf.py", "TimeSeriesForestClassifier"),
    (CLF + "interval_based/_rise.py", "RandomIntervalSpectralForest"),
    (CLF + "interval_based/_stsf.py", "SupervisedTimeSeriesForest"),
    (CLF + "interval_based/_cif.py", "CanonicalIntervalForest"),
    (CLF + "interval_based/_drcif.py", "DrCIF"),
    (CLF + "dictionary_based/_boss.py", "BOSSEnsemble"),
    (CLF + "dictionary_based/_boss.py", "IndividualBOSS"),
    (CLF + "dictionary_based/_cboss.py", "ContractableBOSS"),
    (CLF + "dictionary_based/_tde.py", "TemporalDictionaryEnsemble"),
    (CLF + "dictionary_based/_tde.py", "IndividualTDE"),
    (CLF + "dictionary_based/_muse.py", "MUSE"),
    (CLF + "compose/_column_ensemble.py", "BaseColumnEnsembleClassifier"),
    (CLF + "compose/_column_ensemble.py", "ColumnEnsembleClassifier"),
)
REGRESSOR = ("sktime/regression/interval_based/_tsf.py", "TimeSeriesForestRegressor")

IDENTITY_CALLS = {"numpy.asarray", "numpy.array", "numpy.int", "numpy.int64", "numpy.int32", "numpy.int_",
                  "builtins.int", "builtins.list"}
# value-changing (not order-preserving-and-injective) maps: an arg-max taken after them need not be an arg-max before
LOSSY_CALLS = {"numpy.round", "numpy.around", "numpy.round_", "numpy.floor", "numpy.ceil", "numpy.trunc", "numpy.rint",
               "numpy.fix", "numpy.sign", "numpy.clip", "numpy.digitize", "builtins.round", "numpy.negative"}
LOSSY_METHODS = {"round", "clip"}
MAX_CALLS = {"numpy.max", "numpy.amax", "builtins.max"}
MIN_CALLS = {"numpy.min", "numpy.amin", "builtins.min"}
NONZERO_CALLS = {"numpy.flatnonzero"}
SORTED_UNIQUE_CALLS = {"numpy.unique"}


# ================================================================================================ helpers
class Scope:
    """Name resolution inside one function: module names + function-level imports; locals are opaque."""

    def __init__(self, repo, module, fn):
        self.repo, self.module, self.fn = repo, module, fn
        self.local_imports = {}
        self.stored = set(astq.all_param_names(fn))
        for n in astq.walk_no_nested(fn):
            if isinstance(n, ast.ImportFrom) and n.level == 0 and n.module:
                for a in n.names:
                    self.local_imports[a.asname or a.name] = n.module + "." + a.name
            elif isinstance(n, ast.Import):
                for a in n.names:
                    self.local_imports[a.asname or a.name.split(".")[0]] = a.name if a.asname else a.name.split(".")[0]
            elif isinstance(n, ast.Name) and isinstance(n.ctx, (ast.Store, ast.Del)):
                self.stored.add(n.id)

    def ext(self, node):
        """Fully qualified dotted name of a callee expression, or None (locals never resolve)."""
        d = dotted(node)
        if not d:
            return None
        head = d.split(".")[0]
        if head in self.local_imports:
            return ".".join([self.local_imports[head]] + d.split(".")[1:])
        if head in self.stored:
            return None
        sym = self.repo.resolve_dotted(self.module, d)
        if sym is not None and sym.dotted:
            return sym.dotted
        if "." not in d and d in BUILTINS:
            return "builtins." + d
        return None


def is_self_attr(e, attr=None):
    return astq.is_self_attr(e, "self", attr)


def kw(call, name, default=None):
    for k in call.keywords:
        if k.arg == name:
            return k.value
    return default


def const(e):
    """Value of a literal (integer arithmetic on literals folded)."""
    if isinstance(e, ast.Constant):
        return e.value
    if isinstance(e, ast.UnaryOp) and isinstance(e.op, ast.USub):
        v = const(e.operand)
        return -v if isinstance(v, (int, float)) and not isinstance(v, bool) else None
    if isinstance(e, ast.BinOp) and isinstance(e.op, (ast.Add, ast.Sub, ast.Mult)):
        a, b = const(e.left), const(e.right)
        if not all(isinstance(x, int) and not isinstance(x, bool) for x in (a, b)):
            return None
        return a + b if isinstance(e.op, ast.Add) else (a - b if isinstance(e.op, ast.Sub) else a * b)
    return None


def show(t):
    if isinstance(t, tuple):
        return "%s(%s)" % (t[0], ", ".join(show(x) for x in t[1:])) if len(t) > 1 else str(t[0])
    return str(t)


# ================================================================================================ R1 evaluator
PROBA, ROW, NROWS, ROWIDX = ("proba",), ("row",), ("nrows",), ("rowidx",)


class PredictEval:
    """Symbolic evaluation of a ``predict`` body into a term over the rows of the own predict_proba."""

    def __init__(self, repo, module, cls, defcls, fn, lookup):
        self.repo, self.module, self.cls, self.defcls, self.fn = repo, module, cls, defcls, fn
        self.lookup = lookup
        self.scope = Scope(repo, module, fn)
        pos = astq.param_names(fn, skip_self=True)
        self.panel = pos[0] if pos else None
        self.env = {self.panel: ("panel",)} if self.panel else {}
        self.problems = []
        self.untyped_buffers = {}
        self.closures = {}
        self.row_problem = None
        self.result_buffer = None
        self.result = None
        self.returns = 0

    # ---------------------------------------------------------------- statements
    def run(self):
        self.block(self.fn.body, None)
        return self.result

    def block(self, stmts, loop):
        for st in stmts:
            if isinstance(st, ast.Expr) and isinstance(st.value, ast.Constant):
                continue
            if isinstance(st, ast.Return):
                self.returns += 1
                if loop is not None:
                    self.problems.append("return inside a loop")
                    self.result = ("opaque", "return-in-loop")
                    return
                self.result = self.ev(st.value) if st.value is not None else ("opaque", "None")
                for n in ast.walk(st.value) if st.value is not None else ():
                    if isinstance(n, ast.Name) and n.id in self.untyped_buffers:
                        self.result_buffer = self.untyped_buffers[n.id]
                return
            if isinstance(st, ast.Assign) and len(st.targets) == 1:
                t = st.targets[0]
                if isinstance(t, ast.Name):
                    self.env[t.id] = self.ev_assign(st.value)
                    continue
                if isinstance(t, ast.Subscript) and isinstance(t.value, ast.Name) and loop is not None:
                    acc = self.env.get(t.value.id)
                    if acc is not None and acc[0] == "buffer" and self.ev(t.slice) == ROWIDX:
                        val = self.ev(st.value)
                        loop.setdefault(t.value.id, []).append(val)
                        if acc[1] != "table-dtype" and val[0] == "index":  # labels (not positions) are stored
                            self.untyped_buffers[t.value.id] = acc[1]
                        continue
                for nm in _names(t):
                    self.env[nm] = ("opaque", nm)
                continue
            if isinstance(st, ast.Expr) and isinstance(st.value, ast.Call):
                c = st.value
                f = c.func
                if isinstance(f, ast.Attribute) and f.attr == "append" and isinstance(f.value, ast.Name) \
                        and len(c.args) == 1 and not c.keywords and self.env.get(f.value.id, ("?",))[0] == "acc":
                    if loop is None:
                        self.env[f.value.id] = ("opaque", "append outside the row loop")
                    else:
                        loop.setdefault(f.value.id, []).append(self.ev(c.args[0]))
                    continue
                continue  # other expression statements (guards, validators) do not define the result
            if isinstance(st, ast.For) and not st.orelse and isinstance(st.target, ast.Tuple) and len(st.target.elts) == 2 \
                    and all(isinstance(x, ast.Name) for x in st.target.elts) and loop is None:
                it = self.ev(st.iter)
                if it[0] == "enumerate" and self.rows_of(it[1]) and all(isinstance(b, (ast.Assign, ast.Expr)) for b in st.body):
                    self.env[st.target.elts[0].id] = ROWIDX
                    self.env[st.target.elts[1].id] = self.rows_of(it[1])
                    inner = {}
                    self.block(st.body, inner)
                    for nm, vals in inner.items():
                        self.env[nm] = ("map", vals[0]) if len(vals) == 1 else ("opaque", "several stores per row")
                    continue
                self._kill(st)
                continue
            if isinstance(st, ast.For) and not st.orelse and isinstance(st.target, ast.Name):
                it = self.ev(st.iter)
                if self.rows_of(it) or it == ("range", NROWS):
                    if loop is not None:
                        self._kill(st)
                        continue
                    saved = self.env.get(st.target.id)
                    self.env[st.target.id] = self.rows_of(it) or ROWIDX
                    inner = {}
                    simple = all(isinstance(b, (ast.Assign, ast.Expr, ast.If)) and not any(
                        isinstance(x, (ast.Return, ast.Break, ast.Continue)) for x in ast.walk(b)) for b in st.body)
                    if simple:
                        self.block(st.body, inner)
                        for nm, vals in inner.items():
                            self.env[nm] = ("map", vals[0]) if len(vals) == 1 else ("opaque", "several stores per row")
                    else:
                        self._kill(st)
                    if saved is None:
                        self.env.pop(st.target.id, None)
                    else:
                        self.env[st.target.id] = saved
                    continue
                self._kill(st)
                continue
            if isinstance(st, (ast.Import, ast.ImportFrom, ast.Pass)):
                continue
            if isinstance(st, ast.FunctionDef):
                self.closures[st.name] = st
                continue
            if isinstance(st, ast.While) and not st.orelse and loop is None and isinstance(st.test, ast.Compare) \
                    and len(st.test.ops) == 1 and isinstance(st.test.ops[0], ast.Lt) and isinstance(st.test.left, ast.Name) \
                    and self.env.get(st.test.left.id) == ("const", 0) and self.ev(st.test.comparators[0]) == NROWS \
                    and st.body and isinstance(st.body[-1], ast.AugAssign) and isinstance(st.body[-1].target, ast.Name) \
                    and st.body[-1].target.id == st.test.left.id and isinstance(st.body[-1].op, ast.Add) \
                    and const(st.body[-1].value) == 1 \
                    and all(isinstance(b, (ast.Assign, ast.Expr)) for b in st.body[:-1]) \
                    and not any(isinstance(x, ast.Name) and x.id == st.test.left.id and isinstance(x.ctx, ast.Store)
                                for b in st.body[:-1] for x in ast.walk(b)):
                # i = 0 / while i < n_rows: ...; i += 1   ==   for i in range(n_rows): ...
                idx = st.test.left.id
                self.env[idx] = ROWIDX
                inner = {}
                self.block(st.body[:-1], inner)
                for nm, vals in inner.items():
                    self.env[nm] = ("map", vals[0]) if len(vals) == 1 else ("opaque", "several stores per row")
                self.env[idx] = ("opaque", idx)
                continue
            if isinstance(st, ast.If) and all(isinstance(b, ast.Assign) and len(b.targets) == 1 and isinstance(b.targets[0], ast.Name)
                                             for b in st.body + st.orelse):
                before = dict(self.env)
                for b in st.body:
                    self.env[b.targets[0].id] = self.ev_assign(b.value)
                then_env = dict(self.env)
                self.env = dict(before)
                for b in st.orelse:
                    self.env[b.targets[0].id] = self.ev_assign(b.value)
                else_env = self.env
                merged = dict(before)
                for nm in set(then_env) | set(else_env):
                    a, b2 = then_env.get(nm, ("opaque", nm)), else_env.get(nm, ("opaque", nm))
                    merged[nm] = a if a == b2 else ("alt", a, b2)
                self.env = merged
                continue
            # any other statement: names assigned inside become opaque; a return inside is not interpretable
            self._kill(st)
            if any(isinstance(n, ast.Return) for n in ast.walk(st)):
                self.problems.append("return under control flow (%s)" % type(st).__name__)
                self.returns += 1
                self.result = ("opaque", "conditional return")
                return

    def _kill(self, st):
        for n in ast.walk(st):
            if isinstance(n, ast.Name) and isinstance(n.ctx, ast.Store):
                self.env[n.id] = ("opaque", n.id)

    def ev_assign(self, e):
        if isinstance(e, (ast.List,)) and not e.elts:
            return ("acc",)
        if isinstance(e, ast.Call) and not e.args and not e.keywords and self.scope.ext(e.func) == "builtins.list":
            return ("acc",)
        if isinstance(e, ast.Call) and self.scope.ext(e.func) in ("numpy.zeros", "numpy.empty", "numpy.full", "numpy.ones") \
                and e.args:
            dt = kw(e, "dtype")
            if dt is None and self.scope.ext(e.func) != "numpy.full" and len(e.args) > 1:
                dt = e.args[1]
            if dt is None and self.scope.ext(e.func) == "numpy.full" and len(e.args) > 2:
                dt = e.args[2]
            ok = dt is not None and ((isinstance(dt, ast.Name) and dt.id == "object")
                                     or (isinstance(dt, ast.Attribute) and dt.attr == "dtype" and self.ev(dt.value)[0] in (
                                         "self", "encoder-classes")))
            return ("buffer", "table-dtype" if ok else astq.canon(e)[:60])
        return self.ev(e)

    # ---------------------------------------------------------------- expressions
    def ev(self, e):
        if isinstance(e, ast.Name):
            return self.env.get(e.id, ("opaque", e.id))
        if isinstance(e, ast.Constant):
            return ("const", e.value)
        if isinstance(e, (ast.BinOp, ast.UnaryOp)) and isinstance(const(e), int):
            return ("const", const(e))
        if isinstance(e, ast.Attribute):
            if is_self_attr(e):
                return ("self", e.attr)
            base = self.ev(e.value)
            if e.attr == "shape" and base in (("panel",), PROBA):
                return ("shape",)
            if e.attr in ("shape", "size") and base[0] == "argmaxset":
                return ("setsize", base[1]) if e.attr == "size" else ("shapeof", base)
            if base[0] == "self" and e.attr == "classes_":
                return ("encoder-classes", base[1])
            return ("opaque", astq.canon(e))
        if isinstance(e, ast.Subscript):
            base = self.ev(e.value)
            if isinstance(e.slice, ast.Slice):
                return ("slice", base, astq.canon(e.slice))
            idx = self.ev(e.slice)
            if base == ("shape",) and idx == ("const", 0):
                return NROWS
            if base == ("shape",) and idx[0] == "const" and isinstance(idx[1], int):
                self.row_problem = "the row loop is bounded by shape[%d], not by the number of instances shape[0]" % idx[1]
                return NROWS
            if base[0] == "shapeof" and idx == ("const", 0):
                return ("setsize", base[1][1])
            if base[0] == "argmaxset":
                # any element of the arg-max set is an arg-max (a position drawn below its size included)
                if idx[0] == "const" or idx == ("randpos", base[1]):
                    return ("argmax", base[1])
                return ("opaque", "argmaxset[%s]" % show(idx))
            if idx == ROWIDX and self.rows_of(base):
                return self.rows_of(base)
            if idx == ("argmax", base) and (base == ROW or base[0] == "lossy"):
                return ("max", base)
            if base[0] in ("self", "slice", "encoder-classes") or (base[0] == "opaque" and base[1].startswith("self.")):
                if idx[0] == "map":
                    return ("map", ("index", base, idx[1]))
                return ("index", base, idx)
            return ("opaque", astq.canon(e))
        if isinstance(e, ast.ListComp) or isinstance(e, ast.GeneratorExp):
            if len(e.generators) != 1 or e.generators[0].ifs or not isinstance(e.generators[0].target, ast.Name):
                return ("opaque", "comprehension")
            g = e.generators[0]
            it = self.ev(g.iter)
            if self.rows_of(it) or it == ("range", NROWS):
                saved = self.env.get(g.target.id)
                self.env[g.target.id] = self.rows_of(it) or ROWIDX
                body = self.ev(e.elt)
                if saved is None:
                    self.env.pop(g.target.id, None)
                else:
                    self.env[g.target.id] = saved
                return ("map", body)
            return ("opaque", "comprehension over %s" % show(it))
        if isinstance(e, ast.IfExp):
            a, b = self.ev(e.body), self.ev(e.orelse)
            return a if a == b else ("alt", a, b)
        if isinstance(e, ast.Compare) and len(e.ops) == 1:
            return ("cmp", type(e.ops[0]).__name__, self.ev(e.left), self.ev(e.comparators[0]))
        if isinstance(e, ast.Call):
            return self.ev_call(e)
        return ("opaque", astq.canon(e)[:60])

    def ev_call(self, c):
        f = c.func
        if isinstance(f, ast.Name) and f.id in self.closures and getattr(self, "depth", 0) < 3:
            callee = self.closures[f.id]
            b = astq.bind_call(callee, c)
            if b is not None and len(astq.returns(callee)) == 1 and len(callee.body) <= 4:
                sub = PredictEval(self.repo, self.module, self.cls, self.defcls, callee, self.lookup)
                sub.depth = getattr(self, "depth", 0) + 1
                sub.env = dict(self.env)  # a closure sees the enclosing locals
                sub.env.update({p0: self.ev(a0) for p0, a0 in b.items() if isinstance(a0, ast.AST) and p0 not in ("*", "**")})
                res = sub.run()
                if res is not None and sub.returns == 1:
                    return res
        ext = self.scope.ext(f)
        # own predict_proba / identity validators on the panel
        if isinstance(f, ast.Attribute) and isinstance(f.value, ast.Name) and f.value.id == "self":
            if f.attr == "predict_proba":
                hit = self.lookup(self.cls, "predict_proba")
                if hit is None or hit[0] != "repo":
                    return ("opaque", "predict_proba is not a repo method of %s" % self.cls.name)
                b = astq.bind_call(hit[2], c, skip_self=True)
                pos = astq.param_names(hit[2], skip_self=True)
                arg = b.get(pos[0]) if b and pos else None
                if arg is None or self.ev(arg) != ("panel",):
                    self.problems.append("predict_proba is not called on the unchanged panel argument")
                    return ("opaque", "predict_proba(other)")
                return PROBA
            hit = self.lookup(self.cls, f.attr)
            if hit is not None and hit[0] == "repo":
                callee = hit[2]
                b = astq.bind_call(callee, c, skip_self=True)
                if b is not None and getattr(self, "depth", 0) < 3 and len(astq.returns(callee)) == 1 and len(callee.body) <= 3:
                    sub = PredictEval(self.repo, hit[1].module, self.cls, hit[1], callee, self.lookup)
                    sub.depth = getattr(self, "depth", 0) + 1
                    sub.env = {p0: self.ev(a0) for p0, a0 in b.items() if isinstance(a0, ast.AST) and p0 not in ("*", "**")}
                    res = sub.run()
                    if res is not None and sub.returns == 1 and res[0] != "opaque":
                        return res
                return ("selfcall", f.attr, tuple(self.ev(a) for a in c.args))
        if ext in ("sktime.utils.validation.panel.check_X",) and c.args:
            return self.ev(c.args[0])
        if ext == "builtins.len" and len(c.args) == 1 and self.ev(c.args[0]) in (("panel",), PROBA):
            return NROWS
        if ext == "builtins.enumerate" and len(c.args) == 1 and not c.keywords:
            return ("enumerate", self.ev(c.args[0]))
        if ext == "builtins.range" and not c.keywords:
            if len(c.args) == 1:
                return ("range", self.ev(c.args[0]))
            if len(c.args) == 2 and self.ev(c.args[0]) == ("const", 0):
                return ("range", self.ev(c.args[1]))
            if len(c.args) == 2 and isinstance(const(c.args[0]), int) and self.ev(c.args[1]) == NROWS:
                self.row_problem = "rows are decoded over range(%s): not every instance gets a prediction" % ", ".join(
                    astq.canon(a) for a in c.args)
                return ("range", NROWS)
            return ("opaque", "range")
        if ext in IDENTITY_CALLS and len(c.args) == 1 and not c.keywords:
            return self.ev(c.args[0])
        if ext == "numpy.copy" and len(c.args) == 1:
            return self.ev(c.args[0])
        if isinstance(f, ast.Attribute) and f.attr == "copy" and not c.args and ext is None:
            return self.ev(f.value)
        if ext in LOSSY_CALLS and c.args:
            v = self.ev(c.args[0])
            if v in (PROBA, ROW) or v[0] == "lossy":
                return ("lossy", ext, v)
        if isinstance(f, ast.Attribute) and f.attr in LOSSY_METHODS and ext is None:
            v = self.ev(f.value)
            if v in (PROBA, ROW) or v[0] == "lossy":
                return ("lossy", "." + f.attr, v)
        if ext in ("numpy.argmax", "numpy.argmin") and c.args:
            return self.arg_select(ext.split(".")[1], self.ev(c.args[0]), c.args[1] if len(c.args) > 1 else kw(c, "axis"))
        if isinstance(f, ast.Attribute) and f.attr in ("argmax", "argmin") and ext is None:
            return self.arg_select(f.attr, self.ev(f.value), c.args[0] if c.args else kw(c, "axis"))
        if ext in MAX_CALLS and len(c.args) == 1 and not c.keywords:
            return ("max", self.ev(c.args[0]))
        if isinstance(f, ast.Attribute) and f.attr == "max" and not c.args and not c.keywords and ext is None:
            return ("max", self.ev(f.value))
        if ext in MIN_CALLS and len(c.args) == 1 and not c.keywords:
            return ("min", self.ev(c.args[0]))
        if isinstance(f, ast.Attribute) and f.attr == "min" and not c.args and not c.keywords and ext is None:
            return ("min", self.ev(f.value))
        if ext in NONZERO_CALLS and len(c.args) == 1:
            inner = self.ev(c.args[0])
            if inner[0] == "cmp" and inner[1] == "Eq":
                for x, y in ((inner[2], inner[3]), (inner[3], inner[2])):
                    if y == ("max", x):
                        return ("argmaxset", x)
            if inner[0] == "cmp" and inner[1] in ("NotEq", "Lt", "Gt") :
                for x, y in ((inner[2], inner[3]), (inner[3], inner[2])):
                    if y == ("max", x):
                        return ("nonmaxset", x)
            return ("nonzero", inner)
        if ext == "builtins.len" and len(c.args) == 1 and self.ev(c.args[0])[0] == "argmaxset":
            return ("setsize", self.ev(c.args[0])[1])
        if isinstance(f, ast.Attribute) and f.attr in ("randint", "integers", "randrange") and ext is None \
                and 1 <= len(c.args) <= 2 and not c.keywords:
            hi = self.ev(c.args[-1])
            if hi[0] == "setsize" and (len(c.args) == 1 or self.ev(c.args[0]) == ("const", 0)):
                return ("randpos", hi[1])  # a *position* into the arg-max set, not one of its elements
        if isinstance(f, ast.Attribute) and f.attr == "choice" and len(c.args) == 1 and not c.keywords:
            cand = self.ev(c.args[0])
            # uniformly drawn element of {j : row[j] == max(row)} is an arg-max of the row
            if cand[0] == "argmaxset":
                return ("argmax", cand[1])
            if cand[0] == "nonmaxset":
                return ("argmin", cand[1])  # drawn among the positions that do NOT attain the maximum
            if cand[0] == "nonzero" and cand[1] == ROW:
                return ("anynonzero", ROW)  # drawn among all classes with a non-zero probability
            if cand[0] == "nonzero" and cand[1][0] == "cmp" and cand[1][1] == "Eq":
                a, b = cand[1][2], cand[1][3]
                for x, y in ((a, b), (b, a)):
                    if y == ("max", x):
                        return ("argmax", x)
                    if y == ("min", x):
                        return ("argmin", x)
            return ("opaque", "choice(%s)" % show(cand))
        if isinstance(f, ast.Attribute) and f.attr == "inverse_transform" and len(c.args) == 1 and not c.keywords:
            enc = self.ev(f.value)
            seq = self.ev(c.args[0])
            if enc[0] == "self" and seq[0] == "map":
                return ("map", ("index", ("encoder", enc[1]), seq[1]))
            if enc[0] == "self" and seq[0] in ("argmax", "argmin") and seq[1] == PROBA:
                return ("index", ("encoder", enc[1]), seq)
            return ("opaque", "inverse_transform(%s)" % show(seq))
        if isinstance(f, ast.Attribute) and f.attr in ("predict", "predict_proba") and is_self_attr(f.value):
            return ("delegate", f.value.attr, f.attr, tuple(self.ev(a) for a in c.args))
        return ("opaque", astq.canon(c)[:80])

    def rows_of(self, it):
        """Term of one element when iterating ``it`` (the probability matrix, possibly under lossy maps)."""
        if it == PROBA:
            return ROW
        if it[0] == "lossy":
            inner = self.rows_of(it[2])
            return ("lossy", it[1], inner) if inner else None
        return None

    def arg_select(self, which, v, axis):
        ax = const(axis) if axis is not None else None
        if axis is not None and ax is None:
            return ("opaque", "%s with non-literal axis" % which)
        if v == ROW and ax in (None, 0, -1):
            return (which, ROW)
        if ax in (1, -1) and self.rows_of(v):
            return ("map", (which, self.rows_of(v)))
        if v == PROBA:
            return (which, PROBA, ("axis", ax))
        return (which, v)


def _alternatives(t):
    if isinstance(t, tuple) and t and t[0] == "alt":
        return _alternatives(t[1]) + _alternatives(t[2])
    return [t]


def _names(t):
    return [n.id for n in ast.walk(t) if isinstance(n, ast.Name)]


# ================================================================================================ labels in fit
class FitInfo:
    """Facts about a resolved ``fit``: which locals hold the training labels, what the label tables are."""

    WRAPPERS = {"numpy.asarray", "numpy.array", "numpy.ravel", "sktime.utils.validation.panel.check_y", "pandas.Series"}

    def __init__(self, repo, module, cls, defcls, fn, lookup, label_param=None):
        self.repo, self.module, self.cls, self.defcls, self.fn, self.lookup = repo, module, cls, defcls, fn, lookup
        self.scope = Scope(repo, module, fn)
        pos = astq.param_names(fn, skip_self=defcls is not None and not defcls.is_static(fn.name))
        self.label = label_param or (pos[1] if len(pos) > 1 else None)
        self.labels = {self.label} if self.label else set()
        self.encoded = {}  # local name -> encoder attr  (name = self.<enc>.transform(y) / fit_transform(y))
        self.problem = None
        self._scan_aliases()

    def _scan_aliases(self):
        # names (re)bound to the label vector through identity wrappers; any other rebinding of a label name
        # makes the analysis undecided (except encoding through a LabelEncoder attribute)
        for n in astq.walk_no_nested(self.fn):
            if not isinstance(n, ast.Assign) or len(n.targets) != 1:
                continue
            t, v = n.targets[0], n.value
            if isinstance(t, ast.Tuple) and isinstance(v, ast.Call) and \
                    self.scope.ext(v.func) == "sktime.utils.validation.panel.check_X_y" and len(t.elts) == 2:
                if isinstance(t.elts[1], ast.Name) and len(v.args) > 1 and self.kind(v.args[1]) == "y":
                    self.labels.add(t.elts[1].id)
                continue
            if isinstance(t, ast.Name):
                k = self.kind(v)
                if k == "y":
                    self.labels.add(t.id)
                elif isinstance(k, tuple) and k[0] == "enc":
                    self.encoded[t.id] = k[1]
                elif t.id in self.labels and t.id != self.label:
                    self.labels.discard(t.id)
                elif t.id == self.label:
                    self.problem = "label parameter rebound to %s" % astq.canon(v)[:60]

    def kind(self, e):
        """'y' (the full label vector) | ('enc', attr) (labels encoded by self.<attr>) | 'subset' | None."""
        if isinstance(e, ast.Name):
            if e.id in self.labels:
                return "y"
            if e.id in self.encoded:
                return ("enc", self.encoded[e.id])
            return None
        if isinstance(e, ast.Call):
            f = e.func
            ext = self.scope.ext(f)
            if ext in self.WRAPPERS and e.args:
                return self.kind(e.args[0])
            if isinstance(f, ast.Attribute) and f.attr == "reshape" and ext is None:
                # only the 1-d / single-column views keep every label: reshape(-1), reshape(-1, 1), reshape((-1, 1))
                dims = list(e.args)
                if len(dims) == 1 and isinstance(dims[0], (ast.Tuple, ast.List)):
                    dims = list(dims[0].elts)
                vals = [const(d) for d in dims]
                if vals in ([-1], [-1, 1], [1, -1]):
                    return self.kind(f.value)
                return "subset" if self.kind(f.value) is not None else None
            if isinstance(f, ast.Attribute) and f.attr in ("to_numpy", "ravel", "copy", "astype") and ext is None:
                return self.kind(f.value)
            if isinstance(f, ast.Attribute) and f.attr in ("transform", "fit_transform") and is_self_attr(f.value) \
                    and len(e.args) == 1 and self.kind(e.args[0]) == "y":
                return ("enc", f.value.attr)
            return None
        if isinstance(e, ast.Attribute) and e.attr == "values":
            return self.kind(e.value)
        if isinstance(e, ast.Subscript):
            k = self.kind(e.value)
            if k is not None:
                s = e.slice
                if isinstance(s, ast.Slice) and s.lower is None and s.upper is None and s.step is None:
                    return k
                return "subset"
        return None

    def mentions_label(self, e):
        return any(isinstance(n, ast.Name) and (n.id in self.labels or n.id in self.encoded) for n in ast.walk(e))

    # ---------------------------------------------------------------- label tables
    def table_stores(self, attr):
        return [(v, st) for a, v, st in astq.self_attr_stores(self.fn) if a == attr]

    def sorted_unique_of_labels(self, e):
        """e == sorted distinct training labels: class_distribution(<y as column>)[0][0] or np.unique(y)."""
        if isinstance(e, ast.Subscript) and isinstance(e.value, ast.Subscript) and const(e.slice) == 0 \
                and const(e.value.slice) == 0 and isinstance(e.value.value, ast.Call):
            c = e.value.value
            if self.scope.ext(c.func) in ("sklearn.utils.multiclass.class_distribution",) and c.args:
                return self.kind(c.args[0]) == "y"
        if isinstance(e, ast.Call) and self.scope.ext(e.func) in SORTED_UNIQUE_CALLS and len(e.args) == 1 and not e.keywords:
            return self.kind(e.args[0]) == "y"
        return False

    def encoder_fitted_on_labels(self, attr):
        """self.<attr> = LabelEncoder().fit(y)  |  self.<attr> = LabelEncoder(); ... self.<attr>.fit[_transform](y)."""
        stores = self.table_stores(attr)
        ok_store = False
        for v, st in stores:
            if isinstance(v, ast.Call):
                f = v.func
                if self.scope.ext(f) == "sklearn.preprocessing.LabelEncoder" and not v.args:
                    ok_store = ok_store or self._encoder_fit_call(attr)
                    continue
                if isinstance(f, ast.Attribute) and f.attr == "fit" and isinstance(f.value, ast.Call) \
                        and self.scope.ext(f.value.func) == "sklearn.preprocessing.LabelEncoder" and len(v.args) == 1 \
                        and self.kind(v.args[0]) == "y":
                    ok_store = True
                    continue
            return None
        return ok_store if stores else False

    def _encoder_fit_call(self, attr):
        for c in astq.calls(self.fn):
            f = c.func
            if isinstance(f, ast.Attribute) and f.attr in ("fit", "fit_transform") and is_self_attr(f.value, attr) \
                    and len(c.args) == 1:
                # the argument is the label vector *before* it is overwritten by the encoded one
                a = c.args[0]
                if isinstance(a, ast.Name) and (a.id in self.labels or a.id == self.label):
                    return True
        return False


def member_fit_sites(repo, flow, lookup, module, cls, defcls, fn, label_param=None, depth=0, seen=None, subset=False):
    """Calls ``<member>.fit(features, labels)`` reachable from ``fn`` (through repo functions / self methods /
    joblib.delayed) whose label argument derives from the training labels.
    -> list of (kind, call, module) with kind as FitInfo.kind."""
    seen = seen if seen is not None else set()
    key = (id(fn), label_param, subset)
    if key in seen or depth > 5:
        return []
    seen.add(key)
    fi = FitInfo(repo, module, cls, defcls, fn, lookup, label_param)
    out = []
    for c in astq.calls(fn):
        f = c.func
        call = c
        if isinstance(f, ast.Name) and f.id in fi.scope.stored:
            # local alias of delayed(f): fit_one = delayed(_fit_estimator)
            av = astq.assigned_values(fn, f.id)
            if len(av) == 1 and isinstance(av[0], ast.Call):
                f = av[0]
        if isinstance(f, ast.Call) and len(f.args) == 1 and not f.keywords and fi.scope.ext(f.func) in DELAYED:
            call = ast.copy_location(ast.Call(func=f.args[0], args=c.args, keywords=c.keywords), c)
            f = call.func
        # repo callee receiving the labels
        target = None
        if isinstance(f, ast.Attribute) and isinstance(f.value, ast.Name) and f.value.id == "self" and cls is not None:
            hit = lookup(cls, f.attr)
            if hit is not None and hit[0] == "repo":
                target = (hit[2], hit[1].module, cls, hit[1], not hit[1].is_static(f.attr))
        elif isinstance(f, ast.Name) and f.id not in fi.scope.stored:
            sym = repo.resolve_name(module, f.id)
            if sym is not None and sym.kind == "func":
                target = (sym.target, sym.module, None, None, False)
        if target is not None:
            tfn, tmod, tcls, tdef, skip = target
            b = astq.bind_call(tfn, call, skip_self=skip)
            if b:
                for p, v in b.items():
                    if isinstance(v, ast.AST) and p not in ("*", "**"):
                        k = fi.kind(v)
                        if k in ("y", "subset"):
                            out.extend(member_fit_sites(repo, flow, lookup, tmod, tcls, tdef, tfn, p, depth + 1, seen,
                                                        subset or k == "subset"))
            continue
        # member.fit(features, labels)
        if isinstance(f, ast.Attribute) and f.attr == "fit" and not is_self_attr(f) and len(call.args) >= 2:
            if isinstance(f.value, ast.Call) and dotted(f.value.func) == "super":
                continue
            lab = call.args[1]
            if fi.mentions_label(lab):
                k = fi.kind(lab)
                out.append(("subset" if subset and k == "y" else k, call, module))
    return out


# ================================================================================================ R2 helpers
MUTATORS = {"append", "extend", "insert", "pop", "remove", "clear", "sort", "reverse"}


def mutates_attr(stmt, attr):
    """Does this simple statement (or loop/with header) change the list held in self.<attr>?"""
    if stmt is None:
        return False
    nodes = [stmt] if not isinstance(stmt, (ast.If, ast.For, ast.While, ast.With, ast.Try)) else []
    for st in nodes:
        for n in astq.walk_no_nested(st):
            if isinstance(n, (ast.Assign, ast.AugAssign, ast.Delete, ast.AnnAssign)):
                tgts = n.targets if isinstance(n, (ast.Assign, ast.Delete)) else [n.target]
                for t in tgts:
                    for tt in ast.walk(t):
                        if is_self_attr(tt, attr) and (tt is t or isinstance(t, (ast.Subscript, ast.Tuple, ast.List))):
                            return True
            if isinstance(n, ast.Call) and isinstance(n.func, ast.Attribute) and n.func.attr in MUTATORS \
                    and is_self_attr(n.func.value, attr):
                return True
    return False


def strip_ones(scope, den):
    """np.ones(k) * S  ->  S (element-wise ones factor)."""
    if isinstance(den, ast.BinOp) and isinstance(den.op, ast.Mult):
        for a, b in ((den.left, den.right), (den.right, den.left)):
            if isinstance(a, ast.Call) and scope.ext(a.func) == "numpy.ones":
                return b
    return den


def axis_of(call, pos=1):
    a = call.args[pos] if len(call.args) > pos else kw(call, "axis")
    return const(a) if a is not None else None


def unwrap_parallel(scope, e):
    """Parallel(...)(gen) -> gen ; list(gen) -> gen ; otherwise e."""
    if isinstance(e, ast.Call) and isinstance(e.func, ast.Call) and len(e.args) == 1 and not e.keywords \
            and scope.ext(e.func.func) in ("joblib.Parallel", "joblib.parallel.Parallel"):
        return e.args[0]
    if isinstance(e, ast.Call) and scope.ext(e.func) == "builtins.list" and len(e.args) == 1:
        return e.args[0]
    return e


def preallocated(fn, v):
    """`buf = np.zeros((N, ...))` / `for i, T in enumerate(I): buf[i] = E`  ->  (T, I, E, N)."""
    inits = astq.assigned_values(fn, v.id)
    if len(inits) != 1 or not (isinstance(inits[0], ast.Call) and dotted(inits[0].func) in (
            "np.zeros", "np.empty", "numpy.zeros", "numpy.empty") and inits[0].args):
        return None
    shp = inits[0].args[0]
    n_slabs = shp.elts[0] if isinstance(shp, (ast.Tuple, ast.List)) and shp.elts else shp
    fills = []
    for n in astq.walk_no_nested(fn):
        if isinstance(n, ast.For) and not n.orelse and isinstance(n.iter, ast.Call) and dotted(n.iter.func) == "enumerate" \
                and len(n.iter.args) == 1 and isinstance(n.target, ast.Tuple) and len(n.target.elts) == 2 \
                and isinstance(n.target.elts[0], ast.Name):
            for st in n.body:
                if isinstance(st, ast.Assign) and len(st.targets) == 1 and isinstance(st.targets[0], ast.Subscript) \
                        and isinstance(st.targets[0].value, ast.Name) and st.targets[0].value.id == v.id \
                        and astq.canon(st.targets[0].slice) == n.target.elts[0].id:
                    fills.append((n, st))
    if len(fills) != 1 or len(fills[0][0].body) != 1:
        return None
    loop, st = fills[0]
    return loop.target.elts[1], loop.iter.args[0], st.value, n_slabs


def as_comprehension(fn, v):
    """(target, iter, elt, ifs) of `[elt for target in iter]`, also when written as
    `acc = []` / `for target in iter: acc.append(elt)` with no other use of acc in between."""
    if isinstance(v, (ast.ListComp, ast.GeneratorExp)):
        if len(v.generators) != 1:
            return None
        g = v.generators[0]
        return g.target, g.iter, v.elt, list(g.ifs)
    if isinstance(v, ast.Name):
        pre = preallocated(fn, v)
        if pre is not None:
            return pre[0], pre[1], pre[2], []
        inits = [x for x in astq.assigned_values(fn, v.id)]
        if len(inits) != 1 or not ((isinstance(inits[0], ast.List) and not inits[0].elts) or (
                isinstance(inits[0], ast.Call) and dotted(inits[0].func) == "list" and not inits[0].args)):
            return None
        appends = []
        for n in astq.walk_no_nested(fn):
            if isinstance(n, ast.For) and not n.orelse:
                for st in n.body:
                    if isinstance(st, ast.Expr) and isinstance(st.value, ast.Call) and isinstance(st.value.func, ast.Attribute) \
                            and st.value.func.attr == "append" and isinstance(st.value.func.value, ast.Name) \
                            and st.value.func.value.id == v.id and len(st.value.args) == 1:
                        appends.append((n, st))
        if len(appends) != 1:
            return None
        loop, st = appends[0]
        elt = st.value.args[0]
        if len(loop.body) != 1:
            # temporaries assigned once in the body before the append are substituted into the appended expression
            temps = {}
            for b in loop.body:
                if b is st:
                    continue
                if isinstance(b, ast.Assign) and len(b.targets) == 1 and isinstance(b.targets[0], ast.Name) \
                        and b.targets[0].id not in temps and loop.body.index(b) < loop.body.index(st):
                    temps[b.targets[0].id] = b.value
                else:
                    return None
            import copy

            class Sub(ast.NodeTransformer):
                def visit_Name(self, node):
                    if isinstance(node.ctx, ast.Load) and node.id in temps:
                        return Sub().visit(copy.deepcopy(temps[node.id]))
                    return node

            elt = Sub().visit(copy.deepcopy(elt))
            ast.fix_missing_locations(elt)
        # acc must not be touched elsewhere (besides init, the append and its final read)
        loads = [n for n in astq.walk_no_nested(fn) if isinstance(n, ast.Name) and n.id == v.id]
        if len(loads) > 3:
            return None
        return loop.target, loop.iter, elt, []
    return None


def affine_in(rows, K):
    """rows == K * <something>  (either operand order)."""
    if isinstance(rows, ast.BinOp) and isinstance(rows.op, ast.Mult):
        return const(rows.left) == K or const(rows.right) == K
    return None


def single_return(fn):
    rets = astq.returns(fn)
    return rets[0] if len(rets) == 1 else None


# ================================================================================================ rule drivers
class Checker:
    def __init__(self, ctx):
        self.ctx, self.repo = ctx, ctx.repo
        self.flow = Flow(self.repo)
        self.lookup = _Lookup(self.repo).lookup
        self.realigned = set()

    def method(self, cls, name):
        hit = self.lookup(cls, name)
        if hit is None or hit[0] != "repo":
            return None
        return hit[1], hit[2]

    def loc(self, k, node):
        return self.ctx.loc(k.module if isinstance(k, ClassInfo) else k, node)

    # ------------------------------------------------------------------------------------ R1
    def r1(self, cls):
        ctx = self.ctx
        name = cls.name
        hp = self.method(cls, "predict")
        if hp is None:
            ctx.undecided("R1", name + ".predict:decode", "predict does not resolve to a repo method", None)
            return None
        k, fn = hp
        ev = PredictEval(self.repo, k.module, cls, k, fn, self.lookup)
        term = ev.run()
        loc = self.loc(k, fn)
        c = name + ".predict:decode"
        if term is None or ev.returns != 1:
            ctx.undecided("R1", c, "predict has %d interpretable return(s)" % ev.returns, loc)
            return None
        # --- shape: map(index(T, argmax(row)))
        if term[0] == "map" and term[1][0] == "index":
            table, sel = term[1][1], term[1][2]
            if ev.row_problem is not None:
                ctx.violation("R1", name + ".predict:rows", ev.row_problem, loc)
            if ev.result_buffer is not None:
                ctx.violation("R1", name + ".predict:label-dtype", "decoded labels are written into %s, an array whose dtype does not "
                              "come from the label table (dtype=object / <table>.dtype): numpy casts every label to that dtype "
                              "(strings are truncated to the length of the fill value, numbers change type), so predict does not "
                              "return labels of the training label set in the user's label type" % ev.result_buffer, loc,
                              witness={"input": "labels ['a', 'bbb']: np.full(n, classes_[0]) is '<U1', 'bbb' is stored as 'b'"})
            alts = _alternatives(sel)
            if len(alts) > 1 and all(a == ("argmax", ROW) for a in alts):
                sel = ("argmax", ROW)
            anyz = [a for a in alts if a[0] == "anynonzero"]
            if anyz:
                ctx.violation("R1", name + ".predict:select", "on some branch the label index is drawn among *all* columns with a non-zero "
                              "probability, not among the columns attaining the maximum", loc,
                              witness={"term": show(term), "input": "row [0.4, 0.4, 0.2]: class 2 can be returned"})
                return self.r1_table(cls, table, loc)
            pos = [a for a in alts if a[0] in ("randpos", "setsize")]
            if pos:
                ctx.violation("R1", name + ".predict:select", "on some branch the label index is %s -- a position into the set of "
                              "arg-max columns, not an element of that set (must be best[k] / rng.choice(best))" % show(pos[0]),
                              loc, witness={"term": show(term), "history": "tie between columns 1 and 2: the drawn position 0/1 is "
                                                                          "used as column index"})
                return self.r1_table(cls, table, loc)
            if sel == ("argmax", ROW):
                ctx.ok("R1", name + ".predict:select", "each row of the own predict_proba is decoded at an arg-max position", loc)
            elif sel[0] == "argmax" and sel[1][0] == "lossy" and self._lossy_root(sel[1]) == ROW:
                ctx.violation("R1", name + ".predict:select", "the arg-max is taken over %s of the probability row: a value-changing "
                              "map can create ties or move the maximum, so the decoded label need not attain the maximal "
                              "predicted probability" % " of ".join(self._lossy_chain(sel[1])), loc, witness={"term": show(term)})
            elif sel[0] in ("argmin", "argmax", "const", "rowidx", "max"):
                ctx.violation("R1", name + ".predict:select", "the label index is %s, not an arg-max of the instance's "
                              "probability row" % show(sel), loc, witness={"term": show(term)})
            else:
                ctx.undecided("R1", name + ".predict:select", "selection %s not interpretable" % show(sel), loc)
            return self.r1_table(cls, table, loc)
        if term[0] == "index" and term[2][0] in ("argmax", "argmin") and term[2][1] == PROBA:
            ctx.violation("R1", name + ".predict:select", "the label index is %s of the whole probability matrix (%s), not the "
                          "arg-max of each instance's row" % (term[2][0], show(term[2][2])), loc, witness={"term": show(term)})
            return None
        if term[0] == "delegate":
            return self.r1_delegate(cls, term, loc)
        if term[0] == "map" and term[1][0] in ("argmax", "argmin"):
            ctx.violation("R1", c, "predict returns column positions (%s) without decoding them through the label table"
                          % show(term[1]), loc)
            return None
        if name in ("IndividualBOSS", "IndividualTDE") or self.is_onehot_member(cls):
            return self.r1_onehot(cls)
        ctx.undecided("R1", c, "predict does not reduce to table[argmax(row)]: %s %s" % (show(term)[:120], ev.problems), loc)
        return None

    @staticmethod
    def _lossy_root(t):
        while isinstance(t, tuple) and t and t[0] == "lossy":
            t = t[2]
        return t

    @staticmethod
    def _lossy_chain(t):
        out = []
        while isinstance(t, tuple) and t and t[0] == "lossy":
            out.append(t[1])
            t = t[2]
        return out

    def r1_table(self, cls, table, loc, only_definition=False):
        """The decoding table must be the one that defines the column order."""
        ctx, name = self.ctx, cls.name
        c = name + ".predict:table" if not only_definition else None
        hf = self.method(cls, "fit")
        if table == ("self", "classes_"):
            if c is not None:
                ctx.ok("R1", c, "decoded through self.classes_", loc)
            if hf is None:
                ctx.undecided("R1", name + ".fit:classes_", "fit is not a repo method", loc)
                return ("classes_",)
            k, fn = hf
            fi = FitInfo(self.repo, k.module, cls, k, fn, self.lookup)
            stores = fi.table_stores("classes_")
            floc = self.loc(k, fn)
            if not stores:
                ctx.violation("R1", name + ".fit:classes_", "fit never assigns classes_ (predict decodes through it)", floc)
            for v, st in stores:
                good = v is not None and fi.sorted_unique_of_labels(v)
                if fi.problem and not good:
                    ctx.undecided("R1", name + ".fit:classes_", fi.problem, self.loc(k, st))
                    continue
                ctx.check(good, "R1", name + ".fit:classes_", "classes_ = sorted distinct training labels (column order of "
                          "sklearn members / of enumerate(classes_))", "classes_ is assigned %s, not the sorted distinct training "
                          "labels" % (astq.canon(v)[:80] if v is not None else "by unpacking"), self.loc(k, st))
            return ("classes_",)
        if table[0] == "encoder":
            enc = table[1]
            ctx.ok("R1", c, "decoded through self.%s.inverse_transform" % enc, loc)
            users = [cls] if cls.name != "BaseClassifier" else [
                u for u in self.repo.subclasses(cls) if ".contrib" not in u.module.name
                and (self.method(u, "predict") or (None, None))[1] is (self.method(cls, "predict") or (None, None))[1]]
            for u in users:
                hf = self.method(u, "fit")
                cc = u.name + ".fit:" + enc
                if hf is None:
                    ctx.undecided("R1", cc, "fit is not a repo method", loc)
                    continue
                k, fn = hf
                fi = FitInfo(self.repo, k.module, u, k, fn, self.lookup)
                r = fi.encoder_fitted_on_labels(enc)
                ctx.check(r, "R1", cc, "fit assigns self.%s = LabelEncoder fitted on the training labels" % enc,
                          "fit does not assign a LabelEncoder fitted on the training labels to self.%s (predict decodes "
                          "through it)" % enc if r is False else "stores to self.%s not interpretable" % enc, self.loc(k, fn))
                # classes_ (public column order) must be the encoder's table
                if not fi.table_stores("classes_"):
                    ctx.violation("R1", u.name + ".fit:classes_", "fit never assigns classes_: the column order of predict_proba is "
                                  "not published (clf.classes_ missing / stale)", self.loc(k, fn))
                for v, st in fi.table_stores("classes_"):
                    good = isinstance(v, ast.Attribute) and v.attr == "classes_" and is_self_attr(v.value, enc)
                    ctx.check(good, "R1", u.name + ".fit:classes_", "classes_ = self.%s.classes_" % enc,
                              "classes_ is %s, not the table of the encoder predict decodes with" % (
                                  astq.canon(v)[:60] if v is not None else "?"), self.loc(k, st))
            return ("encoder", enc)
        root = table
        while root[0] in ("slice", "index"):
            root = root[1]
        if root[0] in ("self", "encoder-classes") or (root[0] == "opaque" and str(root[1]).startswith("self.")):
            ctx.violation("R1", c, "predict decodes through %s, which is not the label table that defines the column order "
                          "(classes_ / the fitted label encoder)" % show(table), loc, witness={"table": show(table)})
        else:
            ctx.undecided("R1", c, "decoding table %s not interpretable" % show(table), loc)
        return None

    def r1_delegate(self, cls, term, loc):
        """predict and predict_proba must delegate to the same fitted object on the same features."""
        ctx, name = self.ctx, cls.name
        c = name + ".predict:delegate"
        if term[2] != "predict":
            ctx.violation("R1", c, "predict returns %s of the wrapped classifier" % term[2], loc)
            return None
        k2, fn2 = self.method(cls, "predict_proba")
        ev2 = PredictEval(self.repo, k2.module, cls, k2, fn2, self.lookup)
        t2 = ev2.run()
        if t2 is None or t2[0] != "delegate":
            ctx.undecided("R1", c, "predict delegates to self.%s but predict_proba is %s" % (term[1], show(t2)[:80]), loc)
            return None
        ctx.check(t2[1] == term[1] and t2[2] == "predict_proba", "R1", c,
                  "predict and predict_proba delegate to the same object self.%s" % term[1],
                  "predict uses self.%s.%s but predict_proba uses self.%s.%s" % (term[1], term[2], t2[1], t2[2]), loc)
        ctx.check(t2[3] == term[3] and all(a[0] != "opaque" for a in term[3]), "R1", name + ".predict:features",
                  "both methods feed %s" % show(term[3]), "predict feeds %s, predict_proba feeds %s" % (show(term[3]), show(t2[3])), loc)
        hf = self.method(cls, "fit")
        if hf is not None:
            k, fn = hf
            fi = FitInfo(self.repo, k.module, cls, k, fn, self.lookup)
            fits = [c0 for c0 in astq.calls(fn) if isinstance(c0.func, ast.Attribute) and c0.func.attr == "fit"
                    and is_self_attr(c0.func.value, term[1])]
            good = len(fits) == 1 and len(fits[0].args) >= 2 and fi.kind(fits[0].args[1]) == "y"
            ctx.check(good if fits else None, "R1", name + ".fit:delegate", "self.%s is fitted on the training labels" % term[1],
                      "self.%s.fit does not receive the training labels" % term[1], self.loc(k, fn))
            if not fi.table_stores("classes_"):
                ctx.violation("R1", name + ".fit:classes_", "fit never assigns classes_: the column order of predict_proba is not "
                              "published (clf.classes_ missing / stale)", self.loc(k, fn))
            for v, st in fi.table_stores("classes_"):
                ctx.check(v is not None and fi.sorted_unique_of_labels(v), "R1", name + ".fit:classes_",
                          "classes_ = sorted distinct training labels (= classes_ of the wrapped sklearn classifier)",
                          "classes_ is %s" % (astq.canon(v)[:60] if v is not None else "?"), self.loc(k, st))
        return ("delegate", term[1])

    def is_onehot_member(self, cls):
        return False

    def r1_onehot(self, cls):
        """Nearest-neighbour members: predict is primary, predict_proba must be its one-hot encoding:
        dists[i, self.class_dictionary[.get](preds[i])] += c  with preds = self.predict(panel)."""
        ctx, name = self.ctx, cls.name
        k, fn = self.method(cls, "predict_proba")
        loc = self.loc(k, fn)
        c = name + ".predict_proba:one-hot"
        scope = Scope(self.repo, k.module, fn)
        pos = astq.param_names(fn, skip_self=True)
        augs = [n for n in astq.walk_no_nested(fn) if isinstance(n, ast.AugAssign) and isinstance(n.target, ast.Subscript)]
        ret = single_return(fn)
        if not augs and ret is not None and isinstance(ret.value, ast.Name) and any(
                isinstance(v, ast.Call) and scope.ext(v.func) in ("numpy.zeros",) for v in astq.assigned_values(fn, ret.value.id)):
            ctx.violation("R1", c, "predict_proba returns its zero matrix without ever adding the unit of the predicted class: every "
                          "row is all zero, not the one-hot encoding of predict", loc)
            return None
        if len(augs) != 1 or ret is None or not isinstance(ret.value, ast.Name):
            ctx.undecided("R1", c, "predict_proba is not a single accumulation loop", loc)
            return None
        a = augs[0]
        t = a.target
        ok_shape = (isinstance(a.op, ast.Add) and isinstance(t, ast.Subscript) and isinstance(t.value, ast.Name)
                    and t.value.id == ret.value.id and isinstance(t.slice, ast.Tuple) and len(t.slice.elts) == 2)
        if not ok_shape:
            ctx.undecided("R1", c, "vote statement %s not interpretable" % astq.canon(a.target)[:60], loc)
            return None
        row, col = t.slice.elts
        if isinstance(col, ast.Name):
            cv = astq.assigned_values(fn, col.id)
            col = cv[0] if len(cv) == 1 else col
        inc = const(a.value)
        ctx.check((inc == 1 and not isinstance(inc, bool)) if isinstance(inc, (int, float)) else None, "R1",
                  name + ".predict_proba:mass", "exactly one unit per instance (rows sum to 1)",
                  "vote increment is %s: the row of an instance sums to %s, not to 1" % (astq.canon(a.value), astq.canon(a.value)),
                  self.loc(k, a))
        label = None
        if isinstance(col, ast.Subscript) and is_self_attr(col.value, "class_dictionary"):
            label = col.slice
        elif isinstance(col, ast.Call) and isinstance(col.func, ast.Attribute) and col.func.attr == "get" \
                and is_self_attr(col.func.value, "class_dictionary") and len(col.args) == 1:
            label = col.args[0]
        good = None
        if label is not None and isinstance(label, ast.Subscript) and isinstance(label.value, ast.Name) \
                and isinstance(row, ast.Name):
            vals = astq.assigned_values(fn, label.value.id)
            src = len(vals) == 1 and isinstance(vals[0], ast.Call) and isinstance(vals[0].func, ast.Attribute) \
                and is_self_attr(vals[0].func, "predict") and len(vals[0].args) == 1 \
                and isinstance(vals[0].args[0], ast.Name) and vals[0].args[0].id == pos[0] \
                and not astq.assigned_in(fn, pos[0])
            good = bool(src) and astq.canon(label.slice) == astq.canon(row) and self.is_row_loop_var(fn, row.id, pos[0])
        elif label is None:
            good = False  # the column does not come from the label dictionary at all
        self.alloc_rows(cls, k, fn, ret.value.id, pos[0], name + ".predict_proba:rows")
        ctx.check(good, "R1", c, "row i gets its unit in the column class_dictionary[predict(X)[i]]",
                  "the vote of row %s lands in column %s, not in class_dictionary[self.predict(X)[row]]" % (
                      astq.canon(row), astq.canon(col)[:80]), self.loc(k, a))
        self.class_dictionary(cls)
        # the dictionary enumerates classes_: classes_ itself must be the sorted distinct training labels
        self.r1_table(cls, ("self", "classes_"), loc, only_definition=True)
        return ("one-hot",)

    def is_row_loop_var(self, fn, var, panel):
        for n in astq.walk_no_nested(fn):
            if isinstance(n, ast.While) and isinstance(n.test, ast.Compare) and len(n.test.ops) == 1 \
                    and isinstance(n.test.ops[0], ast.Lt) and isinstance(n.test.left, ast.Name) and n.test.left.id == var:
                inits = [v for v in astq.assigned_values(fn, var)]
                incs = [x for x in n.body if isinstance(x, ast.AugAssign) and isinstance(x.target, ast.Name) and x.target.id == var]
                bound = astq.canon(astq.inline_locals(fn, n.test.comparators[0]))
                return (len(inits) == 1 and const(inits[0]) == 0 and len(incs) == 1 and n.body[-1] is incs[0]
                        and isinstance(incs[0].op, ast.Add) and const(incs[0].value) == 1
                        and bound in ("%s.shape[0]" % panel, "len(%s)" % panel))
        for n in astq.walk_no_nested(fn):
            if isinstance(n, ast.For) and isinstance(n.target, ast.Name) and n.target.id == var \
                    and isinstance(n.iter, ast.Call) and isinstance(n.iter.func, ast.Name) and n.iter.func.id == "range":
                args = n.iter.args
                if len(args) == 2 and const(args[0]) != 0:
                    return False
                b = astq.canon(astq.inline_locals(fn, args[-1]))
                return b in ("%s.shape[0]" % panel, "len(%s)" % panel)
        return False

    def class_dictionary(self, cls):
        """fit builds class_dictionary[label] = position in classes_."""
        ctx, name = self.ctx, cls.name
        hf = self.method(cls, "fit")
        c = name + ".fit:class_dictionary"
        if hf is None:
            ctx.undecided("R2", c, "fit is not a repo method", None)
            return
        k, fn = hf
        found = []
        for n in astq.walk_no_nested(fn):
            if isinstance(n, ast.For) and isinstance(n.iter, ast.Call) and isinstance(n.iter.func, ast.Name) \
                    and n.iter.func.id == "enumerate" and len(n.iter.args) == 1 and isinstance(n.target, ast.Tuple) \
                    and len(n.target.elts) == 2 and all(isinstance(e, ast.Name) for e in n.target.elts):
                idx, val = n.target.elts[0].id, n.target.elts[1].id
                for st in n.body:
                    if isinstance(st, ast.Assign) and len(st.targets) == 1 and isinstance(st.targets[0], ast.Subscript) \
                            and is_self_attr(st.targets[0].value, "class_dictionary"):
                        good = (is_self_attr(n.iter.args[0], "classes_") and astq.canon(st.targets[0].slice) == val
                                and astq.canon(st.value) == idx and len(n.body) == 1)
                        found.append((good, st))
            if isinstance(n, ast.Assign) and any(is_self_attr(t, "class_dictionary") for t in n.targets) \
                    and isinstance(n.value, ast.DictComp) and len(n.value.generators) == 1:
                g = n.value.generators[0]
                good = (isinstance(g.iter, ast.Call) and isinstance(g.iter.func, ast.Name) and g.iter.func.id == "enumerate"
                        and len(g.iter.args) == 1 and is_self_attr(g.iter.args[0], "classes_") and not g.ifs
                        and isinstance(g.target, ast.Tuple) and len(g.target.elts) == 2
                        and astq.canon(n.value.key) == astq.canon(g.target.elts[1])
                        and astq.canon(n.value.value) == astq.canon(g.target.elts[0]))
                found.append((good, n))
        # manual position counter:  pos = 0 / for label in self.classes_: self.class_dictionary[label] = pos; pos += 1
        for n in astq.walk_no_nested(fn):
            if isinstance(n, ast.For) and isinstance(n.target, ast.Name) and is_self_attr(n.iter, "classes_"):
                for i0, st in enumerate(n.body):
                    if isinstance(st, ast.Assign) and len(st.targets) == 1 and isinstance(st.targets[0], ast.Subscript) \
                            and is_self_attr(st.targets[0].value, "class_dictionary") and isinstance(st.value, ast.Name):
                        cnt = st.value.id
                        inits = astq.assigned_values(fn, cnt)
                        incs = [(j0, x) for j0, x in enumerate(n.body) if isinstance(x, ast.AugAssign)
                                and isinstance(x.target, ast.Name) and x.target.id == cnt]
                        other = [x for b0 in n.body for x in ast.walk(b0) if isinstance(x, ast.Name) and x.id == cnt
                                 and isinstance(x.ctx, ast.Store)]
                        good = (len(inits) == 1 and const(inits[0]) == 0 and len(incs) == 1 and len(other) == 1
                                and isinstance(incs[0][1].op, ast.Add) and const(incs[0][1].value) == 1 and incs[0][0] > i0
                                and astq.canon(st.targets[0].slice) == n.target.id)
                        found.append((good if (len(inits) == 1 and len(incs) == 1) else None, st))
        if not found:
            raw = [1 for a0, v0, st0 in astq.self_attr_stores(fn) if a0 == "class_dictionary"] + [
                1 for x in astq.walk_no_nested(fn) if isinstance(x, ast.Subscript) and isinstance(x.ctx, ast.Store)
                and is_self_attr(x.value, "class_dictionary")]
            if raw:
                ctx.undecided("R2", c, "the construction of class_dictionary in fit is not interpretable", self.loc(k, fn))
            else:
                ctx.violation("R2", c, "fit does not build class_dictionary from enumerate(classes_)", self.loc(k, fn))
        for good, st in found:
            ctx.check(good, "R2", c, "class_dictionary[label] = position of the label in classes_",
                      "class_dictionary is not label -> position in classes_ (%s)" % astq.canon(st)[:90] if not isinstance(
                          st, ast.Assign) else "class_dictionary is not label -> position in classes_: %s = %s" % (
                          astq.canon(st.targets[0])[:50], astq.canon(st.value)[:40]), self.loc(k, st))
        # the dictionary must be built after classes_ is assigned
        g = self.flow.cfg(fn)
        IN, _ = g.forward_must(lambda nd: nd.stmt is not None and isinstance(nd.stmt, ast.Assign)
                               and any(is_self_attr(t, "classes_") for t in nd.stmt.targets))
        for good, st in found:
            nd = g.node_of(st) or g.node_of(st.value if isinstance(st, ast.Assign) else st)
            if nd is not None:
                ctx.check(IN.get(nd.id, False), "R2", name + ".fit:class_dictionary-order",
                          "classes_ is assigned before the dictionary is built", "class_dictionary is built from classes_ before "
                          "classes_ is assigned in fit (stale table)", self.loc(k, st))

    # ------------------------------------------------------------------------------------ R2: forests
    def r2_forest(self, cls, method="predict_proba", member_method="predict_proba"):
        """return sum(parts, axis=0) / D  (or mean(parts, axis=0)) with parts = one matrix per i in range(N):
        D == N, every part is member_i.<member_method>(...), per-member attributes are indexed by the same i."""
        ctx, name = self.ctx, cls.name
        k, fn = self.method(cls, method)
        loc = self.loc(k, fn)
        scope = Scope(self.repo, k.module, fn)
        c = "%s.%s" % (name, method)
        ret = single_return(fn)
        if ret is None or ret.value is None:
            ctx.undecided("R2", c + ":normaliser", "not a single return", loc)
            return
        e = astq.inline_locals(fn, ret.value)
        parts, den = None, None
        if isinstance(e, ast.BinOp) and isinstance(e.op, ast.Div) and isinstance(e.left, ast.Call) \
                and scope.ext(e.left.func) == "numpy.sum" and e.left.args:
            if axis_of(e.left) != 0:
                ctx.violation("R2", c + ":normaliser", "member matrices are summed over axis %r, not over the members (axis 0)"
                              % axis_of(e.left), loc)
                return
            parts, den = e.left.args[0], strip_ones(scope, e.right)
        elif isinstance(e, ast.Call) and scope.ext(e.func) in ("numpy.mean", "numpy.average") and e.args:
            if axis_of(e) != 0 or kw(e, "weights") is not None:
                ctx.check(False if axis_of(e) != 0 else None, "R2", c + ":normaliser", "",
                          "mean over axis %r / with weights is not the plain average over the members" % axis_of(e), loc)
                return
            parts = e.args[0]
        elif isinstance(e, ast.BinOp) and isinstance(e.left, ast.Call) and scope.ext(e.left.func) == "numpy.sum":
            ctx.violation("R2", c + ":normaliser", "the sum of the member matrices is combined with the member count by %s, not divided "
                          "by it" % type(e.op).__name__, loc)
            return
        else:
            ctx.undecided("R2", c + ":normaliser", "return value is not sum(parts)/D or mean(parts): %s" % astq.canon(e)[:80], loc)
            return
        if den is not None and isinstance(e.right, ast.BinOp) and den is e.right and any(
                isinstance(x, ast.Call) and scope.ext(x.func) == "numpy.ones" for x in (e.right.left, e.right.right)):
            ctx.violation("R2", c + ":normaliser", "the divisor %s is not the member count broadcast over the classes (ones * count)"
                          % astq.canon(e.right)[:60], loc)
            return
        gen = unwrap_parallel(scope, parts)
        zipped = self._zip_to_index(scope, gen)
        if zipped is not None:
            gen, zip_counts = zipped
        else:
            zip_counts = []
        if not isinstance(gen, (ast.GeneratorExp, ast.ListComp)) or len(gen.generators) != 1 or gen.generators[0].ifs \
                or not isinstance(gen.generators[0].target, ast.Name):
            ctx.undecided("R2", c + ":members", "parts are not one expression per member: %s" % astq.canon(parts)[:80], loc)
            return
        g = gen.generators[0]
        var = g.target.id
        it = g.iter
        alt_counts = []
        if not (isinstance(it, ast.Call) and scope.ext(it.func) == "builtins.range" and len(it.args) == 1):
            ctx.undecided("R2", c + ":members", "members are not iterated by range(N): %s" % astq.canon(it)[:60], loc)
            return
        n_members = it.args[0]
        if den is not None:
            same = astq.canon(den) == astq.canon(n_members) or astq.canon(den) in [astq.canon(z) for z in zip_counts]
            if not same and zip_counts and is_self_attr(den) and self._is_ctor_param(cls, den.attr):
                ctx.violation("R2", c + ":normaliser", "the member matrices of the fitted collections (%s of them) are summed but "
                              "divided by the constructor parameter self.%s, which can change after fit (set_params) while the "
                              "fitted members stay" % (astq.canon(n_members), den.attr), loc,
                              witness={"history": "fit; set_params(%s=k); predict_proba: rows no longer sum to 1" % den.attr})
                same = None
            if same is None:
                pass
            else:
              ctx.check(same, "R2", c + ":normaliser", "divisor %s == number of summed member matrices" % astq.canon(den),
                        "the sum of %s member matrices is divided by %s" % (astq.canon(n_members), astq.canon(den)), loc,
                        witness={"members": astq.canon(n_members), "divisor": astq.canon(den)})
        else:
            ctx.ok("R2", c + ":normaliser", "plain mean over the %s member outputs" % astq.canon(n_members), loc)
        # element: [delayed](f)(args)
        call = gen.elt
        if isinstance(call, ast.Call) and isinstance(call.func, ast.Call) and len(call.func.args) == 1 \
                and scope.ext(call.func.func) in DELAYED:
            call = ast.copy_location(ast.Call(func=call.func.args[0], args=call.args, keywords=call.keywords), call)
        if not isinstance(call, ast.Call):
            ctx.undecided("R2", c + ":members", "member expression is not a call", loc)
            return
        # pairing: every self.<attr>[idx] argument uses the member index
        idxs = [a for a in ast.walk(call) if isinstance(a, ast.Subscript) and is_self_attr(a.value)]
        bad = [a for a in idxs if astq.canon(a.slice) != var]
        if method == "predict_proba" or member_method == "predict":
            self.members_fresh(cls, {a.value.attr for a in idxs})
        ctx.check((not bad) if idxs else None, "R2", c + ":pairing",
                  "per-member attributes %s are all indexed by the member index" % sorted({a.value.attr for a in idxs}),
                  "member attribute %s is not indexed by the member index %s" % (astq.canon(bad[0]) if bad else "?", var), loc)
        # the callee returns <member>.member_method(...)
        f = call.func
        target = None
        if isinstance(f, ast.Attribute) and isinstance(f.value, ast.Name) and f.value.id == "self":
            hit = self.lookup(cls, f.attr)
            if hit is not None and hit[0] == "repo":
                target = (hit[2], hit[1].module, True, hit[1])
        elif isinstance(f, ast.Name):
            sym = self.repo.resolve_name(k.module, f.id)
            if sym is not None and sym.kind == "func":
                target = (sym.target, sym.module, False, None)
        if target is None:
            ctx.undecided("R2", c + ":member-output", "member function %s does not resolve" % astq.canon(f), loc)
            return
        tfn, tmod, skip, tdef = target
        b = astq.bind_call(tfn, call, skip_self=skip and not (tdef and tdef.is_static(tfn.name)))
        rets = astq.returns(tfn)
        good = bool(rets) and b is not None
        member_attr = None
        # repaired form: the helper scatters the member's matrix into the columns given by the member's own classes_
        members = [p0 for p0, a0 in (b or {}).items() if isinstance(a0, ast.Subscript) and is_self_attr(a0.value)
                   and astq.canon(a0.slice) == var]
        for p0 in members:
            calls_m = [c0 for c0 in astq.calls(tfn) if isinstance(c0.func, ast.Attribute) and c0.func.attr == member_method
                       and isinstance(c0.func.value, ast.Name) and c0.func.value.id == p0]
            reads = [n0 for n0 in astq.walk_no_nested(tfn) if isinstance(n0, ast.Attribute) and n0.attr == "classes_"
                     and isinstance(n0.value, ast.Name) and n0.value.id == p0]
            perm = None
            for r0 in rets:
                v0 = r0.value
                if isinstance(v0, ast.Subscript) and isinstance(v0.slice, ast.Tuple) and len(v0.slice.elts) == 2 \
                        and isinstance(v0.slice.elts[0], ast.Slice):
                    perm = v0.slice.elts[1]
            if calls_m and reads and perm is not None:
                # the member matrix is returned with permuted columns: only the identity permutation keeps classes_ order
                sc_t = Scope(self.repo, tmod, tfn)
                pe = astq.inline_locals(tfn, perm)
                if isinstance(pe, ast.Call) and sc_t.ext(pe.func) == "numpy.argsort" and len(pe.args) == 1:
                    key = pe.args[0]
                    if isinstance(key, ast.Attribute) and key.attr == "classes_" and isinstance(key.value, ast.Name) \
                            and key.value.id == p0:
                        ctx.ok("R2", c + ":member-output", "columns taken in the order of the member's own (sorted) classes_: identity",
                               self.loc(tmod, tfn))
                    else:
                        ctx.violation("R2", c + ":member-output", "the member's probability columns are re-ordered by %s: this is not the "
                                      "order of classes_ (sorted label values), so column j of the summed matrix no longer belongs to "
                                      "classes_[j]" % astq.canon(pe)[:70], self.loc(tmod, perm),
                                      witness={"input": "integer labels {2, 10}: as strings '10' < '2', the two columns are swapped"})
                else:
                    ctx.undecided("R2", c + ":member-output", "column selection %s of the member matrix not interpretable"
                                  % astq.canon(pe)[:60], self.loc(tmod, tfn))
                return
            if calls_m and reads and member_method == "predict_proba":
                self.realigned.add(name)
                ctx.ok("R2", c + ":member-output", "each part is the %s of self.%s[i], re-aligned through the member's own "
                       "classes_ (alignment arithmetic itself not decided)" % (member_method, b[p0].value.attr), self.loc(tmod, tfn))
                return
        for r in rets:
            v = r.value
            if not (isinstance(v, ast.Call) and isinstance(v.func, ast.Attribute) and isinstance(v.func.value, ast.Name)):
                good = None if good else good
                break
            if v.func.attr != member_method:
                good = False
                break
            actual = (b or {}).get(v.func.value.id)
            if not (isinstance(actual, ast.Subscript) and is_self_attr(actual.value) and astq.canon(actual.slice) == var):
                good = False
                break
            member_attr = actual.value.attr
        ctx.check(good, "R2", c + ":member-output", "each part is self.%s[i].%s(features)" % (member_attr, member_method),
                  "a part is not the %s of the i-th fitted member" % member_method, self.loc(tmod, tfn))

    def alloc_rows(self, cls, k, fn, acc, panel, construct):
        """The matrix predict_proba fills has one row per instance: np.zeros((X.shape[0] | len(X), K))."""
        ctx = self.ctx
        vals = astq.assigned_values(fn, acc)
        if len(vals) != 1 or not (isinstance(vals[0], ast.Call) and vals[0].args and isinstance(vals[0].args[0], (ast.Tuple, ast.List))
                                  and vals[0].args[0].elts):
            return
        rows = astq.canon(astq.inline_locals(fn, vals[0].args[0].elts[0]))
        if rows in ("%s.shape[0]" % panel, "len(%s)" % panel):
            ctx.ok("R2", construct, "one row per instance of X", self.loc(k, vals[0]))
        elif rows.startswith("%s.shape[" % panel):
            ctx.violation("R2", construct, "the probability matrix is allocated with %s rows, not one per instance (X.shape[0])" % rows,
                          self.loc(k, vals[0]))

    def members_fresh(self, cls, attrs):
        """fit must re-create every member collection it appends to (before the first append, on every path): otherwise a
        refit keeps the members of the previous fit in front of the new ones."""
        ctx, name = self.ctx, cls.name
        hf = self.method(cls, "fit")
        if hf is None:
            return
        k, fn = hf
        g = self.flow.cfg(fn)
        for attr in sorted(set(attrs)):
            sites = [n for n in astq.walk_no_nested(fn) if isinstance(n, ast.Call) and isinstance(n.func, ast.Attribute)
                     and n.func.attr in ("append", "extend", "insert") and is_self_attr(n.func.value, attr)]
            if not sites:
                continue
            IN, _ = g.forward_must(lambda nd: isinstance(nd.stmt, ast.Assign) and any(is_self_attr(t, attr) for t in nd.stmt.targets))
            fresh = all(g.node_of(c0) is not None and IN.get(g.node_of(c0).id, False) for c0 in sites)
            ctx.check(fresh, "R2", "%s.fit:self.%s:fresh" % (name, attr), "self.%s is re-created in fit before members are appended" % attr,
                      "fit appends to self.%s without re-creating it first: after a second fit the collection still starts with the "
                      "members of the first fit (predict_proba then averages / indexes stale members)" % attr, self.loc(k, sites[0]),
                      witness={"history": "fit(X1, y1); fit(X2, y2); predict_proba(X)"})

    def _is_ctor_param(self, cls, attr):
        hit = self.lookup(cls, "__init__")
        return hit is not None and hit[0] == "repo" and attr in astq.all_param_names(hit[2])

    def _zip_to_index(self, scope, gen):
        """`f(a, b) for a, b in zip(self.A, self.B)` (or `for a in self.A`)  ->  `f(self.A[i], self.B[i]) for i in
        range(len(self.A))` so that the indexed-member obligations apply unchanged."""
        import copy
        if not isinstance(gen, (ast.GeneratorExp, ast.ListComp)) or len(gen.generators) != 1 or gen.generators[0].ifs:
            return None
        g = gen.generators[0]
        if is_self_attr(g.iter) and isinstance(g.target, ast.Name):
            pairs = [(g.target.id, g.iter)]
        elif isinstance(g.iter, ast.Call) and scope.ext(g.iter.func) == "builtins.zip" and isinstance(g.target, ast.Tuple) \
                and len(g.target.elts) == len(g.iter.args) and all(isinstance(t, ast.Name) for t in g.target.elts) \
                and all(is_self_attr(a) for a in g.iter.args):
            pairs = [(t.id, a) for t, a in zip(g.target.elts, g.iter.args)]
        else:
            return None
        idx = "_member_index"
        mapping = dict(pairs)

        class Sub(ast.NodeTransformer):
            def visit_Name(self, node):
                if isinstance(node.ctx, ast.Load) and node.id in mapping:
                    return ast.copy_location(ast.Subscript(value=copy.deepcopy(mapping[node.id]),
                                                           slice=ast.Name(id=idx, ctx=ast.Load()), ctx=ast.Load()), node)
                return node

        elt = Sub().visit(copy.deepcopy(gen.elt))
        counts = [ast.Call(func=ast.Name(id="len", ctx=ast.Load()), args=[copy.deepcopy(a)], keywords=[]) for _, a in pairs]
        new_iter = ast.Call(func=ast.Name(id="range", ctx=ast.Load()), args=[counts[0]], keywords=[])
        comp = ast.comprehension(target=ast.Name(id=idx, ctx=ast.Store()), iter=new_iter, ifs=[], is_async=0)
        out = ast.GeneratorExp(elt=elt, generators=[comp])
        ast.copy_location(out, gen)
        ast.fix_missing_locations(out)
        return out, counts

    def r2_member_labels(self, cls):
        """Members whose probability matrices are added column by column must be fitted on the full label vector
        (their own classes_ -- the column order of their predict_proba -- then equals self.classes_)."""
        ctx, name = self.ctx, cls.name
        hf = self.method(cls, "fit")
        c = name + ".fit:member-labels"
        if hf is None:
            ctx.undecided("R2", c, "fit is not a repo method", None)
            return
        k, fn = hf
        sites = member_fit_sites(self.repo, self.flow, self.lookup, k.module, cls, k, fn)
        if not sites:
            ctx.undecided("R2", c, "no member.fit(features, labels) call found from fit", self.loc(k, fn))
            return
        for kind, call, mod in sites:
            l = self.ctx.loc(mod, call)
            if kind == "y" or (isinstance(kind, tuple) and kind[0] == "enc"):
                ctx.ok("R2", c, "members are fitted on the full %s label vector" % ("encoded" if kind != "y" else "training"), l)
            elif kind == "subset" and name in self.realigned:
                ctx.ok("R2", c, "members are fitted on sub-samples, but their matrices are re-aligned through their own classes_", l)
            elif kind == "subset":
                ctx.violation("R2", c, "a member is fitted on a sub-sample of the labels (%s): its predict_proba has one column per "
                              "class *it* saw, but predict_proba adds the member matrices column by column against classes_"
                              % astq.canon(call.args[1] if len(call.args) > 1 else call)[:60], l,
                              witness={"history": "a bootstrap bag that misses one class entirely, e.g. 6 instances, 2 classes, "
                                                  "500 trees: P(some tree sees one class only) ~ 1"})
            else:
                ctx.undecided("R2", c, "label argument of %s not interpretable" % astq.canon(call)[:70], l)

    # ------------------------------------------------------------------------------------ R2: dictionary ensembles
    def r2_dictionary(self, cls):
        ctx, name = self.ctx, cls.name
        k, fn = self.method(cls, "predict_proba")
        loc = self.loc(k, fn)
        scope = Scope(self.repo, k.module, fn)
        c = name + ".predict_proba"
        pos = astq.param_names(fn, skip_self=True)
        augs = [n for n in astq.walk_no_nested(fn) if isinstance(n, ast.AugAssign) and isinstance(n.target, ast.Subscript)]
        ret = single_return(fn)
        if not augs and ret is not None:
            ctx.violation("R2", c + ":votes", "no vote is ever added to the matrix predict_proba returns: every row is all zero", loc)
            return
        if len(augs) != 1 or ret is None:
            ctx.undecided("R2", c + ":votes", "not a single vote accumulation", loc)
            return
        a = augs[0]
        t = a.target
        if not (isinstance(a.op, ast.Add) and isinstance(t, ast.Subscript) and isinstance(t.value, ast.Name)
                and isinstance(t.slice, ast.Tuple) and len(t.slice.elts) == 2):
            ctx.undecided("R2", c + ":votes", "vote statement not interpretable", loc)
            return
        acc = t.value.id
        row, col = t.slice.elts
        path = astq.enclosing_stmts(fn, a)
        loops = [s for s in path if isinstance(s, ast.For)]
        if len(loops) != 2:
            ctx.undecided("R2", c + ":votes", "votes are not accumulated in a member loop x instance loop", loc)
            return
        outer, inner = loops
        # outer loop: members (optionally enumerated)
        member_var, index_var, coll = None, None, None
        it = outer.iter
        if is_self_attr(it) and isinstance(outer.target, ast.Name):
            member_var, coll = outer.target.id, it.attr
        elif isinstance(it, ast.Call) and scope.ext(it.func) == "builtins.enumerate" and len(it.args) == 1 \
                and is_self_attr(it.args[0]) and isinstance(outer.target, ast.Tuple) and len(outer.target.elts) == 2:
            index_var, member_var, coll = outer.target.elts[0].id, outer.target.elts[1].id, it.args[0].attr
        if member_var is None:
            ctx.undecided("R2", c + ":votes", "member loop %s not interpretable" % astq.canon(it)[:60], loc)
            return
        # column: class_dictionary[preds[row]] with preds = member.predict(panel), same row index
        good = None
        label = None
        if isinstance(col, ast.Subscript) and is_self_attr(col.value, "class_dictionary"):
            label = col.slice
        elif isinstance(col, ast.Call) and isinstance(col.func, ast.Attribute) and col.func.attr == "get" \
                and is_self_attr(col.func.value, "class_dictionary") and len(col.args) == 1:
            label = col.args[0]
        if isinstance(label, ast.Name):
            lv = astq.assigned_values(fn, label.id)
            label = lv[0] if len(lv) == 1 else label
        if label is None:
            good = False  # the column does not come from the label -> position table
        elif isinstance(label, ast.Subscript) and isinstance(label.value, ast.Name) and isinstance(row, ast.Name):
            preds = label.value.id
            vals = [v for v in astq.assigned_values(fn, preds)]
            src = (len(vals) == 1 and isinstance(vals[0], ast.Call) and isinstance(vals[0].func, ast.Attribute)
                   and vals[0].func.attr == "predict" and isinstance(vals[0].func.value, ast.Name)
                   and vals[0].func.value.id == member_var and len(vals[0].args) == 1
                   and isinstance(vals[0].args[0], ast.Name) and vals[0].args[0].id == pos[0]
                   and any(vals[0] is n for s in outer.body for n in ast.walk(s)))
            if len(vals) == 1 and isinstance(vals[0], ast.Call):
                good = bool(src) and astq.canon(label.slice) == row.id and isinstance(inner.target, ast.Name) \
                    and inner.target.id == row.id
        ctx.check(good, "R2", c + ":column", "the vote of member m for instance i lands in class_dictionary[m.predict(X)[i]], row i",
                  "vote lands in [%s, %s]: not (instance i, class_dictionary[member prediction for i])" % (
                      astq.canon(row), astq.canon(col)[:70]), self.loc(k, a))
        # rows: one per instance, every instance visited
        self.alloc_rows(cls, k, fn, acc, pos[0], c + ":rows")
        rng_ok = None
        if isinstance(inner.iter, ast.Call) and scope.ext(inner.iter.func) == "builtins.range" and not inner.iter.keywords \
                and 1 <= len(inner.iter.args) <= 2:
            args = inner.iter.args
            bound = astq.canon(astq.inline_locals(fn, args[-1]))
            start_ok = len(args) == 1 or const(args[0]) == 0
            if bound in ("%s.shape[0]" % pos[0], "len(%s)" % pos[0]):
                rng_ok = start_ok if (len(args) == 1 or const(args[0]) is not None) else None
            elif bound.startswith("%s.shape[" % pos[0]):
                rng_ok = False
        ctx.check(rng_ok, "R2", c + ":instances", "the vote loop visits every instance 0..n-1",
                  "the vote loop runs over range(%s): not every instance of X receives the members' votes" % ", ".join(
                      astq.canon(x) for x in getattr(inner.iter, "args", [])), self.loc(k, inner))
        # mass per vote
        w = a.value
        weighted = None
        if isinstance(const(w), (int, float)) and const(w) != 1 and not weighted:
            ctx.violation("R2", c + ":vote-weight", "each vote adds %s while the divisor counts one per member: rows sum to %s, not 1"
                          % (astq.canon(w), astq.canon(w)), self.loc(k, a))
            return
        if const(w) == 1:
            weighted = False
        elif isinstance(w, ast.Subscript) and is_self_attr(w.value) and index_var and astq.canon(w.slice) == index_var:
            weighted = w.value.attr
        else:
            ctx.check(False if isinstance(w, ast.Subscript) and is_self_attr(w.value) else None, "R2", c + ":vote-weight", "",
                      "vote weight %s is not 1 / the weight of the voting member" % astq.canon(w)[:60], self.loc(k, a))
            return
        ctx.ok("R2", c + ":vote-weight", "each vote adds %s" % ("1" if not weighted else "self.%s[member index]" % weighted),
               self.loc(k, a))
        # divisor
        e = ret.value
        if isinstance(e, ast.Name) and e.id != acc:
            vals = astq.assigned_values(fn, e.id)
            e = vals[0] if len(vals) == 1 else e
        if isinstance(e, ast.BinOp) and not isinstance(e.op, ast.Div) and isinstance(e.left, ast.Name) and e.left.id == acc:
            ctx.violation("R2", c + ":normaliser", "the vote matrix is combined with its mass by %s, not divided by it: rows do not "
                          "sum to 1" % type(e.op).__name__, loc)
            return
        if isinstance(e, ast.Name) and e.id == acc:
            ctx.violation("R2", c + ":normaliser", "the raw vote counts are returned without being divided by the accumulated mass", loc)
            return
        if not (isinstance(e, ast.BinOp) and isinstance(e.op, ast.Div) and isinstance(e.left, ast.Name) and e.left.id == acc):
            ctx.undecided("R2", c + ":normaliser", "return value is not votes / D: %s" % astq.canon(e)[:70], loc)
            return
        den0 = astq.inline_locals(fn, e.right)
        den = strip_ones(scope, den0)
        if den is den0 and isinstance(den0, ast.BinOp) and any(
                isinstance(x, ast.Call) and scope.ext(x.func) == "numpy.ones" for x in (den0.left, den0.right)):
            ctx.violation("R2", c + ":normaliser", "the divisor %s is not the accumulated mass broadcast over the classes (ones * mass)"
                          % astq.canon(den0)[:60], loc)
            return
        self.mass(cls, den, coll, weighted, c, loc)
        self.members_fresh(cls, [coll] + ([weighted] if weighted else []))
        self.class_dictionary(cls)
        if weighted:
            self.parallel_lists(cls, coll, weighted)

    def mass(self, cls, den, coll, weighted, c, loc):
        """den must be the accumulated mass: len(self.<coll>) or sum(self.<weights>), directly or through an attribute
        that fit sets to exactly that after the last change of the list."""
        ctx, name = self.ctx, cls.name
        src = weighted or coll

        def is_mass(e, scope):
            if weighted:
                return isinstance(e, ast.Call) and scope.ext(e.func) in ("numpy.sum", "builtins.sum") and len(e.args) == 1 \
                    and not e.keywords and is_self_attr(e.args[0], weighted)
            return isinstance(e, ast.Call) and scope.ext(e.func) == "builtins.len" and len(e.args) == 1 \
                and is_self_attr(e.args[0], coll)

        k0, fn0 = self.method(cls, "predict_proba")
        if is_mass(den, Scope(self.repo, k0.module, fn0)):
            ctx.ok("R2", c + ":normaliser", "divisor is the accumulated mass %s" % astq.canon(den), loc)
            return
        if not is_self_attr(den):
            ctx.check(False if isinstance(den, ast.Constant) or (isinstance(den, ast.Attribute)) else None, "R2", c + ":normaliser",
                      "", "votes are divided by %s, not by the accumulated mass (%s of self.%s)" % (
                          astq.canon(den)[:60], "sum" if weighted else "len", src), loc)
            return
        attr = den.attr
        hf = self.method(cls, "fit")
        if hf is None:
            ctx.undecided("R2", c + ":normaliser", "fit is not a repo method", loc)
            return
        k, fn = hf
        scope = Scope(self.repo, k.module, fn)
        stores = [(v, st) for a, v, st in astq.self_attr_stores(fn) if a == attr]
        if not stores:
            ctx.violation("R2", c + ":normaliser", "votes are divided by self.%s which fit never sets to the accumulated mass (%s of "
                          "self.%s)" % (attr, "sum" if weighted else "len", src), loc)
            return
        g = self.flow.cfg(fn)
        for v, st in stores:
            l = self.loc(k, st)
            if v is None or not is_mass(v, scope):
                ctx.violation("R2", c + ":normaliser", "self.%s = %s is not the accumulated mass (%s of self.%s)" % (
                    attr, astq.canon(v)[:60] if v is not None else "?", "sum" if weighted else "len", src), l,
                    witness={"divisor": "self." + attr})
                continue
            ctx.ok("R2", c + ":normaliser", "self.%s = %s" % (attr, astq.canon(v)), l)
            nd = g.node_of(st)
            later = g.may_reach_after(nd, lambda n: mutates_attr(n.stmt, src)) if nd is not None else None
            ctx.check(None if later is None else not later, "R2", c + ":normaliser-fresh",
                      "self.%s is not changed after self.%s is computed" % (src, attr),
                      "self.%s is changed after self.%s was computed from it (stale mass)" % (src, attr),
                      self.loc(k, later[0].stmt) if later else l)
            ctx.check(g.must_pass(lambda n: n is nd), "R2", c + ":normaliser-always", "computed on every path of fit",
                      "self.%s is not computed on every path of fit" % attr, l)

    def parallel_lists(self, cls, coll, weights):
        """self.<coll> and self.<weights> must stay index-aligned in fit."""
        ctx, name = self.ctx, cls.name
        k, fn = self.method(cls, "fit")
        c = name + ".fit:weights-aligned"

        def events(attr):
            out = []
            for n in astq.walk_no_nested(fn):
                if isinstance(n, ast.Expr) and isinstance(n.value, ast.Call) and isinstance(n.value.func, ast.Attribute) \
                        and n.value.func.attr in MUTATORS and is_self_attr(n.value.func.value, attr):
                    out.append((n.value.func.attr, None, n))
                elif isinstance(n, ast.Assign):
                    for t in n.targets:
                        if isinstance(t, ast.Subscript) and is_self_attr(t.value, attr):
                            out.append(("setitem", astq.canon(t.slice), n))
                        elif is_self_attr(t, attr):
                            out.append(("assign", astq.canon(n.value), n))
                elif isinstance(n, ast.Delete):
                    for t in n.targets:
                        if isinstance(t, ast.Subscript) and is_self_attr(t.value, attr):
                            out.append(("delitem", astq.canon(t.slice), n))
            return out

        ea, eb = events(coll), events(weights)
        block_of = {}
        for blk in _blocks(fn):
            for st in blk:
                block_of[id(st)] = id(blk)
        sig = lambda ev: sorted((kind, key if kind != "assign" else "", block_of.get(id(st))) for kind, key, st in ev)
        ctx.check(sig(ea) == sig(eb), "R2", c, "every change of self.%s is mirrored on self.%s in the same block (%d events)" % (
            coll, weights, len(ea)), "self.%s and self.%s are not changed in lock step: %s vs %s" % (
            coll, weights, [(a, b) for a, b, _ in ea], [(a, b) for a, b, _ in eb]), self.loc(k, fn))

    # ------------------------------------------------------------------------------------ R2: column count
    def r2_column_count(self, cls):
        """The number of probability columns (self.<K> in np.zeros((n, self.K)) / np.ones(self.K) of predict_proba) must be
        the number of distinct labels of the *current* fit, not state carried across fits."""
        ctx, name = self.ctx, cls.name
        hp = self.method(cls, "predict_proba")
        hf = self.method(cls, "fit")
        if hp is None or hf is None:
            return
        k, fn = hp
        scope = Scope(self.repo, k.module, fn)
        attrs = set()
        for c0 in astq.calls(fn):
            ext = scope.ext(c0.func)
            if ext in ("numpy.zeros", "numpy.ones", "numpy.empty", "numpy.full") and c0.args:
                shp = c0.args[0]
                last = shp.elts[-1] if isinstance(shp, (ast.Tuple, ast.List)) and shp.elts else shp
                if is_self_attr(last):
                    attrs.add(last.attr)
        kf, ff = hf
        fi = FitInfo(self.repo, kf.module, cls, kf, ff, self.lookup)
        g = self.flow.cfg(ff)
        for attr in sorted(attrs):
            c = "%s.fit:%s" % (name, attr)
            stores = [(v, st) for a, v, st in astq.self_attr_stores(ff) if a == attr]
            if not stores:
                ctx.violation("R2", c, "predict_proba sizes its columns with self.%s, which fit never sets from the training labels"
                              % attr, self.loc(kf, ff))
                continue
            for v, st in stores:
                verdict, why = self.is_label_count(fi, g, ff, v, st)
                ctx.check(verdict, "R2", c, "self.%s = number of distinct labels of this fit (%s)" % (attr, why),
                          "self.%s = %s: %s" % (attr, astq.canon(v)[:60] if v is not None else "<unpacked>", why), self.loc(kf, st))

    def is_label_count(self, fi, g, fn, v, st):
        """(True/False/None, reason) -- v counts the distinct labels of the current fit."""
        sc = fi.scope

        def unique_of_y(e):
            return isinstance(e, ast.Call) and sc.ext(e.func) == "numpy.unique" and e.args and fi.kind(e.args[0]) == "y"

        def fresh_label_table(e):
            """e holds one entry per distinct current label: np.unique(y), a local bound to it (or to its counts),
            or a self attribute (re)assigned from the current labels earlier on every path of this fit."""
            if unique_of_y(e) and not e.keywords:
                return True, "np.unique(y)"
            if isinstance(e, ast.Name):
                for n in astq.walk_no_nested(fn):
                    if isinstance(n, ast.Assign) and len(n.targets) == 1:
                        t = n.targets[0]
                        if isinstance(t, ast.Name) and t.id == e.id and unique_of_y(n.value) and not n.value.keywords:
                            return True, "local np.unique(y)"
                        if isinstance(t, ast.Tuple) and any(isinstance(x, ast.Name) and x.id == e.id for x in t.elts) \
                                and unique_of_y(n.value):
                            return True, "np.unique(y, return_counts=True)"
                return None, "local %s not interpretable" % e.id
            if is_self_attr(e):
                a = e.attr
                assigns = [s0 for a0, v0, s0 in astq.self_attr_stores(fn) if a0 == a and isinstance(s0, ast.Assign)
                           and any(is_self_attr(t, a) for t in s0.targets)]
                nd = g.node_of(st)
                good_nodes = []
                for s0 in assigns:
                    val = s0.value
                    if fi.sorted_unique_of_labels(val) or (isinstance(val, ast.Attribute) and val.attr == "classes_"):
                        good_nodes.append(g.node_of(s0))
                if not assigns:
                    return False, "self.%s is never re-assigned in fit (only updated in place): it keeps entries of earlier " \
                                  "fits, so the count is stale after a refit on another label set" % a
                if good_nodes and nd is not None:
                    IN, _ = g.forward_must(lambda n: any(n is x for x in good_nodes))
                    if IN.get(nd.id):
                        return True, "len of self.%s assigned from the current labels earlier in fit" % a
                    return False, "self.%s is read before it is assigned from the current labels" % a
                return None, "self.%s not interpretable" % a
            return None, "not interpretable"

        if v is None:
            # tuple unpacking: cls, class_counts = np.unique(y, return_counts=True) style is handled through locals only
            return None, "assigned by unpacking"
        # X.shape[0] forms: <table>.shape[0]
        if isinstance(v, ast.Subscript) and const(v.slice) == 0 and isinstance(v.value, ast.Attribute) and v.value.attr == "shape":
            return fresh_label_table(v.value.value)
        if isinstance(v, ast.Subscript) and isinstance(const(v.slice), int) and const(v.slice) != 0 \
                and isinstance(v.value, ast.Attribute) and v.value.attr == "shape" and fresh_label_table(v.value.value)[0]:
            return False, "shape[%d] of the 1-d array of distinct labels is not their count" % const(v.slice)
        if isinstance(v, ast.Call) and sc.ext(v.func) == "builtins.len" and len(v.args) == 1:
            return fresh_label_table(v.args[0])
        if isinstance(v, ast.Constant):
            return (True, "constant initialiser") if v.value in (0, None) else (False, "constant")
        return None, "not interpretable"

    # ------------------------------------------------------------------------------------ R2: column specification
    def r2_column_spec(self, cls):
        """Members must be addressed at predict time by the declared column specification: what fit stores in
        self._columns is the user's specification (or the result of the user's callable), not positions resolved
        against the fit-time frame."""
        ctx, name = self.ctx, cls.name
        hit = self.method(cls, "_validate_column_callables")
        c = name + ".fit:column-spec"
        if hit is None:
            ctx.undecided("R2", c, "_validate_column_callables not found", None)
            return
        k, fn = hit
        loc = self.loc(k, fn)
        pos = astq.param_names(fn, skip_self=True)
        stores = [(v, st) for a, v, st in astq.self_attr_stores(fn) if a == "_columns"]
        if len(stores) != 1 or not isinstance(stores[0][0], (ast.Name, ast.ListComp)):
            ctx.undecided("R2", c, "self._columns is not assigned from one local list", loc)
            return
        acc = stores[0][0]
        comp = as_comprehension(fn, acc)
        if comp is None and isinstance(acc, ast.Name):
            vals = astq.assigned_values(fn, acc.id)
            comp = as_comprehension(fn, vals[0]) if len(vals) == 1 else None
        loops = [n for n in astq.walk_no_nested(fn) if isinstance(n, ast.For)]
        appended = [c0.args[0] for c0 in astq.calls(fn) if isinstance(c0.func, ast.Attribute) and c0.func.attr == "append"
                    and isinstance(c0.func.value, ast.Name) and isinstance(acc, ast.Name) and c0.func.value.id == acc.id
                    and len(c0.args) == 1]
        if comp is not None and not appended:
            appended, loop_target, loop_iter = [comp[2]], comp[0], comp[1]
        elif len(loops) == 1 and appended:
            loop_target, loop_iter = loops[0].target, loops[0].iter
        else:
            ctx.undecided("R2", c, "column list is not built by one loop", loc)
            return
        spec = loop_target.elts[2].id if isinstance(loop_target, ast.Tuple) and len(loop_target.elts) == 3 \
            and isinstance(loop_target.elts[2], ast.Name) else None
        if spec is None or not is_self_attr(loop_iter, "estimators"):
            ctx.undecided("R2", c, "loop is not over the (name, estimator, column) triples of self.estimators", loc)
            return
        rebinds = [v for v in astq.assigned_values(fn, spec)]
        ok_rebind = all(isinstance(v, ast.Call) and isinstance(v.func, ast.Name) and v.func.id == spec for v in rebinds)
        for a in appended:
            if isinstance(a, ast.Name) and a.id == spec and ok_rebind:
                ctx.ok("R2", c, "self._columns keeps the declared column specification (or the user callable's result)", loc)
            elif isinstance(a, ast.IfExp) and all(
                    (isinstance(x, ast.Name) and x.id == spec) or (isinstance(x, ast.Call) and isinstance(x.func, ast.Name)
                                                                   and x.func.id == spec) for x in (a.body, a.orelse)):
                ctx.ok("R2", c, "self._columns keeps the declared column specification (or the user callable's result)", loc)
            elif isinstance(a, ast.Call) and not (isinstance(a.func, ast.Name) and a.func.id == spec) and any(
                    isinstance(x, ast.Name) and x.id in pos for x in ast.walk(a)):
                ctx.violation("R2", c, "fit stores %s in self._columns: the column specification is resolved against the fit-time "
                              "frame, so members are addressed by fit-time positions at predict time (a frame with the same named "
                              "columns in another order feeds them other variables)" % astq.canon(a)[:70], self.loc(k, a))
            else:
                ctx.undecided("R2", c, "stored column value %s not interpretable" % astq.canon(a)[:60], self.loc(k, a))

    # ------------------------------------------------------------------------------------ conformance of trusted helpers
    def label_validators(self):
        """R1 conformance: FitInfo treats check_y / check_X_y as label-preserving.  Decide it: every rebinding of the label
        argument inside them is a pure container change of the same values (to_numpy / asarray / check_y)."""
        ctx = self.ctx
        rel = "sktime/utils/validation/panel.py"
        mod = self.repo.module(rel)
        for fname in ("check_y", "check_X_y"):
            fn = self.repo.func(rel, fname)
            sc = Scope(self.repo, mod, fn)
            lab = "y"
            c = "%s:labels-preserved" % fname
            bad, und = None, None
            aliases = set()

            def preserving(v):
                """True: same label values in the same order; False: derived from the labels otherwise; None: unrelated."""
                if isinstance(v, ast.Name):
                    return True if (v.id == lab or v.id in aliases) else None
                if isinstance(v, ast.Call):
                    f = v.func
                    ex = sc.ext(f)
                    if ex in ("numpy.asarray", "numpy.array", "sktime.utils.validation.panel.check_y") and v.args \
                            and preserving(v.args[0]) is True:
                        return True
                    if isinstance(f, ast.Attribute) and f.attr in ("to_numpy", "copy") and preserving(f.value) is True and not v.args:
                        return True
                elif isinstance(v, ast.Attribute) and v.attr == "values" and preserving(v.value) is True:
                    return True
                return False if any(isinstance(x, ast.Name) and (x.id == lab or x.id in aliases) for x in ast.walk(v)) else None

            grown = True
            while grown:
                grown = False
                for n in astq.walk_no_nested(fn):
                    if isinstance(n, ast.Assign) and len(n.targets) == 1 and isinstance(n.targets[0], ast.Name) \
                            and n.targets[0].id not in aliases and n.targets[0].id != lab \
                            and len(astq.assigned_values(fn, n.targets[0].id)) == 1 and preserving(n.value) is True:
                        aliases.add(n.targets[0].id)
                        grown = True
            for n in astq.walk_no_nested(fn):
                if isinstance(n, ast.Assign) and any(isinstance(t, ast.Name) and t.id == lab for t in n.targets):
                    pv = preserving(n.value)
                    if pv is False:
                        bad = bad or n
                    elif pv is None:
                        und = und or n
            rets = astq.returns(fn)
            ret_ok = True
            for r in rets:
                if r.value is None:
                    continue
                parts = r.value.elts if isinstance(r.value, ast.Tuple) else [r.value]
                pvs = [preserving(x) for x in parts]
                if any(x is False for x in pvs):
                    bad = bad or ast.Assign(targets=[], value=[x for x, q in zip(parts, pvs) if q is False][0], lineno=r.lineno)
                elif not any(x is True for x in pvs):
                    ret_ok = False
            if bad is not None:
                ctx.violation("R1", c, "%s rebinds the labels to %s: the values (or their pairing with the instances) change inside "
                              "the validator, so classes_ / the decoded predictions are no longer the labels the user supplied"
                              % (fname, astq.canon(bad.value)[:60]), self.ctx.loc(mod, bad),
                              witness={"input": "y = pd.Series(['a', 'b'], dtype='category'): predict returns 0 / 1"})
            elif und is not None or not ret_ok:
                ctx.undecided("R1", c, "label flow through %s not interpretable" % fname, self.ctx.loc(mod, fn))
            else:
                ctx.ok("R1", c, "labels leave %s with the same values in the same order (to_numpy / check_y only)" % fname,
                       self.ctx.loc(mod, fn))

    def feature_rows(self):
        """R2 (time series forest features): `_transform` fills a buffer with K statistics per interval j at positions
        K*j + b along the feature axis; the offsets b must be exactly 0..K-1 (every position written once, none overwritten,
        none left uninitialised), the feature axis has K positions per interval, and the statistics are mean, std and slope
        of the interval slice.  Understood shapes: row or column layout, direct stores, an inner `for k in range(K)` over a
        tuple of statistics, a running position counter, a slice view handed to a helper."""
        ctx = self.ctx
        rel = "sktime/series_as_features/base/estimators/interval_based/_tsf.py"
        mod = self.repo.module(rel)
        fn = self.repo.func(rel, "_transform")
        sc = Scope(self.repo, mod, fn)
        loc = self.ctx.loc(mod, fn)
        c = "_transform:feature-rows"
        loops = [n for n in fn.body if isinstance(n, ast.For)]
        bufs = {}
        for n in astq.walk_no_nested(fn):
            if isinstance(n, ast.Assign) and len(n.targets) == 1 and isinstance(n.targets[0], ast.Name) \
                    and isinstance(n.value, ast.Call) and sc.ext(n.value.func) in ("numpy.empty", "numpy.zeros"):
                shp = kw(n.value, "shape") or (n.value.args[0] if n.value.args else None)
                if isinstance(shp, (ast.Tuple, ast.List)) and len(shp.elts) == 2:
                    bufs[n.targets[0].id] = shp.elts
        if len(loops) != 1 or len(bufs) != 1:
            ctx.undecided("R2", c, "expected one interval loop and one feature buffer", loc)
            return
        loop = loops[0]
        if isinstance(loop.target, ast.Name):
            var = loop.target.id
        elif isinstance(loop.target, ast.Tuple) and isinstance(loop.iter, ast.Call) and sc.ext(loop.iter.func) == "builtins.enumerate" \
                and isinstance(loop.target.elts[0], ast.Name):
            var = loop.target.elts[0].id
        else:
            ctx.undecided("R2", c, "interval loop variable not interpretable", loc)
            return
        buf, shape = next(iter(bufs.items()))
        top = list(loop.body)

        def counter(name, use_stmt):
            """name = c0 before the loop, `name += step` once per iteration at the top level of the body -> (step, c0')."""
            inits = [a.value for a in fn.body if isinstance(a, ast.Assign) and len(a.targets) == 1
                     and isinstance(a.targets[0], ast.Name) and a.targets[0].id == name]
            incs = [a for a in top if isinstance(a, ast.AugAssign) and isinstance(a.target, ast.Name) and a.target.id == name]
            others = [x for x in ast.walk(loop) if isinstance(x, ast.Name) and x.id == name and isinstance(x.ctx, ast.Store)]
            if len(inits) != 1 or len(incs) != 1 or len(others) != 1 or not isinstance(const(inits[0]), int) \
                    or not isinstance(incs[0].op, ast.Add) or not isinstance(const(incs[0].value), int):
                return None
            step, c0 = const(incs[0].value), const(inits[0])
            holder = next((t for t in top if any(x is use_stmt for x in ast.walk(t))), None)
            if holder is None:
                return None
            return (step, c0) if top.index(incs[0]) > top.index(holder) else (step, c0 + step)

        def affine(e, subst, use_stmt):
            """e == a * var + b  ->  (a, b)"""
            k = const(e)
            if isinstance(k, int):
                return (0, k)
            if isinstance(e, ast.Name) and e.id == var:
                return (1, 0)
            if isinstance(e, ast.Name) and e.id in subst:
                return (0, subst[e.id])
            if isinstance(e, ast.Name):
                vals = [a.value for a in top if isinstance(a, ast.Assign) and len(a.targets) == 1
                        and isinstance(a.targets[0], ast.Name) and a.targets[0].id == e.id]
                if len(vals) == 1:
                    return affine(vals[0], subst, use_stmt)
                return counter(e.id, use_stmt)
            if isinstance(e, ast.BinOp) and isinstance(e.op, (ast.Add, ast.Sub)):
                l, r = affine(e.left, subst, use_stmt), affine(e.right, subst, use_stmt)
                if l is None or r is None:
                    return None
                sg = 1 if isinstance(e.op, ast.Add) else -1
                return (l[0] + sg * r[0], l[1] + sg * r[1])
            if isinstance(e, ast.BinOp) and isinstance(e.op, ast.Mult):
                l, r = affine(e.left, subst, use_stmt), affine(e.right, subst, use_stmt)
                if l is None or r is None:
                    return None
                if l[0] == 0:
                    return (l[1] * r[0], l[1] * r[1])
                if r[0] == 0:
                    return (r[1] * l[0], r[1] * l[1])
            return None

        layout = set()

        def position(target):
            """feature-axis index expression of a store into the buffer (row layout buf[p], column layout buf[:, p])."""
            if not (isinstance(target, ast.Subscript) and isinstance(target.value, ast.Name) and target.value.id == buf):
                return None
            sl = target.slice
            if isinstance(sl, ast.Tuple) and len(sl.elts) == 2 and isinstance(sl.elts[0], ast.Slice) and sl.elts[0].lower is None \
                    and sl.elts[0].upper is None:
                layout.add(1)
                return sl.elts[1]
            if isinstance(sl, (ast.Tuple, ast.Slice)):
                return None
            layout.add(0)
            return sl

        def tuple_elts(name):
            vals = [a.value for a in top if isinstance(a, ast.Assign) and len(a.targets) == 1
                    and isinstance(a.targets[0], ast.Name) and a.targets[0].id == name]
            return list(vals[0].elts) if len(vals) == 1 and isinstance(vals[0], (ast.Tuple, ast.List)) else None

        forms, values = [], []
        value_scope, value_body = sc, top
        for st in top:
            if isinstance(st, ast.Assign) and len(st.targets) == 1 and position(st.targets[0]) is not None:
                forms.append(affine(position(st.targets[0]), {}, st))
                values.append(st.value)
            elif isinstance(st, ast.For) and isinstance(st.target, ast.Name) and isinstance(st.iter, ast.Call) \
                    and sc.ext(st.iter.func) == "builtins.range" and len(st.iter.args) == 1 and isinstance(const(st.iter.args[0]), int) \
                    and len(st.body) == 1 and isinstance(st.body[0], ast.Assign) and len(st.body[0].targets) == 1 \
                    and position(st.body[0].targets[0]) is not None:
                inner = st.body[0]
                for kk in range(const(st.iter.args[0])):
                    forms.append(affine(position(inner.targets[0]), {st.target.id: kk}, st))
                    v = inner.value
                    if isinstance(v, ast.Subscript) and isinstance(v.value, ast.Name) and isinstance(v.slice, ast.Name) \
                            and v.slice.id == st.target.id and tuple_elts(v.value.id) and kk < len(tuple_elts(v.value.id)):
                        v = tuple_elts(v.value.id)[kk]
                    values.append(v)
        if not forms:
            # the positions of interval j are handed to a helper as a slice view buf[lo:hi] and written there as out[b]
            for st0 in top:
                for call in astq.calls(st0):
                    views = [a for a in call.args if isinstance(a, ast.Subscript) and isinstance(a.value, ast.Name)
                             and a.value.id == buf and isinstance(a.slice, ast.Slice) and a.slice.step is None]
                    sym = self.repo.resolve_name(mod, call.func.id) if isinstance(call.func, ast.Name) else None
                    if len(views) == 1 and sym is not None and sym.kind == "func":
                        view = views[0]
                        lo = affine(view.slice.lower, {}, st0) if view.slice.lower is not None else (0, 0)
                        hi = affine(view.slice.upper, {}, st0) if view.slice.upper is not None else None
                        bnd = astq.bind_call(sym.target, call)
                        outp = [p0 for p0, a0 in (bnd or {}).items() if a0 is view]
                        if lo is None or hi is None or not outp:
                            continue
                        inner = [x for x in sym.target.body if isinstance(x, ast.Assign) and len(x.targets) == 1
                                 and isinstance(x.targets[0], ast.Subscript) and isinstance(x.targets[0].value, ast.Name)
                                 and x.targets[0].value.id == outp[0] and isinstance(const(x.targets[0].slice), int)]
                        if inner and hi[0] == lo[0] and hi[1] - lo[1] == len(inner):
                            layout.add(0)
                            forms = [(lo[0], lo[1] + const(x.targets[0].slice)) for x in inner]
                            values = [x.value for x in inner]
                            value_scope, value_body = Scope(self.repo, sym.module, sym.target), sym.target.body
        if not forms or any(f is None for f in forms) or len(layout) != 1:
            ctx.undecided("R2", c, "feature positions are not affine in the interval index", loc)
            return
        K = len(forms)
        coefs = {f[0] for f in forms}
        offs = sorted(f[1] for f in forms)
        axis = next(iter(layout))
        good = coefs == {K} and offs == list(range(K))
        ctx.check(good, "R2", c, "interval j fills positions %d*j + {0..%d}: every feature is written exactly once" % (K, K - 1),
                  "interval j writes positions %s: the positions %d*j + {0..%d} are not each written once (a statistic overwrites the "
                  "slot of another interval / a slot keeps the uninitialised content of np.empty)" % (
                      ", ".join("%d*j%+d" % f for f in forms), K, K - 1), loc, witness={"j": 0, "positions": [f[1] for f in forms]})
        ctx.check(affine_in(shape[axis], K), "R2", "_transform:feature-buffer", "buffer has %d positions per interval" % K,
                  "the feature axis is allocated with %s positions, not %d per interval" % (astq.canon(shape[axis]), K), loc)
        def stat_kind(v, body, scope, depth=0):
            if isinstance(v, ast.Name):
                vals = [a.value for a in body if isinstance(a, ast.Assign) and len(a.targets) == 1
                        and isinstance(a.targets[0], ast.Name) and a.targets[0].id == v.id]
                if len(vals) == 1:
                    return stat_kind(vals[0], body, scope, depth)
                # a, b, c = helper(...)  with  helper returning a tuple
                for a in body:
                    if isinstance(a, ast.Assign) and len(a.targets) == 1 and isinstance(a.targets[0], ast.Tuple) \
                            and isinstance(a.value, ast.Call) and isinstance(a.value.func, ast.Name) and depth < 2:
                        names = [x.id if isinstance(x, ast.Name) else None for x in a.targets[0].elts]
                        if v.id in names:
                            sym = self.repo.resolve_name(mod, a.value.func.id)
                            if sym is not None and sym.kind == "func":
                                rets = astq.returns(sym.target)
                                if len(rets) == 1 and isinstance(rets[0].value, ast.Tuple) and len(rets[0].value.elts) == len(names):
                                    return stat_kind(rets[0].value.elts[names.index(v.id)], sym.target.body,
                                                     Scope(self.repo, sym.module, sym.target), depth + 1)
                return None
            return scope.ext(v.func) if isinstance(v, ast.Call) else None

        kinds = [stat_kind(v, value_body, value_scope) for v in values]
        want = {"numpy.mean", "numpy.std", "sktime.utils.slope_and_trend._slope"}
        ctx.check(set(kinds) == want if all(kinds) else None, "R2", "_transform:statistics", "features are mean, std and slope of the slice",
                  "the per-interval statistics are %s, not mean / std / slope" % sorted(str(k) for k in kinds), self.ctx.loc(mod, loop))

    def empty_selection(self, cls):
        """R2 conformance: `_iter(replace_strings=True)` skips a member when `_is_empty_column_selection(column)`; the average
        then runs over the remaining members.  A Boolean mask is empty iff *no* entry is True."""
        ctx = self.ctx
        rel = "sktime/classification/compose/_column_ensemble.py"
        mod = self.repo.module(rel)
        fn = self.repo.func(rel, "_is_empty_column_selection")
        par = astq.param_names(fn)[0]
        c = "_is_empty_column_selection:mask"
        verdict, shown = None, None
        for r in astq.returns(fn):
            v = r.value
            inner, neg = v, False
            while isinstance(inner, ast.UnaryOp) and isinstance(inner.op, (ast.Not, ast.Invert)):
                inner, neg = inner.operand, not neg
            red = None
            if isinstance(inner, ast.Call) and isinstance(inner.func, ast.Attribute) and isinstance(inner.func.value, ast.Name) \
                    and inner.func.value.id == par and inner.func.attr in ("any", "all") and not inner.args:
                red = inner.func.attr
            elif isinstance(inner, ast.Call) and dotted(inner.func) in ("np.any", "np.all", "any", "all") and len(inner.args) == 1 \
                    and isinstance(inner.args[0], ast.Name) and inner.args[0].id == par:
                red = dotted(inner.func).split(".")[-1]
            if red is None:
                continue
            shown = astq.canon(v)
            verdict = (red == "any" and neg)
        if verdict is None:
            ctx.undecided("R2", c, "mask branch of _is_empty_column_selection not interpretable", self.ctx.loc(mod, fn))
        else:
            ctx.check(verdict, "R2", c, "a Boolean mask is empty iff not mask.any()",
                      "a Boolean mask counts as empty when `%s`: a member whose mask selects some but not all columns is skipped by "
                      "_iter(replace_strings=True) and silently left out of the averaged probabilities" % shown, self.ctx.loc(mod, fn),
                      witness={"configuration": "estimators=[('a', clf, np.array([True, False]))]"})

    def replace_estimator_order(self, cls):
        """R2 conformance: the column ensemble's `_estimators` setter zips the new (name, estimator) pairs with the old column
        specifications *by position*; the set_params step replacement must therefore replace in place, not re-order."""
        ctx = self.ctx
        hit = self.method(cls, "_replace_estimator")
        sp = self.method(cls, "_set_params")
        if sp is not None:
            for x in astq.calls(sp[1]):
                if isinstance(x.func, ast.Attribute) and isinstance(x.func.value, ast.Name) and x.func.value.id == "self" \
                        and len(x.args) == 3 and isinstance(x.args[2], ast.Call) and isinstance(x.args[2].func, ast.Attribute) \
                        and x.args[2].func.attr == "pop":
                    hit = self.method(cls, x.func.attr) or hit
        c = cls.name + ".set_params:component-order"
        setter = cls.properties.get("_estimators", {}).get("setter") if cls.properties.get("_estimators") else None
        if setter is None:
            for k in self.repo.mro(cls):
                if isinstance(k, ClassInfo) and k.properties.get("_estimators", {}).get("setter") is not None:
                    setter = k.properties["_estimators"]["setter"]
                    break
        zips = setter is not None and any(isinstance(x, ast.Call) and dotted(x.func) == "zip" for x in ast.walk(setter))
        if hit is None or not zips:
            ctx.undecided("R2", c, "_replace_estimator / positional _estimators setter not found", None)
            return
        k, fn = hit
        loc = self.loc(k, fn)
        sets = [x for x in astq.calls(fn) if isinstance(x.func, ast.Name) and x.func.id == "setattr" and len(x.args) == 3
                and isinstance(x.args[2], ast.Name)]
        if len(sets) != 1:
            ctx.undecided("R2", c, "component list is not stored back by one setattr", loc)
            return
        lst = sets[0].args[2].id
        inits = astq.assigned_values(fn, lst)
        copy_ok = len(inits) == 1 and isinstance(inits[0], ast.Call) and dotted(inits[0].func) == "list" and len(inits[0].args) == 1 \
            and isinstance(inits[0].args[0], ast.Call) and dotted(inits[0].args[0].func) == "getattr"
        reorder = [x for x in astq.calls(fn) if isinstance(x.func, ast.Attribute) and isinstance(x.func.value, ast.Name)
                   and x.func.value.id == lst and x.func.attr in MUTATORS]
        filtered = [v for v in inits if isinstance(v, (ast.ListComp, ast.GeneratorExp)) and any(g.ifs for g in v.generators)]
        stores = [n for n in astq.walk_no_nested(fn) if isinstance(n, ast.Assign) and any(
            isinstance(t, ast.Subscript) and isinstance(t.value, ast.Name) and t.value.id == lst for t in n.targets)]
        if reorder or filtered:
            ctx.violation("R2", c, "_replace_estimator rebuilds the component list (%s) instead of replacing the matching entry in "
                          "place: the replaced component moves to another position, and the column ensemble's _estimators setter pairs "
                          "components with column specifications by position -- members are then fitted / applied on another "
                          "member's columns" % ("filter + append" if filtered else reorder[0].func.attr), loc,
                          witness={"history": "ColumnEnsembleClassifier([(a, A, [0]), (b, B, [1])]).set_params(a=A2): A2 gets column 1"})
        elif copy_ok and len(stores) == 1:
            ctx.ok("R2", c, "the matching entry is replaced at its own position in a copy of the list", loc)
        else:
            ctx.undecided("R2", c, "component replacement not interpretable", loc)

    # ------------------------------------------------------------------------------------ R2: column ensemble
    def r2_column_ensemble(self, cls):
        ctx, name = self.ctx, cls.name
        k, fn = self.method(cls, "predict_proba")
        loc = self.loc(k, fn)
        scope = Scope(self.repo, k.module, fn)
        c = name + ".predict_proba"
        ret = single_return(fn)
        e = astq.inline_locals(fn, ret.value) if ret is not None and ret.value is not None else None
        if not (isinstance(e, ast.Call) and scope.ext(e.func) in ("numpy.average", "numpy.mean") and e.args):
            ctx.undecided("R2", c + ":normaliser", "predict_proba is not an average: %s" % (astq.canon(e)[:60] if e is not None else None), loc)
            return
        ctx.check(axis_of(e) == 0 and kw(e, "weights") is None, "R2", c + ":normaliser",
                  "unweighted average over the member axis", "average over axis %r%s is not the plain member average" % (
                      axis_of(e), " with weights" if kw(e, "weights") is not None else ""), loc)
        src = e.args[0]
        inner = None
        if isinstance(src, ast.Call) and isinstance(src.func, ast.Attribute) and is_self_attr(src.func):
            hit = self.method(cls, src.func.attr)
            if hit is not None:
                k2, fn2 = hit
                r2 = single_return(fn2)
                sc2 = Scope(self.repo, k2.module, fn2)
                v = r2.value if r2 is not None else None
                for _ in range(3):
                    if isinstance(v, ast.Call) and sc2.ext(v.func) in IDENTITY_CALLS and v.args:
                        v = v.args[0]
                    elif isinstance(v, ast.Name) and as_comprehension(fn2, v) is None:
                        vals = astq.assigned_values(fn2, v.id)
                        v = vals[0] if len(vals) == 1 else v
                self._collected_name = v if isinstance(v, ast.Name) else None
                inner = (k2, fn2, as_comprehension(fn2, v) if v is not None else None)
        if inner is None or inner[2] is None:
            ctx.undecided("R2", c + ":members", "member probabilities are not collected by one comprehension / append loop", loc)
            return
        k2, fn2, (g_target, g_iter, elt, g_ifs) = inner
        pre = preallocated(fn2, self._collected_name) if getattr(self, "_collected_name", None) is not None else None
        if pre is not None:
            n_slabs = pre[3]
            same = isinstance(n_slabs, ast.Call) and dotted(n_slabs.func) == "len" and len(n_slabs.args) == 1 and (
                astq.canon(n_slabs.args[0]) == astq.canon(g_iter)
                or (isinstance(n_slabs.args[0], ast.Call) and dotted(n_slabs.args[0].func) == "list"
                    and n_slabs.args[0].args and astq.canon(n_slabs.args[0].args[0]) == astq.canon(g_iter)))
            may_skip = None
            if isinstance(g_iter, ast.Call) and isinstance(g_iter.func, ast.Attribute) and is_self_attr(g_iter.func):
                hit = self.method(cls, g_iter.func.attr)
                if hit is not None:
                    gen_fn = hit[1]
                    may_skip = any(isinstance(x, (ast.Continue, ast.If)) for x in astq.walk_no_nested(gen_fn)) and any(
                        isinstance(x, (ast.Yield, ast.YieldFrom)) for x in astq.walk_no_nested(gen_fn))
            if same:
                ctx.ok("R2", c + ":slabs", "the stack has one slab per iterated member", self.loc(k2, fn2))
            elif may_skip:
                ctx.violation("R2", c + ":slabs", "the member stack is allocated with %s slabs but filled from %s, a generator that "
                              "skips / adds entries: unfilled zero slabs are averaged in (or the fill runs past the stack), so the "
                              "divisor of the average is not the number of members accumulated" % (
                                  astq.canon(n_slabs)[:50], astq.canon(g_iter)[:50]), self.loc(k2, fn2),
                              witness={"configuration": "an estimator entry 'drop' or an empty column selection"})
            else:
                ctx.undecided("R2", c + ":slabs", "slab count %s vs iterated %s not interpretable" % (
                    astq.canon(n_slabs)[:40], astq.canon(g_iter)[:40]), self.loc(k2, fn2))
        names = [e0.id for e0 in g_target.elts] if isinstance(g_target, ast.Tuple) and all(
            isinstance(e0, ast.Name) for e0 in g_target.elts) else []
        good = None
        if len(names) == 3 and isinstance(elt, ast.Call) and isinstance(elt.func, ast.Attribute) and isinstance(elt.func.value, ast.Name):
            est, colv = names[1], names[2]
            arg = elt.args[0] if elt.args else None
            good = (elt.func.attr == "predict_proba" and elt.func.value.id == est and isinstance(arg, ast.Call)
                    and dotted(arg.func) == "_get_column" and len(arg.args) == 2 and astq.canon(arg.args[1]) == colv
                    and not g_ifs)
        ctx.check(good, "R2", c + ":members", "each member predicts on its own column selection", "member term %s is not "
                  "estimator.predict_proba(_get_column(X, its column))" % astq.canon(elt)[:80], self.loc(k2, fn2))
        # fit iterates the same triples and fits each member on its own column
        kf, ff = self.method(cls, "fit")
        fit_iter = [n for n in astq.walk_no_nested(ff) if isinstance(n, ast.For) and astq.canon(n.iter) == astq.canon(g_iter)]
        ok = None
        if len(fit_iter) == 1 and isinstance(fit_iter[0].target, ast.Tuple) and len(fit_iter[0].target.elts) == 3:
            fn_names = [x.id for x in fit_iter[0].target.elts if isinstance(x, ast.Name)]
            fits = [c0 for s in fit_iter[0].body for c0 in astq.calls(s) if isinstance(c0.func, ast.Attribute) and c0.func.attr == "fit"]
            ok = len(fits) == 1 and len(fn_names) == 3 and isinstance(fits[0].args[0], ast.Call) \
                and dotted(fits[0].args[0].func) == "_get_column" and astq.canon(fits[0].args[0].args[1]) == fn_names[2]
        elif not fit_iter:
            ok = False
        ctx.check(ok, "R2", name + ".fit:members", "fit iterates the same (name, estimator, column) triples and fits each member on its "
                  "own column", "fit does not fit the members over %s on their own columns" % astq.canon(g_iter)[:60], self.loc(kf, ff))

    # ------------------------------------------------------------------------------------ R3
    def r3(self, cls, methods=("predict", "predict_proba"), score="accuracy"):
        ctx, name = self.ctx, cls.name
        pred = name_pred("check_is_fitted")
        for m in methods:
            hit = self.method(cls, m)
            if hit is None:
                continue
            k, fn = hit
            ok = self.flow.must_call(fn, pred, k.module, cls, k)
            ctx.check(ok, "R3", "%s.%s:guard" % (name, m), "passes self.check_is_fitted() on every path to a normal return",
                      "%s can return without passing the not-fitted guard" % m, self.loc(k, fn))
        hit = self.lookup(cls, "score")
        c = name + ".score"
        if hit is None:
            ctx.undecided("R3", c, "score not found", None)
        elif hit[0] != "repo":
            ctx.ok("R3", c, "inherited from external %s (sklearn mixin: score of self.predict(X) against y)" % hit[1], None, nontrivial=False)
        else:
            self.score(cls, hit[1], hit[2], score)

    def score(self, cls, k, fn, metric):
        ctx = self.ctx
        c = cls.name + ".score"
        loc = self.loc(k, fn)
        scope = Scope(self.repo, k.module, fn)
        ret = single_return(fn)
        pos = astq.param_names(fn, skip_self=True)
        e = astq.inline_locals(fn, ret.value) if ret is not None and ret.value is not None else None
        want = {"accuracy": "sklearn.metrics.accuracy_score", "r2": "sklearn.metrics.r2_score"}[metric]
        if not (isinstance(e, ast.Call) and len(pos) >= 2):
            ctx.undecided("R3", c, "score is not a single metric call", loc)
            return
        ext = scope.ext(e.func)
        # hand-written accuracy: [float](np.mean(self.predict(X) == y'))
        inner = e
        if ext in ("builtins.float", "numpy.float64") and len(e.args) == 1 and isinstance(e.args[0], ast.Call):
            inner = e.args[0]
        if metric == "accuracy" and scope.ext(inner.func) in ("numpy.mean", "numpy.average") and len(inner.args) == 1 \
                and not inner.keywords and isinstance(inner.args[0], ast.Compare) and len(inner.args[0].ops) == 1 \
                and isinstance(inner.args[0].ops[0], ast.Eq):
            cmp_ = inner.args[0]
            sides = [cmp_.left, cmp_.comparators[0]]

            def is_pred0(x):
                return isinstance(x, ast.Call) and is_self_attr(x.func, "predict") and len(x.args) == 1 \
                    and isinstance(x.args[0], ast.Name) and x.args[0].id == pos[0]

            def y_form(x):
                """'flat' (labels made 1-d first), 'raw' (the y argument as passed), None."""
                if isinstance(x, ast.Name) and x.id == pos[1]:
                    return "raw"
                if isinstance(x, ast.Call):
                    ex = scope.ext(x.func)
                    if ex in ("numpy.ravel", "sklearn.utils.validation.column_or_1d", "sklearn.utils.column_or_1d") and x.args \
                            and y_form(x.args[0]):
                        return "flat"
                    if ex in ("numpy.asarray", "numpy.array") and x.args:
                        return y_form(x.args[0])
                    if isinstance(x.func, ast.Attribute) and x.func.attr in ("ravel", "flatten") and ex is None \
                            and y_form(x.func.value):
                        return "flat"
                    if isinstance(x.func, ast.Attribute) and x.func.attr == "reshape" and ex is None and len(x.args) == 1 \
                            and const(x.args[0]) == -1 and y_form(x.func.value):
                        return "flat"
                return None

            preds = [x for x in sides if is_pred0(x)]
            ys = [y_form(x) for x in sides if not is_pred0(x)]
            if len(preds) == 1 and ys and ys[0] == "flat":
                ctx.ok("R3", c, "mean(self.predict(X) == flattened y): the accuracy of predict", loc)
            elif len(preds) == 1 and ys and ys[0] == "raw":
                ctx.violation("R3", c, "score is mean(self.predict(X) == y) on the unvalidated y: the comparison broadcasts, so for a "
                              "column vector y of shape (n, 1) it averages an n x n matrix instead of the n matches (accuracy_score "
                              "flattens such y); not the accuracy of predict for every accepted y", loc,
                              witness={"input": "y of shape (n, 1), e.g. y.reshape(-1, 1) or a one-column label frame's values"})
            else:
                ctx.undecided("R3", c, "hand-written score %s not interpretable" % astq.canon(e)[:80], loc)
            return
        if ext != want and not (ext or "").endswith("." + want.split(".")[-1]):
            ctx.check(False if ext and ext.startswith("sklearn.metrics") else None, "R3", c, "",
                      "score returns %s, not %s" % (ext or astq.canon(e.func), want), loc)
            return
        args = list(e.args)
        kws = {x.arg: x.value for x in e.keywords}
        yt = args[0] if args else kws.get("y_true")
        yp = args[1] if len(args) > 1 else kws.get("y_pred")

        def is_pred(x):
            return isinstance(x, ast.Call) and is_self_attr(x.func, "predict") and len(x.args) == 1 \
                and isinstance(x.args[0], ast.Name) and x.args[0].id == pos[0]

        def is_y(x):
            return isinstance(x, ast.Name) and x.id == pos[1]

        if metric == "accuracy":
            good = (is_y(yt) and is_pred(yp)) or (is_y(yp) and is_pred(yt))  # accuracy is symmetric
            norm = kws.get("normalize")
            good = good and (norm is None or const(norm) is True)
        else:
            good = is_y(yt) and is_pred(yp)
        ctx.check(bool(good), "R3", c, "%s(y, self.predict(X))" % want.split(".")[-1],
                  "score is %s, not %s of (y, self.predict(X))" % (astq.canon(e)[:80], want.split(".")[-1]), loc)


def _blocks(fn):
    out = []

    def rec(stmts):
        out.append(stmts)
        for st in stmts:
            if isinstance(st, (ast.FunctionDef, ast.AsyncFunctionDef, ast.ClassDef)):
                continue
            for field in ("body", "orelse", "finalbody"):
                sub = getattr(st, field, None)
                if isinstance(sub, list) and sub and isinstance(sub[0], ast.stmt):
                    rec(sub)
            for h in getattr(st, "handlers", []) or []:
                rec(h.body)

    rec(fn.body)
    return out


FORESTS = ("TimeSeriesForestClassifier", "RandomIntervalSpectralForest", "SupervisedTimeSeriesForest",
           "CanonicalIntervalForest", "DrCIF")
DICTIONARY = ("BOSSEnsemble", "ContractableBOSS", "TemporalDictionaryEnsemble")
COLUMN = ("BaseColumnEnsembleClassifier", "ColumnEnsembleClassifier")


def run(ctx):
    repo = ctx.repo
    ctx.explain("C17: R1 symbolic evaluation of every anchored classifier's resolved predict into a term over the rows of its own "
                "predict_proba (must be table[argmax(row)] with the table that fit defines as the sorted training labels / "
                "fitted LabelEncoder; delegating and nearest-neighbour classifiers have their own agreement clause); R2 the divisor of "
                "predict_proba equals the number / summed weight of the members actually accumulated, votes land in "
                "class_dictionary = enumerate(classes_), members whose matrices are added column-wise are fitted on the full "
                "label vector; the column count self.n_classes derives from the current fit's labels (not from state carried "
                "across fits); the column ensemble keeps the declared column specification for predict time; an arg-max "
                "taken after a value-changing map (rounding, clipping, ...) of the probabilities is a violation; R3 not-fitted guard (interprocedural must-call) and score = accuracy/r2 of predict. Probability "
                "values, tree outputs and run-time label dtypes are not decided.")
    ctx.assume("sklearn classifiers order predict_proba columns by their classes_ = sorted distinct labels passed to fit; "
               "class_distribution(y)[0][0] and np.unique(y) are the sorted distinct labels; LabelEncoder.classes_ likewise")
    ctx.assume("RandomState.choice(c) returns an element of c; np.flatnonzero(r == r.max()) are the arg-max positions of r")
    ctx.assume("sklearn ClassifierMixin.score is accuracy_score(y, self.predict(X))")
    ck = Checker(ctx)
    base = repo.cls("sktime/classification/base.py:BaseClassifier")
    classes = [repo.cls(rel + ":" + cn) for rel, cn in ANCHORED]
    for cls in [base] + classes:
        ck.r1(cls)
    for cls in classes:
        if cls.name in FORESTS:
            ck.r2_forest(cls)
            ck.r2_member_labels(cls)
        elif cls.name in DICTIONARY:
            ck.r2_dictionary(cls)
        elif cls.name in COLUMN:
            ck.r2_column_ensemble(cls)
            ck.r2_member_labels(cls)
            ck.r2_column_spec(cls)
            ck.replace_estimator_order(cls)
        ck.r2_column_count(cls)
        ck.r3(cls)
    ck.label_validators()
    ck.empty_selection(base)
    ck.feature_rows()
    ck.r3(base, methods=("predict",))
    reg = repo.cls(REGRESSOR[0] + ":" + REGRESSOR[1])
    ck.r2_forest(reg, method="predict", member_method="predict")
    ck.r3(reg, methods=("predict",), score="r2")
    rb = repo.cls("sktime/regression/base.py:BaseRegressor")
    ck.score(rb, rb, repo.func("sktime/regression/base.py", "BaseRegressor.score"), "r2")
    ctx.floor("R1", 52)
    ctx.floor("R2", 89)
    ctx.floor("R3", 44)
