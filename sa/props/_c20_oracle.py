"""C20 -- witness-table oracle for the small, pure validators (engine: the AST interpreter of ``_c18_mini``).

The validators' *source* is interpreted by the checker's own evaluator (nothing below /repo is imported or run by
Python) on a finite table of witness inputs taken from the property statement: non-positive / fractional / boolean /
string settings must be rejected, valid integers (Python or numpy) and ``None`` must be accepted and handed back
unchanged, duplicate / reserved / ``__`` component names must be rejected, unknown option strings must be rejected.
Because the function is *evaluated*, the verdict does not depend on how it is written (guard clauses, helper
functions, merged validators, loops with flags ...): a refactoring keeps every row, a slip changes one.

A row the evaluator cannot decide (an operation outside its Python subset or transfer table) is reported as
"not evaluated" (info) -- the path-condition specifications of ``_c20_specs`` / ``c20`` remain the verdict there.
"""
import ast

from .. import astq
from ..index import AnalysisError, dotted
from ._c18_mini import Interp, PyRaise, Undecided, Builtin, Ext

VALID = "sktime/utils/validation/__init__.py"
VFC = "sktime/utils/validation/forecasting.py"
META = "sktime/base/_meta.py"
REDUCE = "sktime/forecasting/compose/_reduce.py"
EVAL = "sktime/forecasting/model_evaluation/_functions.py"


class NpInt:
    """A numpy integer scalar (``np.int64(v)``): an ``np.integer``, not a Python ``int``."""

    def __init__(self, v):
        self.v = v

    def m_isinstance(self, interp, c):
        if isinstance(c, Ext):
            return c.name in ("numpy.integer", "numpy.int64", "numpy.number", "numpy.signedinteger", "numpy.generic", "numbers.Integral")
        return False

    def m_str(self, interp):
        return str(self.v)

    def _o(self, o):
        return o.v if isinstance(o, NpInt) else o

    def __lt__(self, o): return self.v < self._o(o)
    def __le__(self, o): return self.v <= self._o(o)
    def __gt__(self, o): return self.v > self._o(o)
    def __ge__(self, o): return self.v >= self._o(o)
    def __eq__(self, o): return self.v == self._o(o)
    def __ne__(self, o): return self.v != self._o(o)
    def __hash__(self): return hash(self.v)
    def __int__(self): return self.v
    def __index__(self): return self.v
    def __repr__(self): return "np.int64(%d)" % self.v
    def __format__(self, spec): return format(self.v, spec)


class SelfModel:
    """``self`` of a composite: only ``get_params(deep=False)`` is observable (the constructor arguments)."""

    def __init__(self, params):
        self.params = params

    def m_getattr(self, it, attr):
        if attr == "get_params":
            return Builtin(lambda deep=True: dict(self.params), "get_params")
        if attr == "__class__":
            return Ext("Composite")
        raise Undecided("attribute %s of the composite model" % attr)


class _ClsModel:
    def __init__(self, name):
        self.name = name

    def m_getattr(self, it, attr):
        if attr == "__name__":
            return self.name
        raise Undecided("attribute %s of a class model" % attr)

    def m_str(self, it):
        return "<class %s>" % self.name


class EstModel:
    """A component object: a forecaster (instance of BaseForecaster) or something else (e.g. a regressor / transformer)."""

    def __init__(self, kind):
        self.kind = kind

    def m_isinstance(self, it, c):
        nm = getattr(c, "name", None) or getattr(getattr(c, "node", None), "name", None) or str(c)
        return self.kind == "forecaster" and "BaseForecaster" in str(nm)

    def m_getattr(self, it, attr):
        if attr == "__class__":
            return _ClsModel("NaiveForecaster" if self.kind == "forecaster" else "LinearRegression")
        raise Undecided("attribute %s of a component model" % attr)

    def m_str(self, it):
        return "<%s>" % self.kind

    def __repr__(self):
        return "<%s>" % self.kind


class CompositeModel:
    """``self`` of a heterogeneous ensemble: `forecasters` plus a `_check_names` that accepts (names are judged separately)."""

    def __init__(self, forecasters):
        self.forecasters = forecasters

    def m_getattr(self, it, attr):
        if attr == "forecasters":
            return self.forecasters
        if attr == "_check_names":
            return Builtin(lambda names: None, "_check_names")
        if attr == "__class__":
            return _ClsModel("EnsembleForecaster")
        raise Undecided("attribute %s of the composite model" % attr)

    def __repr__(self):
        return "self(forecasters=%r)" % (self.forecasters,)


def _run(repo, path, qual, args, kwargs=None):
    it = Interp(repo)
    m = repo.module(path)
    fn = repo.func(path, qual)
    try:
        return ("ok", it.call_function(m, fn, list(args), dict(kwargs or {})))
    except PyRaise as e:
        return ("raise", e.exc.cls_name)
    except Undecided as e:
        return ("undecided", str(e))
    except RecursionError:
        return ("undecided", "recursion")


def _same(a, b):
    if isinstance(a, NpInt) or isinstance(b, NpInt):
        return isinstance(a, NpInt) and isinstance(b, NpInt) and a.v == b.v
    return type(a) is type(b) and a == b


def _table(ctx, repo, rule, key, path, qual, rows, what, loc_fn=None):
    """rows: (args, kwargs, expectation) with expectation 'reject' | ('accept', expected value or Ellipsis)."""
    mod = repo.module(path)
    fn = repo.func(path, qual)
    loc = ctx.loc(mod, fn)
    bad, skipped, n = [], [], 0
    for args, kwargs, exp in rows:
        out = _run(repo, path, qual, args, kwargs)
        shown = "%s(%s)" % (qual.split(".")[-1], ", ".join([repr(a) for a in args if not isinstance(a, SelfModel)] +
                                                       ["%s=%r" % kv for kv in sorted((kwargs or {}).items())]))
        if out[0] == "undecided":
            skipped.append("%s: %s" % (shown, out[1]))
            continue
        n += 1
        if exp == "reject":
            if out[0] != "raise":
                bad.append("%s is accepted (returns %r); it must be rejected" % (shown, out[1]))
            elif out[1] not in ("ValueError", "TypeError", "NotImplementedError"):
                bad.append("%s raises %s, not ValueError / TypeError / NotImplementedError" % (shown, out[1]))
        else:
            want = exp[1]
            if out[0] == "raise":
                bad.append("%s is rejected (%s); it is a valid setting" % (shown, out[1]))
            elif want is not Ellipsis and not _same(out[1], want) and not (isinstance(want, list) and isinstance(out[1], list) and len(want) == len(out[1])
                                                                           and all(_same(x, y) for x, y in zip(out[1], want))):
                bad.append("%s returns %r, expected %r" % (shown, out[1], want))
    if skipped and not n:
        ctx.info("%s %s: witness table not evaluated (%s)" % (rule, key, skipped[0][:160]))
        ctx.count("oracle_not_evaluated")
        return
    ctx.check(not bad, rule, key, "%s: all %d witness inputs are accepted / rejected as the property requires" % (what, n),
              "%s: %s" % (what, "; ".join(bad[:3])), loc, witness={"rows": bad[:3]} if bad else None)
    ctx.count("oracle_rows", n)


def _literal_members(repo, path, qual, pname):
    """String members of the literal collection a membership validator tests ``pname`` against."""
    fn = repo.func(path, qual)
    for node in ast.walk(fn):
        if isinstance(node, ast.Compare) and len(node.ops) == 1 and isinstance(node.ops[0], (ast.In, ast.NotIn)):
            tup = node.comparators[0]
            if isinstance(tup, ast.Name):
                vals = astq.assigned_values(fn, tup.id)
                tup = vals[0] if len(vals) == 1 else tup
            lits = astq.str_consts(tup)
            if lits:
                return lits
    return None


def run_all(ctx, repo, rule="R2", only=None):
    I = NpInt
    int_rows = lambda extra_kw=None: [  # noqa: E731
        ([1], extra_kw, ("accept", 1)), ([3], extra_kw, ("accept", 3)), ([I(3)], extra_kw, ("accept", I(3))), ([I(1)], extra_kw, ("accept", I(1))),
        ([None], extra_kw, ("accept", None)),
        ([0], extra_kw, "reject"), ([-1], extra_kw, "reject"), ([I(0)], extra_kw, "reject"), ([2.5], extra_kw, "reject"), ([1.0], extra_kw, "reject"),
        (["3"], extra_kw, "reject"), ([True], extra_kw, "reject"),
    ]
    jobs = []
    jobs.append(("is_int", VALID, "is_int", [
        ([3], None, ("accept", True)), ([0], None, ("accept", True)), ([-2], None, ("accept", True)), ([I(3)], None, ("accept", True)),
        ([True], None, ("accept", False)), ([False], None, ("accept", False)), ([2.5], None, ("accept", False)), ([None], None, ("accept", False)),
        (["3"], None, ("accept", False))], "is_int (integers of either kind, never bool)"))
    jobs.append(("check_window_length", VALID, "check_window_length", int_rows(), "check_window_length"))
    jobs.append(("check_step_length", VFC, "check_step_length", int_rows(), "check_step_length"))
    sp_rows = [r for r in int_rows() if not (r[0][0] is None)] + [([None], None, ("accept", None)), ([12], None, ("accept", 12)), ([[3]], None, "reject")]
    jobs.append(("check_sp", VFC, "check_sp", sp_rows, "check_sp"))
    sp_list = [([1], {"enforce_list": True}, ("accept", [1])), ([12], {"enforce_list": True}, ("accept", [12])),
               ([I(4)], {"enforce_list": True}, ("accept", [I(4)])), ([[3, 4]], {"enforce_list": True}, ("accept", [3, 4])),
               ([None], {"enforce_list": True}, ("accept", None)), ([0], {"enforce_list": True}, "reject"), ([-2], {"enforce_list": True}, "reject"),
               ([2.5], {"enforce_list": True}, "reject"), ([True], {"enforce_list": True}, "reject"), (["a"], {"enforce_list": True}, "reject")]
    jobs.append(("check_sp[enforce_list]", VFC, "check_sp", sp_list, "check_sp(enforce_list=True)"))
    me = SelfModel({"forecasters": None, "n_jobs": None})
    jobs.append(("_check_names", META, "_HeterogenousMetaEstimator._check_names", [
        ([me, ["a", "b"]], None, ("accept", Ellipsis)), ([me, ["a"]], None, ("accept", Ellipsis)), ([me, ["b", "a", "c"]], None, ("accept", Ellipsis)),
        ([me, ("a", "b")], None, ("accept", Ellipsis)),
        ([me, ["a", "a"]], None, "reject"), ([me, ["a", "b", "a"]], None, "reject"), ([me, ["b", "a", "a"]], None, "reject"),
        ([me, ["a__b"]], None, "reject"), ([me, ["a", "x__"]], None, "reject"), ([me, ["__x", "a"]], None, "reject"),
        ([me, ["n_jobs"]], None, "reject"), ([me, ["a", "forecasters"]], None, "reject")],
        "_check_names (duplicates, constructor-argument names, names containing `__`)"))
    F, X = (lambda: EstModel("forecaster")), (lambda: EstModel("other"))
    FM = "sktime/forecasting/base/_meta.py"
    jobs.append(("_check_forecasters", FM, "_HeterogenousEnsembleForecaster._check_forecasters", [
        ([CompositeModel([("a", F()), ("b", F())])], None, ("accept", Ellipsis)), ([CompositeModel([("a", F())])], None, ("accept", Ellipsis)),
        ([CompositeModel([("a", F()), ("b", None)])], None, ("accept", Ellipsis)), ([CompositeModel([("a", "drop"), ("b", F())])], None, ("accept", Ellipsis)),
        ([CompositeModel([("a", F()), ("b", X())])], None, "reject"), ([CompositeModel([("a", X()), ("b", F())])], None, "reject"),
        ([CompositeModel([("a", F()), ("b", F()), ("c", X())])], None, "reject"), ([CompositeModel([("a", None), ("b", "drop")])], None, "reject"),
        ([CompositeModel([])], None, "reject"), ([CompositeModel(None)], None, "reject"), ([CompositeModel((("a", F()),))], None, "reject")],
        "_check_forecasters (every member a forecaster or None/'drop', not all dropped, a non-empty list)"))
    for path, qual, pname in ((REDUCE, "_check_strategy", "strategy"), (REDUCE, "_check_scitype", "scitype"), (EVAL, "_check_strategy", "strategy")):
        members = _literal_members(repo, path, qual, pname)
        if not members:
            ctx.info("%s %s:%s: admitted values not a literal collection; witness table not built" % (rule, path.split("/")[-1], qual))
            continue
        rows = [([m], None, ("accept", Ellipsis)) for m in members]
        rows += [([m.upper()], None, "reject") for m in members if m.upper() != m] + [([m + " "], None, "reject") for m in members[:1]]
        rows += [([""], None, "reject"), (["no-such-option"], None, "reject"), ([members[0][:-1]], None, "reject")]
        jobs.append(("%s:%s" % (path.split("/")[-1][:-3], qual), path, qual, rows, "%s (%s)" % (qual, "unknown option names")))
    for key, path, qual, rows, what in jobs:
        if only is not None and key not in only:
            continue
        try:
            _table(ctx, repo, rule, "oracle:" + key, path, qual, rows, what)
        except AnalysisError:
            raise
