"""C05 -- reduction feeds regressors exactly the lagged windows, never the future.

Decides (DESIGN 3/C05):
R1 lag matrix / target index map of ``_sliding_window_transform`` (IdxMap regions),
R2 per-step / multi-output wiring of the wrapped regressors (fit and predict),
R3 prediction input of the direct / multioutput strategies (last window at the cutoff),
R4 recursive / dirrec feedback positions,
R5 registry <-> class attributes <-> validator tables of ``make_reduction``.

Method: the anchored functions are interpreted abstractly (``_c05_arrays.AInterp``); arrays
are index-map terms.  An obligation HOLDS only when it is proved symbolically for all sizes
(identity of affine normal forms / region membership entailed by the guards on the trace);
it is a VIOLATION only when the extracted term, evaluated on a small *feasible* concrete
instance, differs from the specification (the instance is the witness); anything else is
UNDECIDED.
"""
import ast
import itertools

from ..absint import Frame, State, SelfV, FHV, Vec, Rng, Tup, K, Opq, Alt, Lin, as_lin_val
from ..index import AnalysisError, ClassInfo, dotted
from ..lin import Facts
from .. import astq
from ._c05_arrays import (AInterp, Q, Env, Uneval, Nd, Src, Buf, View, Cat, Flat, Elem, EstV, ListV, ItemV, CallV,
                          Ser, ZERO, ONE, OOB, const_vec, entails, list_len, list_item, sym_elem, subst_val, vec_len)

RED = "sktime/forecasting/compose/_reduce.py"
SKT = "sktime/forecasting/base/_sktime.py"

N, W, T, NX = Lin.sym("n"), Lin.sym("w"), Lin.sym("T"), Lin.sym("nx")
FH = FHV(Vec("fh"), True)
FH0, FHL, LFH = Lin.sym("fh[0]"), Lin.sym("fh[-1]"), Lin.sym("len(fh)")
TAB, TSR = "tabular-regressor", "time-series-regressor"


def base_facts(with_X):
    f = Facts()
    f.add_cmp(FH0, ">=", 1, "horizon is out-of-sample (quantifier)")
    f.add_cmp(FH0, "<=", FHL, "horizon is sorted")
    f.add_cmp(LFH, ">=", 1, "horizon is non-empty")
    f.add_cmp(LFH, "<=", FHL - FH0 + 1, "horizon values are distinct")
    f.add_cmp(N, ">=", 1, "series is non-empty")
    if with_X:
        f.add_cmp(NX, ">=", 1, "at least one exogenous column")
    return f


def grid(with_X, need_fit=True):
    """Small concrete instances used only to exhibit witnesses."""
    out = []
    for n in (4, 5, 7):
        for w in (1, 2):
            for fh in ([1], [2], [1, 3], [1, 2, 3]):
                ints = {"n": n, "w": w, "T": 40 + n}
                if with_X:
                    ints["nx"] = 2
                out.append(Env(ints, {"fh": list(fh)}))
    return out


# --------------------------------------------------------------------------- hooks
class Rec:
    """Per-run record of what the hooks saw."""

    def __init__(self):
        self.calls = []
        self.notes = []


def make_hooks(rec, with_X):
    def hooks(interp, frame, call, fname, args, kwargs, st):
        simple = (fname or "").split(".")[-1]
        if simple == "is_int":
            return K(True)
        if simple == "check_fh":
            a = args[0] if args else kwargs.get("fh")
            return a if isinstance(a, FHV) else Opq("check_fh", [a])
        if simple == "_shift" and args:
            x = as_lin_val(args[0])
            by = as_lin_val(kwargs.get("by", args[1] if len(args) > 1 else ONE))
            if x is not None and by is not None:
                return x + by
            return Opq("_shift", args)
        if simple == "_is_predictable":
            return K(True)
        if simple == "_set_y_X" and isinstance(call.func, ast.Attribute):
            recv = interp.ev(call.func.value, st, frame)
            if isinstance(recv, SelfV):
                recv.attrs["_y"] = args[0] if args else kwargs.get("y")
                recv.attrs["_X"] = (args[1] if len(args) > 1 else kwargs.get("X", K(None)))
                recv.attrs["_cutoff"] = T
                return K(None)
        ext = interp.ext_name(fname, frame)
        if ext == "sklearn.base.clone" and args:
            return EstV(args[0], True, call, st.loops)
        sym = interp.repo.resolve_dotted(frame.module, fname) if fname else None
        if sym is not None and sym.kind == "class" and sym.target.name == "ForecastingHorizon" and args:
            a = args[0]
            vals = None
            if isinstance(a, Tup):
                ls = [as_lin_val(x) for x in a.items]
                if ls and all(l is not None and l.is_const() for l in ls):
                    vals = [int(l.const) for l in ls]
            elif as_lin_val(a) is not None and as_lin_val(a).is_const():
                vals = [int(as_lin_val(a).const)]
            if vals is not None and vals == sorted(set(vals)):
                rel = kwargs.get("is_relative", args[1] if len(args) > 1 else K(True))
                if rel == K(True):
                    return FHV(Vec(const_vec(vals)), True)
            return Opq("ForecastingHorizon", args)
        if isinstance(call.func, ast.Attribute):
            meth = call.func.attr
            if meth in ("fit", "predict", "ravel", "append"):
                recv = interp.ev(call.func.value, st, frame)
                if meth in ("fit", "predict") and isinstance(recv, (EstV, ItemV)):
                    cv = CallV(meth, recv, args, call, st.loops, None, interp.seq, st.atoms)
                    cv.kwargs = dict(kwargs)
                    rec.calls.append(cv)
                    return cv if meth == "predict" else K(None)
                if meth == "ravel" and isinstance(recv, CallV) and not args:
                    return Opq("ravel", [recv])
        return NotImplemented

    return hooks


NO_INLINE = ("is_int", "check_fh", "_shift", "_is_predictable", "_set_y_X", "_predict_nan")


def make_interp(repo, rec, with_X):
    return AInterp(repo, scenario={"fh.is_all_out_of_sample": True, "fh.is_all_in_sample": False},
                   hooks=make_hooks(rec, with_X), no_inline=NO_INLINE)


# ----------------------------------------------------------------- content helpers
def resolve(content, q, depth=6, **kw):
    """Follow stored scalar elements to what they hold (as of the moment they were read)."""
    while content is not None and content[0] == "val" and isinstance(content[1], Elem) and depth > 0:
        content = content[1].content(q, **kw)
        depth -= 1
    return content


def opaque(content):
    """Content the domain cannot name (never grounds for a violation)."""
    if content is None:
        return True
    if content[0] == "val":
        v = content[1]
        return not isinstance(v, (CallV, Lin, tuple))
    return content[0] in ("agg-sym",)


def fmt(content):
    if content is None:
        return "?"
    if content[0] == "src":
        return "%s[%s]" % (content[1], ", ".join(repr(c) for c in content[2]))
    if content[0] == "fill":
        return "unwritten(%r)" % (content[1],)
    if content[0] == "oob":
        return "out-of-bounds"
    return repr(content)


class Ob:
    """One obligation: symbolic proof first, concrete witness second."""

    def __init__(self, ctx, rule, construct, loc):
        self.ctx, self.rule, self.construct, self.loc = ctx, rule, construct, loc

    def settle(self, proved, witness, ok, bad, undecided_why="neither provable for all sizes nor refuted on the instance grid"):
        """``proved``: bool; ``witness``: None | dict | 'opaque'."""
        if proved and witness is None:
            self.ctx.ok(self.rule, self.construct, ok, self.loc)
            return True
        if witness == "opaque" or (proved and witness is not None):
            why = undecided_why if witness == "opaque" else "symbolic proof and instance evaluation disagree: %r" % (witness,)
            self.ctx.undecided(self.rule, self.construct, "%s -- %s" % (bad, why), self.loc)
            return None
        if witness is not None:
            self.ctx.violation(self.rule, self.construct, "%s; witness %s" % (bad, witness_text(witness)), self.loc, witness=witness)
            return False
        self.ctx.undecided(self.rule, self.construct, "%s -- %s" % (bad, undecided_why), self.loc)
        return None


def witness_text(w):
    return ", ".join("%s=%s" % (k, v) for k, v in w.items())


class feasible:
    """The instances of ``envs`` on which every fact of the trace holds (computed on first use)."""

    def __init__(self, envs, facts):
        self._envs, self._facts, self._val = envs, facts, None

    def _get(self):
        if self._val is None:
            self._val = [e for e in self._envs if e.holds(self._facts) is True]
        return self._val

    def __iter__(self):
        return iter(self._get())

    def __getitem__(self, i):
        return self._get()[i]

    def __len__(self):
        return len(self._get())


def loop_envs(env, loops):
    """Extend a concrete instance by every iteration of the given counting loops."""
    out = [env]
    for lp in loops or ():
        v = list(lp.var.symbols())[0]
        nxt = []
        for e in out:
            try:
                lo, hi = int(e.eval(lp.it.lo)), int(e.eval(lp.it.hi))
            except Uneval:
                continue
            for x in range(lo, hi):
                ints = dict(e.ints)
                ints[v] = x
                nxt.append(Env(ints, e.vecs))
        out = nxt
    return out


def nonvacuous(ctx, rule, construct, loc, envs):
    """The facts of the analysed trace are satisfiable (otherwise every proof on it would be vacuous)."""
    n = len(envs)
    ctx.check(True if n else None, rule, construct + ":feasible-trace", "%d grid instances satisfy the guards of this trace" % n,
              "no grid instance satisfies the guards of this trace (dead or over-constrained path)", loc)
    return n > 0


def eq_lin(ctx, rule, construct, loc, got, want, facts, envs, what, loops=None):
    """Affine identity ``got == want`` (for all sizes) with grid witness."""
    ob = Ob(ctx, rule, construct, loc)
    if not isinstance(got, Lin):
        ctx.undecided(rule, construct, "%s: value not interpretable (%r)" % (what, got), loc)
        return None
    proved = Q(facts).eq(got, want) is True
    wit = None
    diff = got - want
    if not proved and diff.is_const() and diff.const != 0:
        # the two affine forms differ by a constant: every instance is a witness
        wit = {"difference": str(diff.const), "got": repr(got), "expected": repr(want)}
    for env0 in ([] if (proved or wit) else envs):
        for env in loop_envs(env0, loops):
            try:
                a, b = env.eval(got), env.eval(want)
            except Uneval:
                continue
            if a != b:
                wit = dict(env.describe(), got=str(a), expected=str(b))
                break
        if wit:
            break
    return ob.settle(proved, wit, "%s == %r" % (what, want), "%s is %r, expected %r" % (what, got, want))


def check_cells(ctx, rule, construct, loc, arr, dims, spec, facts, envs, ok, what, cell_kw=None):
    """For all coordinates in ``dims`` (list of (symbol name, lo, hi)), ``arr[coords] == spec(coords, q)``.

    ``spec`` returns a content tuple.  Symbolic proof over fresh coordinate symbols, grid witness."""
    ob = Ob(ctx, rule, construct, loc)
    cell_kw = cell_kw or {}
    f = facts.copy()
    coords = []
    for nm, lo, hi in dims:
        if lo == hi - 1 and isinstance(lo, Lin) and lo.is_const():
            coords.append(lo)
            continue
        c = Lin.sym(nm)
        f.add_cmp(c, ">=", lo, "coordinate range")
        f.add_cmp(c, "<=", hi - 1, "coordinate range")
        coords.append(c)
    q = Q(f)
    try:
        got = resolve(arr.cell(coords, q, **cell_kw), q, **cell_kw)
        want = spec(coords, q)
    except Uneval:
        got, want = None, None
    proved = got is not None and want is not None and got == want
    wit = None
    for env in ([] if proved else envs):
        qc = Q(env=env)
        try:
            ranges = []
            for nm, lo, hi in dims:
                a, b = int(env.eval(lo)), int(env.eval(hi))
                ranges.append(range(a, b))
            for pt in itertools.product(*ranges):
                cc = [Lin.c(x) for x in pt]
                g = resolve(arr.cell(cc, qc, **cell_kw), qc, **cell_kw)
                w_ = spec(cc, qc)
                if g == w_:
                    continue
                if opaque(g) or w_ is None:
                    wit = "opaque"
                else:
                    wit = dict(env.describe(), cell=str(list(pt)), got=fmt(g), expected=fmt(w_))
                break
        except Uneval:
            continue
        if wit is not None:
            break
    if proved and wit is None:
        return ob.settle(True, None, ok, "")
    return ob.settle(proved, wit, ok, "%s: cell %s holds %s, expected %s" % (
        what, [repr(c) for c in coords], fmt(got), fmt(want)))


def buffers_of(term, out=None):
    out = [] if out is None else out
    if isinstance(term, Buf):
        if term not in out:
            out.append(term)
            for st in term.stores:
                if isinstance(st.value, Nd):
                    buffers_of(st.value, out)
    elif isinstance(term, (View, Flat)):
        buffers_of(term.base, out)
    elif isinstance(term, Cat):
        for p in term.parts:
            buffers_of(p, out)
    return out


def check_buffers(ctx, rule, construct, loc, terms, facts, envs):
    """Store extents match and nothing uninterpretable was stored into the buffers behind ``terms``."""
    bufs = []
    for t in terms:
        if isinstance(t, Nd):
            buffers_of(t, bufs)
    ok = True
    for b in bufs:
        if b.poisoned:
            ctx.undecided(rule, construct + ":stores", b.poisoned, loc)
            return None
        for i, (diff, _, text, node) in enumerate(b.obligations):
            r = eq_lin(ctx, rule, "%s:store-extent#%d" % (construct, i), loc, diff, ZERO, facts, envs,
                       "slice extent minus stored extent")
            ok = ok and bool(r)
    return ok


# ------------------------------------------------------------------------------- R1
def y_src(pos):
    return ("src", "y", (pos,))


def x_src(pos, col):
    return ("src", "X", (pos, col))


def transform_specs(w, fhvec, q_fh_elem):
    """Specification of the sliding-window transform (row r, lag c, variable v, step j)."""

    def window_y(coords, q):
        r, c = coords[0], coords[-1]
        return y_src(q.ev(r + c))

    def window_x(coords, q):
        r, u, c = coords
        return x_src(q.ev(r + c), q.ev(u))

    def target(coords, q):
        r, j = coords
        return y_src(q.ev(r + w - 1 + q.vec_elem(fhvec, j)))

    return window_y, window_x, target


def check_transform_output(ctx, rule, tag, loc, yt, Xt, scitype, with_X, w, fhvec, facts, envs, n=N):
    """The obligations of R1 on a (yt, Xt) pair (also used for what the reducers hand to ``fit``)."""
    window_y, window_x, target = transform_specs(w, fhvec, None)
    fhl = Lin.sym(fhvec.base + "[-1]") if fhvec.base == "fh" else Q(facts).vec_elem(fhvec, vec_len(fhvec) - 1)
    rows = n - w - fhl + 1
    nlag = w
    flat = False
    X3 = Xt
    if isinstance(Xt, Flat) and Xt.keep == 1:
        flat = True
        X3 = Xt.base
    want_flat = scitype == TAB
    ctx.check(flat == want_flat if isinstance(Xt, Nd) else None, rule, tag + ":Xt-layout",
              "Xt is %s for scitype %s" % ("2-d (variable-major, lag-minor)" if want_flat else "3-d (row, variable, lag)", scitype),
              "Xt is %r for scitype %s (expected %s)" % (Xt, scitype, "a row-wise flattening of the 3-d windows" if want_flat else "the 3-d windows"),
              loc)
    if not isinstance(X3, Nd) or X3.ndim != 3 or not isinstance(yt, Nd) or yt.ndim != 2:
        ctx.undecided(rule, tag + ":shape", "transform outputs are not (2-d targets, 3-d windows): %r / %r" % (yt, Xt), loc)
        return
    eq_lin(ctx, rule, tag + ":rows", loc, X3.shape[0], rows, facts, envs,
           "number of windows (all full windows whose furthest target exists)")
    eq_lin(ctx, rule, tag + ":yt-rows", loc, yt.shape[0], rows, facts, envs, "number of target rows")
    eq_lin(ctx, rule, tag + ":lags", loc, X3.shape[2], nlag, facts, envs, "lag axis length of Xt")
    eq_lin(ctx, rule, tag + ":steps", loc, yt.shape[1], vec_len(fhvec), facts, envs, "number of target columns")
    eq_lin(ctx, rule, tag + ":variables", loc, X3.shape[1], (NX + 1) if with_X else ONE, facts, envs, "variable axis length of Xt")
    check_buffers(ctx, rule, tag, loc, [yt, Xt], facts, envs)
    check_cells(ctx, rule, tag + ":window-y", loc, X3, [("r", ZERO, rows), ("v", ZERO, ONE), ("c", ZERO, nlag)], window_y,
                facts, envs, "Xt[r, 0, c] = y[r + c] (w consecutive observations, oldest first)", "lag matrix")
    if with_X:
        xv = View(X3, [("sl", 0, ZERO), ("sl", 1, ONE), ("sl", 2, ZERO)], [X3.shape[0], X3.shape[1] - 1, X3.shape[2]])
        check_cells(ctx, rule, tag + ":window-X", loc, xv, [("r", ZERO, rows), ("u", ZERO, NX), ("c", ZERO, nlag)], window_x,
                    facts, envs, "Xt[r, 1+u, c] = X[r + c, u]", "lag matrix (exogenous rows)")
    check_cells(ctx, rule, tag + ":target", loc, yt, [("r", ZERO, rows), ("j", ZERO, vec_len(fhvec))], target,
                facts, envs, "yt[r, j] = y[r + w - 1 + fh_j] (exactly fh_j steps after the window end)", "target")


def rule_r1(ctx, repo):
    mod = repo.module(RED)
    fn = repo.func(RED, "_sliding_window_transform")
    loc = ctx.loc(mod, fn)
    for scitype in (TAB, TSR):
        for with_X in (False, True):
            tag = "_sliding_window_transform[%s,X=%s]" % (scitype, "given" if with_X else "None")
            rec = Rec()
            it = make_interp(repo, rec, with_X)
            y = Ser("y", N, T)
            X = Ser("X", N, T, NX) if with_X else K(None)
            st = State(facts=base_facts(with_X))
            traces, fst = it.run_function(Frame(mod, fn), {"y": y, "window_length": W, "fh": FH, "X": X, "scitype": K(scitype)}, st)
            rets = [(s, o[1]) for s, o in traces if o[0] == "return"]
            raises = [s for s, o in traces if o[0] == "raise"]
            ctx.count("scenarios")
            check_casts(ctx, "R1", tag, loc, it)
            if not rets or any(not isinstance(r, Tup) or len(r.items) != 2 for _, r in rets) or len(rets) > 4:
                ctx.undecided("R1", tag, "expected normal return(s) of (yt, Xt), found %r" % ([r for _, r in rets],), loc)
                continue
            if len(rets) > 1:
                # more than one accepting path (e.g. a guard that no longer rejects): every accepted configuration must have a full window
                rows_ = N - W - FHL + 1
                for k_, (s_, _) in enumerate(rets):
                    envs_ = feasible(grid(with_X), s_.facts)
                    w_ = None
                    for env in envs_:
                        if env.eval(rows_) < 1:
                            w_ = dict(env.describe(), rows=str(env.eval(rows_)))
                            break
                    Ob(ctx, "R1", "%s:nonempty#path%d" % (tag, k_), loc).settle(
                        entails(s_.facts, ONE - rows_), w_, "every configuration accepted on this path has a full window",
                        "a configuration without any full window is accepted (the transform returns no rows / partial rows)")
                continue
            s, ret = rets[0]
            yt, Xt = ret.items
            envs = feasible(grid(with_X), s.facts)
            nonvacuous(ctx, "R1", tag, loc, envs)
            check_transform_output(ctx, "R1", tag, loc, yt, Xt, scitype, with_X, W, Vec("fh"), s.facts, envs)
            # feasibility guard: row range non-empty, and no feasible configuration rejected
            rows = N - W - FHL + 1
            ob = Ob(ctx, "R1", tag + ":nonempty", loc)
            proved = entails(s.facts, ONE - rows)
            wit = None
            for env in envs:
                if env.eval(rows) < 1:
                    wit = dict(env.describe(), rows=str(env.eval(rows)))
                    break
            ob.settle(proved, wit, "the feasibility guard makes the row range non-empty (n - w - max(fh) + 1 >= 1)",
                      "a configuration without any full window passes the guard")
            sl = s.facts.slack(W + FHL - N)
            if sl is None:
                ctx.undecided("R1", tag + ":guard-tight", "no guard relates window, horizon and series length", loc)
            else:
                ctx.check(sl >= 0, "R1", tag + ":guard-tight", "the guard rejects only configurations without a full window",
                          "the guard rejects feasible configurations (w + max(fh) <= n is cut down by %s)" % (-sl), loc,
                          witness={"slack": str(sl)})


# ------------------------------------------------------------------- R2 / R3 / R4
def construct(repo, it, cls, ctor_args):
    selfv = SelfV(cls)
    hit = repo.lookup_method(cls, "__init__")
    if hit is None:
        raise AnalysisError("no constructor for %s" % cls.qual)
    k, fn = hit
    names = astq.all_param_names(fn, skip_self=True)
    for nm in ctor_args:
        if nm not in names:
            raise AnalysisError("constructor of %s has no parameter %r" % (cls.name, nm))
    args = dict(ctor_args)
    args["self"] = selfv
    it.run_function(Frame(k.module, fn, cls, k), args, State())
    return selfv


def run_method(repo, it, selfv, name, args, facts):
    hit = repo.lookup_method(selfv.cls, name)
    if hit is None:
        raise AnalysisError("method %s.%s missing" % (selfv.cls.name, name))
    k, fn = hit
    a = dict(args)
    a["self"] = selfv
    traces, fst = it.run_function(Frame(k.module, fn, selfv.cls, k), a, State(facts=facts))
    return traces, k, fn


def check_refit(ctx, repo, run, tag, loc):
    """(H1) history fit; fit: every regressor-holding attribute is re-established by the second fit -- nothing fitted on the
    first series survives into the state the predictions are made from."""
    first = {a: run.selfv.attrs.get(a) for a in ("estimators_", "estimator_")}
    run.rec.calls = []
    traces, k, fn = run_method(repo, run.it, run.selfv, "fit", {"y": Ser("y2", N, T), "X": K(None), "fh": FH}, base_facts(False))
    rets = [s for s, o in traces if o[0] == "return"]
    c = tag + ":refit"
    if len(rets) != 1:
        ctx.undecided("R2", c, "second fit has %d normal returns" % len(rets), loc)
        return
    bad = None
    for a, old in first.items():
        new = run.selfv.attrs.get(a)
        hp = getattr(rets[0], "heap", {})
        new = hp.get((id(run.selfv), a), new)
        if old is None and new is None:
            continue
        if isinstance(old, ListV):
            if new is old:
                bad = (a, "the list of the first fit is kept and extended by the second fit (%d append sites recorded): estimators_[i] for "
                          "i < len(fh) are still the regressors trained on the first series" % len(old.appends))
            elif not isinstance(new, ListV) or list_len(new) is None:
                ctx.undecided("R2", c, "%s after the second fit is %r" % (a, new), loc)
                return
        elif isinstance(old, EstV):
            if new is old:
                bad = (a, "the regressor fitted on the first series is still in place after the second fit")
            elif not (isinstance(new, EstV) and new.cloned):
                ctx.undecided("R2", c, "%s after the second fit is %r" % (a, new), loc)
                return
    ctx.check(bad is None, "R2", c, "a second fit replaces every fitted regressor", "after fit(y1); fit(y2): %s -- %s" % (bad or ("", "")), loc,
              witness={"history": "fit(y1, fh); fit(y2, fh); predict()", "stale": bad[0] if bad else None})
    # restore the first-fit state for the prediction rules that follow
    for a, old in first.items():
        if old is not None:
            run.selfv.attrs[a] = old


def nan_return(ctx, rule, tag, loc, rets):
    """Under the scenario 'the last window is complete and finite' no accepting path may return the NaN forecast."""
    bad = [r for _, r in rets if isinstance(r, Opq) and r.tag.endswith("_predict_nan")]
    if bad:
        ctx.violation(rule, tag + ":nan-forecast", "with a complete, finite last window _predict_last_window returns the NaN forecast "
                      "(the regressor output is never returned)", loc, witness={"window": "complete and finite", "returned": "np.full(len(fh), nan)"})
        return True
    return False


class Run:
    """fit + _predict_last_window of one concrete reducer class under one scenario."""

    def __init__(self, repo, cls, with_X):
        self.cls, self.with_X = cls, with_X
        self.rec = Rec()
        self.it = make_interp(repo, self.rec, with_X)
        self.est = EstV("estimator", False)
        # constructed with another window length, which set_params(window_length=w) then replaces: what fit validates and
        # stores must be the value the object holds at fit time (H4: no copy frozen in __init__)
        self.selfv = construct(repo, self.it, cls, {"estimator": self.est, "window_length": Lin.sym("w0")})
        self.selfv.attrs["window_length"] = W
        self.y = Ser("y", N, T)
        self.X = Ser("X", N, T, NX) if with_X else K(None)
        traces, k, fn = run_method(repo, self.it, self.selfv, "fit", {"y": self.y, "X": self.X, "fh": FH}, base_facts(with_X))
        self.fit_fn, self.fit_cls = fn, k
        self.fit_rets = [(s, o[1]) for s, o in traces if o[0] == "return"]
        self.fit_calls = list(self.rec.calls)
        self.fit_facts = self.fit_rets[0][0].facts if len(self.fit_rets) == 1 else None
        self.pred = None
        self.orders = {}

    def predict(self, repo, future_X=None):
        self.rec.calls = []
        args = {"fh": FH, "X": future_X if future_X is not None else K(None)}
        traces, k, fn = run_method(repo, self.it, self.selfv, "_predict_last_window", args, self.fit_facts)
        self.pred_fn, self.pred_cls = fn, k
        self.pred_rets = [(s, o[1]) for s, o in traces if o[0] == "return"]
        self.pred_calls = list(self.rec.calls)
        return self.pred_rets


def scitype_of(repo, cls):
    hit = repo.lookup_class_attr(cls, "_estimator_scitype")
    if hit is None or not isinstance(hit[1], ast.Constant):
        return None
    return hit[1].value


def strategy_of(repo, cls):
    hit = repo.lookup_class_attr(cls, "strategy")
    if hit is None or not isinstance(hit[1], ast.Constant):
        return None
    return hit[1].value


def is_clone_of_param(v, run):
    return isinstance(v, EstV) and v.cloned and v.origin is run.est


def unflat(x, scitype, ctx, rule, tag, loc, what, run=None, kind=None):
    """Strip the tabular flattening (and check it is present exactly for the tabular scitype)."""
    flat = isinstance(x, Flat) and x.keep == 1
    if run is not None and flat:
        run.orders[kind] = x.order
    if not flat and scitype == TAB and isinstance(x, Nd) and x.ndim == 2 and run is not None and not run.with_X:
        # a (rows, features) array built directly: with a single variable this is the row-wise flattening of (rows, 1, features)
        ctx.ok(rule, tag + ":layout", "%s is a 2-d (rows, lags) array as required by scitype %s" % (what, scitype), loc)
        run.orders[kind] = "C"
        return View(x, [("sl", 0, ZERO), ("sl", 2, ZERO)], [x.shape[0], ONE, x.shape[1]])
    ctx.check(flat == (scitype == TAB) if isinstance(x, Nd) else None, rule, tag + ":layout",
              "%s is %s as required by scitype %s" % (what, "flattened row-wise" if flat else "3-d", scitype),
              "%s is %r, which is not the layout scitype %s expects" % (what, x, scitype), loc)
    return x.base if flat else x


def last_window_specs(run):
    def win_y(coords, q):
        return y_src(q.ev(N - W + coords[-1]))

    def win_x(coords, q):
        return x_src(q.ev(N - W + coords[2]), q.ev(coords[1]))

    return win_y, win_x


def check_pred_window(ctx, rule, tag, loc, X3, run, facts, envs, what, cell_kw=None):
    """``X3`` (1, variables, w) holds the last w observations, oldest first (same orientation as in fit)."""
    win_y, win_x = last_window_specs(run)
    eq_lin(ctx, rule, tag + ":lags", loc, X3.shape[2], W, facts, envs, "lag axis length of " + what)
    eq_lin(ctx, rule, tag + ":rows", loc, X3.shape[0], ONE, facts, envs, "row count of " + what)
    check_cells(ctx, rule, tag + ":window-y", loc, X3, [("r", ZERO, ONE), ("v", ZERO, ONE), ("c", ZERO, W)], win_y, facts, envs,
                "%s[0, 0, c] = y[n - w + c]: the last w observed values up to the cutoff, oldest first" % what, what, cell_kw)
    if run.with_X:
        xv = View(X3, [("sl", 0, ZERO), ("sl", 1, ONE), ("sl", 2, ZERO)], [X3.shape[0], X3.shape[1] - 1, X3.shape[2]])
        check_cells(ctx, rule, tag + ":window-X", loc, xv, [("r", ZERO, ONE), ("u", ZERO, NX), ("c", ZERO, W)], win_x, facts, envs,
                    "%s[0, 1+u, c] = X[n - w + c, u]" % what, what + " (exogenous rows)", cell_kw)


def check_dirrec_exogenous(ctx, repo, cls):
    """The dirrec prediction row has no exogenous lags (its buffer has one variable row): exogenous data must therefore be
    refused at fit -- otherwise the regressors are trained on rows the prediction rows do not match."""
    tag = "%s[X=given]" % cls.name
    try:
        run = Run(repo, cls, True)
    except AnalysisError as e:
        ctx.undecided("R2", tag + ":exogenous-refused", str(e), None)
        return
    loc = ctx.loc(run.fit_cls.module, run.fit_fn)
    fits = [c for c in run.fit_calls if c.kind == "fit"]
    if not run.fit_rets:
        ctx.ok("R2", tag + ":exogenous-refused", "fit refuses exogenous data on every path", loc)
        return
    # fit accepts X: then prediction must use it as well
    try:
        rets = run.predict(repo)
    except AnalysisError:
        rets = []
    calls = [c for c in run.pred_calls if c.kind == "predict"] if rets is not None else []
    refused_at_predict = not rets
    buf_vars = None
    for c in calls:
        a = c.args[0] if c.args else None
        a = a.base if isinstance(a, Flat) else a
        if isinstance(a, View) and isinstance(a.base, Buf) and a.base.ndim == 3:
            buf_vars = a.base.shape[1]
    if buf_vars is not None and Q(base_facts(True)).eq(buf_vars, NX + 1) is True:
        ctx.ok("R2", tag + ":exogenous-refused", "exogenous data is accepted and its lags are part of the prediction rows", loc)
    elif fits and (buf_vars is not None or refused_at_predict):
        ctx.violation("R2", tag + ":exogenous-refused", "fit accepts exogenous data and trains the per-step regressors on rows with the "
                      "exogenous lags, but the prediction rows are built %s: the refusal in fit is what keeps training and prediction "
                      "rows consistent" % ("with %r variable row(s)" % buf_vars if buf_vars is not None else "only after X is refused at predict"),
                      loc, witness={"X": "one exogenous column", "training_row": "[y lags | X lags | earlier targets]",
                                    "prediction_row": "[y lags | earlier predictions]"})
    else:
        ctx.undecided("R2", tag + ":exogenous-refused", "fit accepts exogenous data; the prediction rows are not interpretable", loc)


def rule_reducers(ctx, repo, classes):
    for cls in classes:
        if strategy_of(repo, cls) == "dirrec":
            check_dirrec_exogenous(ctx, repo, cls)
    done = set()
    for cls in classes:
        for mname in ("_predict_last_window", "_transform", "_fit"):
            hit = repo.lookup_method(cls, mname)
            if hit and id(hit[1]) not in done:
                done.add(id(hit[1]))
                check_no_stale_cache(ctx, repo, "R3" if mname == "_predict_last_window" else "R2",
                                     "%s.%s:no-stale-cache" % (hit[0].name, mname), cls, hit[1])
    for cls in classes:
        strat = strategy_of(repo, cls)
        sci = scitype_of(repo, cls)
        mod = cls.module
        for with_X in ((False, True) if strat in ("direct", "multioutput", "recursive") else (False,)):
            tag = "%s[X=%s]" % (cls.name, "given" if with_X else "None")
            ctx.count("scenarios")
            run = Run(repo, cls, with_X)
            loc_fit = ctx.loc(run.fit_cls.module, run.fit_fn)
            if len(run.fit_rets) != 1:
                ctx.undecided("R2", tag + ":fit", "fit has %d surviving paths under a fixed scenario" % len(run.fit_rets), loc_fit)
                continue
            facts = run.fit_facts
            envs = feasible(grid(with_X), facts)
            nonvacuous(ctx, "R2", tag, loc_fit, envs)
            w_attr = as_lin_val(run.selfv.attrs.get("window_length_"))
            envs0 = [Env(dict(e_.ints, w0=e_.ints["w"] + 1), e_.vecs) for e_ in grid(with_X)]
            eq_lin(ctx, "R3", tag + ":window_length_", loc_fit, w_attr, W, facts, feasible(envs0, facts),
                   "window_length_ after __init__(window_length=w0); set_params(window_length=w); fit(...)")
            if strat == "direct":
                fit_direct(ctx, repo, run, tag, sci, facts, envs)
                pred_direct(ctx, repo, run, tag, sci, facts, envs, multi=False)
            elif strat == "multioutput":
                fit_multi(ctx, repo, run, tag, sci, facts, envs)
                pred_direct(ctx, repo, run, tag, sci, facts, envs, multi=True)
            elif strat == "recursive":
                fit_recursive(ctx, repo, run, tag, sci, facts, envs)
                pred_recursive(ctx, repo, run, tag, sci, facts, envs)
            elif strat == "dirrec":
                fit_dirrec(ctx, repo, run, tag, sci, facts, envs)
                pred_dirrec(ctx, repo, run, tag, sci, facts, envs)
            else:
                ctx.undecided("R2", tag, "unknown strategy %r" % strat, ctx.loc(mod, cls.node))
            if not with_X:
                check_refit(ctx, repo, run, tag, loc_fit)
            if with_X and "fit" in run.orders and "predict" in run.orders:
                ctx.check(run.orders["fit"] == run.orders["predict"], "R3", tag + ":flatten-order-agrees",
                          "fit and predict flatten (variable, lag) in the same memory order (%s)" % run.orders["fit"],
                          "the training rows are flattened in order %r but the prediction row in order %r: with exogenous columns "
                          "every feature position means another (variable, lag) at prediction time" % (run.orders["fit"], run.orders["predict"]),
                          loc_fit, witness={"variables": 2, "window_length": 2, "fit_order": run.orders["fit"], "predict_order": run.orders["predict"]})


def one_fit_call(ctx, run, tag, loc, in_loop):
    calls = [c for c in run.fit_calls if c.kind == "fit"]
    if len(calls) != 1:
        ctx.undecided("R2", tag + ":fit-call", "expected exactly one interpretable regressor.fit site, found %d" % len(calls), loc)
        return None
    c = calls[0]
    if isinstance(c.recv, ItemV):
        item = list_item(c.recv.lst, c.recv.idx)
        if item is None or not isinstance(item[0], EstV):
            ctx.undecided("R2", tag + ":fit-call", "fitted object %r is not interpretable" % (c.recv,), loc)
            return None
        c.recv = item[0]
    if in_loop:
        good = len(c.loops) == 1 and isinstance(c.loops[0].it, Rng) and c.loops[0].it.step == ONE
        if not good:
            ctx.check(False if not c.loops else None, "R2", tag + ":fit-loop", "",
                      "the per-step regressors are not fitted inside one counting loop", loc)
            return None
    elif c.loops:
        ctx.violation("R2", tag + ":fit-loop", "the single regressor is fitted inside a loop", loc)
        return None
    ctx.check(is_clone_of_param(c.recv, run), "R2", tag + ":clone", "the fitted regressor is a clone of the `estimator` parameter",
              "the fitted regressor is %r, not a fresh clone of the `estimator` parameter" % (c.recv,), ctx_loc(ctx, run, c))
    if in_loop and isinstance(c.recv, EstV) and c.recv.cloned:
        ctx.check([l.node for l in c.recv.loops] == [l.node for l in c.loops], "R2", tag + ":clone-per-step",
                  "one clone per step (created inside the loop)", "the clone is created outside the per-step loop (shared between steps)",
                  ctx_loc(ctx, run, c))
    if len(c.args) != 2 or getattr(c, "kwargs", None):
        ctx.undecided("R2", tag + ":fit-args", "regressor.fit is not called as fit(X, y): %r %r" % (c.args, getattr(c, "kwargs", {})), loc)
        return None
    return c


def ctx_loc(ctx, run, c):
    return "%s:%s" % (run.fit_cls.module.relpath, getattr(c.node, "lineno", "?"))


def fit_direct(ctx, repo, run, tag, sci, facts, envs):
    loc = ctx.loc(run.fit_cls.module, run.fit_fn)
    c = one_fit_call(ctx, run, tag, loc, True)
    if c is None:
        return
    lp = c.loops[0]
    var = list(lp.var.symbols())[0]
    eq_lin(ctx, "R2", tag + ":fit-iterations", loc, lp.it.hi - lp.it.lo, LFH, facts, envs, "number of fitted regressors")
    eq_lin(ctx, "R2", tag + ":fit-first", loc, lp.it.lo, ZERO, facts, envs, "first fitted step index")
    Xa, ya = c.args
    f2 = facts.copy()
    f2.add_cmp(lp.var, ">=", lp.it.lo)
    f2.add_cmp(lp.var, "<=", lp.it.hi - 1)
    # X argument: the transform output itself
    yt_full = None
    if isinstance(ya, View) and ya.ndim == 1:
        yt_full = ya.base
    check_fit_X(ctx, run, tag, loc, Xa, sci, facts, envs)
    # y argument: column i of the targets, i the loop variable
    rows = N - W - FHL + 1

    def target_i(coords, q):
        return y_src(q.ev(coords[0] + W - 1 + q.vec_elem(Vec("fh"), coords[1])))

    if not (isinstance(ya, Nd) and ya.ndim == 1):
        ctx.undecided("R2", tag + ":fit-y", "target passed to fit is not a 1-d column: %r" % (ya,), loc)
    else:
        # generalise over the loop variable: a 2-d term whose second coordinate is the iteration
        gen = _Gen(ya, var)
        eq_lin(ctx, "R2", tag + ":fit-y-rows", loc, ya.shape[0], rows, facts, envs, "rows of the per-step target")
        check_cells(ctx, "R2", tag + ":fit-y", loc, gen, [("r", ZERO, rows), ("i", ZERO, LFH)], target_i, facts, envs,
                    "regressor i is fitted on the target column of step fh_i: y[r + w - 1 + fh_i]", "per-step target")
    # appended in the same iteration
    lst = run.selfv.attrs.get("estimators_")
    good = None
    if isinstance(lst, ListV):
        good = len(lst.appends) == 1 and lst.appends[0][0] is c.recv and [l.node for l in lst.appends[0][1]] == [l.node for l in c.loops]
    ctx.check(good, "R2", tag + ":estimators_", "estimators_[i] is the regressor fitted for step i",
              "estimators_ is %r: not one append of the fitted clone per iteration" % (lst,), loc)


class _Gen(Nd):
    """A 1-d term depending on a loop variable, seen as 2-d (last coordinate = the iteration)."""

    def __init__(self, term, var):
        self.term, self.var = term, var
        self.shape = tuple(term.shape) + (Lin.sym("iterations"),)

    def cell(self, coords, q, **kw):
        t = subst_val(self.term, {self.var: coords[-1]})
        return t.cell(list(coords[:-1]), q, **kw)


def check_fit_X(ctx, run, tag, loc, Xa, sci, facts, envs, fhvec=None, yt=None):
    """What the regressor receives as X in fit is the lag matrix of R1."""
    fhvec = fhvec or Vec("fh")
    window_y, window_x, target = transform_specs(W, fhvec, None)
    fhl = FHL if fhvec.base == "fh" else Q(facts.copy()).vec_elem(fhvec, vec_len(fhvec) - 1)
    rows = N - W - fhl + 1
    X3 = unflat(Xa, sci, ctx, "R2", tag + ":fit-X", loc, "the X handed to regressor.fit", run, "fit")
    if not isinstance(X3, Nd) or X3.ndim != 3:
        ctx.undecided("R2", tag + ":fit-X", "X handed to fit is not the 3-d window array: %r" % (Xa,), loc)
        return
    eq_lin(ctx, "R2", tag + ":fit-X:rows", loc, X3.shape[0], rows, facts, envs, "rows of the X handed to fit")
    eq_lin(ctx, "R2", tag + ":fit-X:lags", loc, X3.shape[2], W, facts, envs, "lag axis of the X handed to fit")
    check_cells(ctx, "R2", tag + ":fit-X:window-y", loc, X3, [("r", ZERO, rows), ("v", ZERO, ONE), ("c", ZERO, W)], window_y,
                facts, envs, "fit receives X[r, 0, c] = y[r + c]", "X handed to fit")
    if run.with_X:
        xv = View(X3, [("sl", 0, ZERO), ("sl", 1, ONE), ("sl", 2, ZERO)], [X3.shape[0], X3.shape[1] - 1, X3.shape[2]])
        check_cells(ctx, "R2", tag + ":fit-X:window-X", loc, xv, [("r", ZERO, rows), ("u", ZERO, NX), ("c", ZERO, W)], window_x,
                    facts, envs, "fit receives X[r, 1+u, c] = X[r + c, u]", "X handed to fit (exogenous rows)")


def fit_multi(ctx, repo, run, tag, sci, facts, envs):
    loc = ctx.loc(run.fit_cls.module, run.fit_fn)
    c = one_fit_call(ctx, run, tag, loc, False)
    if c is None:
        return
    Xa, ya = c.args
    check_fit_X(ctx, run, tag, loc, Xa, sci, facts, envs)
    rows = N - W - FHL + 1

    def target(coords, q):
        return y_src(q.ev(coords[0] + W - 1 + q.vec_elem(Vec("fh"), coords[1])))

    if not (isinstance(ya, Nd) and ya.ndim == 2):
        ctx.check(False if isinstance(ya, Nd) else None, "R2", tag + ":fit-y", "",
                  "target passed to the multi-output regressor is not the 2-d target matrix (one column per step): %r" % (ya,), loc)
    else:
        eq_lin(ctx, "R2", tag + ":fit-y-steps", loc, ya.shape[1], LFH, facts, envs, "target columns")
        eq_lin(ctx, "R2", tag + ":fit-y-rows", loc, ya.shape[0], rows, facts, envs, "target rows")
        check_cells(ctx, "R2", tag + ":fit-y", loc, ya, [("r", ZERO, rows), ("j", ZERO, LFH)], target, facts, envs,
                    "the single regressor is fitted on all target columns y[r + w - 1 + fh_j]", "multi-output target")
    ctx.check(run.selfv.attrs.get("estimator_") is c.recv, "R2", tag + ":estimator_", "estimator_ is the fitted clone",
              "estimator_ is %r, not the regressor that was fitted" % (run.selfv.attrs.get("estimator_"),), loc)


def pred_direct(ctx, repo, run, tag, sci, facts, envs, multi):
    rets = run.predict(repo)
    loc = ctx.loc(run.pred_cls.module, run.pred_fn)
    if nan_return(ctx, "R3", tag, loc, rets):
        return
    if len(rets) != 1:
        ctx.undecided("R3", tag + ":predict", "_predict_last_window has %d normal returns under a fixed scenario" % len(rets), loc)
        return
    s, ret = rets[0]
    pf = s.facts
    calls = [c for c in run.pred_calls if c.kind == "predict"]
    if len(calls) != 1 or len(calls[0].args) != 1:
        ctx.undecided("R2", tag + ":predict-call", "expected one interpretable regressor.predict(X) site, found %d" % len(calls), loc)
        return
    c = calls[0]
    X3 = unflat(c.args[0], sci, ctx, "R3", tag + ":X_pred", loc, "the X handed to regressor.predict", run, "predict")
    if isinstance(X3, Nd) and X3.ndim == 3:
        check_buffers(ctx, "R3", tag + ":X_pred", loc, [X3], pf, envs)
        check_pred_window(ctx, "R3", tag + ":X_pred", loc, X3, run, pf, envs, "X_pred", {"upto": c.seq + 1})
        eq_lin(ctx, "R3", tag + ":X_pred:variables", loc, X3.shape[1], (NX + 1) if run.with_X else ONE, pf, envs, "variable axis of X_pred")
    else:
        ctx.undecided("R3", tag + ":X_pred", "prediction input is not a 3-d window array: %r" % (c.args[0],), loc)
    if multi:
        ctx.check(not c.loops and c.recv is run.selfv.attrs.get("estimator_"), "R2", tag + ":predict-estimator",
                  "the fitted multi-output regressor predicts once", "predict is called on %r%s" % (c.recv, " inside a loop" if c.loops else ""), loc)
        good = None
        if isinstance(ret, Opq) and ret.tag == "ravel" and ret.args and ret.args[0] is c:
            good = True
        elif ret is c:
            good = True
        elif isinstance(ret, (Nd, Elem, Lin, K)):
            good = False
        ctx.check(good, "R2", tag + ":returns", "the regressor output (one value per step, raveled) is returned",
                  "the value returned is %r, not the regressor output" % (ret,), loc)
        return
    # direct: y_pred[k] = estimators_[k].predict(X_pred)
    lst = run.selfv.attrs.get("estimators_")
    if not isinstance(ret, Buf) or ret.ndim != 1:
        ctx.check(None if isinstance(ret, Opq) else False, "R2", tag + ":returns", "", "the value returned is %r, not the per-step prediction array" % (ret,), loc)
        return
    eq_lin(ctx, "R2", tag + ":y_pred-length", loc, ret.shape[0], LFH, pf, envs, "length of the returned prediction array")
    check_pred_dtype(ctx, "R2", tag + ":y_pred", loc, ret, "the array collecting the per-step regressor outputs")
    if len(c.loops) != 1 or not isinstance(c.loops[0].it, Rng):
        ctx.check(None, "R2", tag + ":predict-loop", "", "predictions are not made in one counting loop", loc)
        return
    eq_lin(ctx, "R2", tag + ":predict-iterations", loc, c.loops[0].it.hi - c.loops[0].it.lo, LFH, pf, envs, "number of prediction steps")
    eq_lin(ctx, "R2", tag + ":predict-first", loc, c.loops[0].it.lo, ZERO, pf, envs, "first prediction step index")

    def spec(coords, q):
        return ("val", ("predict-of-estimator", q.ev(coords[0])))

    wrapped = _PredView(ret, lst, c.node)
    check_cells(ctx, "R2", tag + ":y_pred", loc, wrapped, [("k", ZERO, LFH)], spec, pf, envs,
                "y_pred[k] is the output of estimators_[k] (the regressor fitted for step fh_k)", "returned prediction")


class _PredView(Nd):
    """y_pred seen as 'which estimator produced element k'."""

    def __init__(self, buf, lst, node):
        self.buf, self.lst, self.node = buf, lst, node
        self.shape = buf.shape

    def cell(self, coords, q, **kw):
        c = resolve(self.buf.cell(coords, q, **kw), q)
        if c is not None and c[0] == "val" and isinstance(c[1], CallV) and c[1].kind == "predict":
            r = c[1].recv
            if isinstance(r, ItemV) and r.lst is self.lst:
                return ("val", ("predict-of-estimator", q.ev(r.idx)))
            return ("val", ("predict-of", repr(r)))
        return c


def fit_recursive(ctx, repo, run, tag, sci, facts, envs):
    loc = ctx.loc(run.fit_cls.module, run.fit_fn)
    c = one_fit_call(ctx, run, tag, loc, False)
    if c is None:
        return
    Xa, ya = c.args
    one = Vec(const_vec([1]))
    check_fit_X(ctx, run, tag, loc, Xa, sci, facts, envs, fhvec=one)
    rows = N - W

    def target(coords, q):
        return y_src(q.ev(coords[0] + W))

    if not (isinstance(ya, Nd) and ya.ndim == 1):
        ctx.undecided("R2", tag + ":fit-y", "target passed to fit is not 1-d: %r" % (ya,), loc)
    else:
        eq_lin(ctx, "R2", tag + ":fit-y-rows", loc, ya.shape[0], rows, facts, envs, "target rows")
        check_cells(ctx, "R2", tag + ":fit-y", loc, ya, [("r", ZERO, rows)], target, facts, envs,
                    "the regressor is fitted on the one-step-ahead target y[r + w]", "one-step target")
    ctx.check(run.selfv.attrs.get("estimator_") is c.recv, "R2", tag + ":estimator_", "estimator_ is the fitted clone",
              "estimator_ is %r, not the regressor that was fitted" % (run.selfv.attrs.get("estimator_"),), loc)


def loop_var(c):
    return list(c.loops[0].var.symbols())[0]


def pred_recursive(ctx, repo, run, tag, sci, facts, envs):
    future = Ser("Xnew", FHL, T + FHL, NX) if run.with_X else None
    rets = run.predict(repo, future)
    loc = ctx.loc(run.pred_cls.module, run.pred_fn)
    if nan_return(ctx, "R4", tag, loc, rets):
        return
    if len(rets) != 1:
        ctx.undecided("R4", tag + ":predict", "_predict_last_window has %d normal returns under a fixed scenario" % len(rets), loc)
        return
    s, ret = rets[0]
    pf = s.facts
    calls = [c for c in run.pred_calls if c.kind == "predict"]
    if len(calls) == 1 and len(calls[0].args) == 1 and len(calls[0].loops) == 1 and isinstance(calls[0].loops[0].it, (Vec, FHV)) \
            and calls[0].loops[0].var is not None:
        replay_vector_loop(ctx, run, tag, loc, calls[0], sci, pf, envs)
        return
    if len(calls) != 1 or len(calls[0].args) != 1 or len(calls[0].loops) != 1 or not isinstance(calls[0].loops[0].it, Rng):
        ctx.check(None, "R4", tag + ":predict-call", "", "expected one regressor.predict(X) site inside one counting loop", loc)
        return
    c = calls[0]
    lp = c.loops[0]
    var = loop_var(c)
    ctx.check(c.recv is run.selfv.attrs.get("estimator_"), "R2", tag + ":predict-estimator", "the fitted regressor predicts",
              "predict is called on %r" % (c.recv,), loc)
    eq_lin(ctx, "R4", tag + ":iterations", loc, lp.it.hi, FHL, pf, envs, "number of recursive steps (must reach max(fh))")
    eq_lin(ctx, "R4", tag + ":first-step", loc, lp.it.lo, ZERO, pf, envs, "first recursive step index")
    eq_lin(ctx, "R4", tag + ":advance", loc, lp.it.step, ONE, pf, envs, "step of the recursion loop")
    X3 = unflat(c.args[0], sci, ctx, "R4", tag + ":X_pred", loc, "the X handed to regressor.predict", run, "predict")
    if not (isinstance(X3, View) and X3.ndim == 3 and isinstance(X3.base, Buf)):
        ctx.undecided("R4", tag + ":X_pred", "prediction input is not a window view of a buffer: %r" % (c.args[0],), loc)
        return
    buf = X3.base
    check_buffers(ctx, "R4", tag + ":buffer", loc, [buf], pf, envs)
    feedback_obligations(ctx, run, tag, loc, buf, X3, c, var, lp, pf, envs, ret, expanding=False)


def feedback_obligations(ctx, run, tag, loc, buf, X3, c, var, lp, pf, envs, ret, expanding, fit_width=None):
    """R4: window slice, feedback position, value fed back, returned steps."""
    sl = X3.spec[2]
    if sl[0] != "sl":
        ctx.undecided("R4", tag + ":slice", "lag axis of the prediction input is not a slice", loc)
        return
    lo = sl[2]
    hi = lo + X3.shape[2]
    steps = lp.it.hi
    eq_lin(ctx, "R4", tag + ":buffer-length", loc, buf.shape[2], W + steps, pf, envs, "length of the feedback buffer")
    eq_lin(ctx, "R4", tag + ":buffer-variables", loc, buf.shape[1], (NX + 1) if run.with_X else ONE, pf, envs,
           "variable axis of the feedback buffer (one row for y plus one per exogenous column, as in fit)")
    eq_lin(ctx, "R4", tag + ":buffer-rows", loc, buf.shape[0], ONE, pf, envs, "leading axis of the feedback buffer (one prediction row)")
    if expanding:
        eq_lin(ctx, "R4", tag + ":slice-lo", loc, lo, ZERO, pf, envs, "start of the expanding window", loops=[lp])
        eq_lin(ctx, "R4", tag + ":slice-hi", loc, hi, W + lp.var, pf, envs, "end of the expanding window at iteration i", loops=[lp])
    else:
        eq_lin(ctx, "R4", tag + ":slice-lo", loc, lo, lp.var, pf, envs, "start of the window at iteration i", loops=[lp])
        eq_lin(ctx, "R4", tag + ":slice-length", loc, hi - lo, W, pf, envs, "window length at iteration i", loops=[lp])
    check_pred_dtype(ctx, "R4", tag + ":buffer", loc, buf, "the window buffer that receives the fed-back predictions")
    # the store that feeds predictions back
    fb = [st for st in buf.stores if st.loops and [l.node for l in st.loops] == [l.node for l in c.loops]]
    init = [st for st in buf.stores if not st.loops]
    if len(fb) != 1:
        ctx.check(False if not fb else None, "R4", tag + ":feedback", "",
                  "%d stores into the window buffer inside the recursion loop (expected exactly one feedback store)" % len(fb), loc)
        return
    st = fb[0]
    ctx.check(st.seq > c.seq, "R4", tag + ":feedback-after-predict", "the feedback store follows the prediction of the same iteration",
              "the feedback store precedes the prediction of its own iteration", loc)
    pos = st.box[2]
    if not pos[2]:
        ctx.undecided("R4", tag + ":feedback-position", "feedback store is not a single lag position", loc)
        return
    eq_lin(ctx, "R4", tag + ":feedback-position", loc, pos[0], W + lp.var, pf, envs,
           "position written at iteration i (the newest lag of iteration i+1)", loops=[lp])
    nxt_hi = hi.subst({var: lp.var + 1})
    eq_lin(ctx, "R4", tag + ":feedback-is-newest-lag", loc, pos[0], nxt_hi - 1, pf, envs,
           "feedback position relative to the next iteration's window end", loops=[lp])
    # variable row: predictions go to the target row 0
    row = st.box[1]
    if expanding:
        good = Q(pf).eq(row[0], ZERO) is True and Q(pf).eq(row[1], buf.shape[1]) is True and Q(pf).eq(buf.shape[1], ONE) is True
        ctx.check(True if good else (Q(pf).eq(row[0], ZERO) is True and row[2]) or None, "R4", tag + ":feedback-row",
                  "predictions are written to the target row", "feedback row is %r:%r" % (row[0], row[1]), loc)
    else:
        eq_lin(ctx, "R4", tag + ":feedback-row", loc, row[0], ZERO, pf, envs, "variable row receiving the prediction", loops=[lp])
        ctx.check(bool(row[2]) or Q(pf).eq(row[1] - row[0], ONE) is True, "R4", tag + ":feedback-row-single",
                  "only the target row is overwritten", "feedback overwrites rows %r:%r" % (row[0], row[1]), loc)
    # value fed back = prediction made in the same iteration
    qf = pf.copy()
    qf.add_cmp(lp.var, ">=", lp.it.lo, "loop range")
    qf.add_cmp(lp.var, "<=", lp.it.hi - 1, "loop range")
    q = Q(qf)
    val = st.value
    if not isinstance(val, (Elem, CallV)):
        ctx.undecided("R4", tag + ":feedback-value", "value fed back is not interpretable: %r" % (val,), loc)
    else:
        def fed(qq, it_val):
            v = Elem(val.arr, val.coords, val.wraps, {"limit": {var: (it_val, st.seq)}}) if isinstance(val, Elem) else val
            return resolve(("val", subst_val(v, {var: it_val}) if it_val is not lp.var else v), qq)

        cont = fed(q, lp.var)
        proved = (cont is not None and cont[0] == "val" and isinstance(cont[1], CallV) and cont[1].node is c.node
                  and cont[1].binding.get(var) == lp.var)
        wit = None
        for env0 in ([] if proved else envs):
            for env in loop_envs(env0, [lp]):
                qc = Q(env=env)
                try:
                    i_val = Lin.c(env.eval(lp.var))
                    g = fed(qc, i_val)
                except Uneval:
                    continue
                good = (g is not None and g[0] == "val" and isinstance(g[1], CallV) and g[1].node is c.node
                        and g[1].binding.get(var) == i_val)
                if not good:
                    if g is None or (g[0] == "val" and not isinstance(g[1], CallV)):
                        wit = "opaque"
                    else:
                        wit = dict(env.describe(), fed_back=("prediction of iteration %r" % g[1].binding.get(var)) if g[0] == "val" else fmt(g))
                    break
            if wit:
                break
        Ob(ctx, "R4", tag + ":feedback-value", loc).settle(
            proved, wit, "the value fed back at iteration i is the prediction made at iteration i",
            "the value fed back at iteration i is not the prediction made at iteration i")
    # initial fill: observed window at [0, w)
    win_y, win_x = last_window_specs(run)
    y_init = View(buf, [("sl", 0, ZERO), ("sl", 1, ZERO), ("sl", 2, ZERO)], [ONE, buf.shape[1], W])
    check_cells(ctx, "R4", tag + ":initial-window", loc, y_init, [("r", ZERO, ONE), ("v", ZERO, ONE), ("c", ZERO, W)], win_y, pf, envs,
                "buffer[0, 0, c] = y[n - w + c] for c < w (last observed window, oldest first)", "feedback buffer", {"upto": c.seq + 1})
    if run.with_X:
        xv = View(buf, [("sl", 0, ZERO), ("sl", 1, ONE), ("sl", 2, ZERO)], [ONE, buf.shape[1] - 1, W])
        check_cells(ctx, "R4", tag + ":initial-window-X", loc, xv, [("r", ZERO, ONE), ("u", ZERO, NX), ("c", ZERO, W)], win_x, pf, envs,
                    "buffer[0, 1+u, c] = X[n - w + c, u] for c < w", "feedback buffer (exogenous rows)", {"upto": c.seq + 1})

        def fut(coords, q):
            return ("src", "Xnew", (q.ev(coords[2]), q.ev(coords[1])))

        xf = View(buf, [("sl", 0, ZERO), ("sl", 1, ONE), ("sl", 2, W)], [ONE, buf.shape[1] - 1, steps])
        check_cells(ctx, "R4", tag + ":future-X", loc, xf, [("r", ZERO, ONE), ("u", ZERO, NX), ("s", ZERO, FHL)], fut, pf, envs,
                    "buffer[0, 1+u, w+s] = X_future[s, u] (exogenous value of step s+1)", "feedback buffer (future exogenous rows)", {"upto": c.seq + 1})
    # simulation on instances: every cell of every iteration's window holds the value of time n-w+i+c
    simulate_feedback(ctx, run, tag, loc, buf, X3, c, var, lp, pf, envs, expanding)
    # what is returned
    if expanding:
        return
    if isinstance(ret, View) and ret.ndim == 1 and isinstance(ret.base, Buf) and ret.spec[0][0] == "ga":
        ypb = ret.base
        g = ret.spec[0][2]
        ctx.check(g == Vec("fh", -1), "R4", tag + ":returned-steps", "returns y_pred[fh - 1] (element k is the output for step k+1)",
                  "returns y_pred[%r]; element k of y_pred is the output for step k+1, so step h must read index h-1" % (g,), loc,
                  witness={"index": repr(g)})
        eq_lin(ctx, "R4", tag + ":y_pred-length", loc, ypb.shape[0], FHL, pf, envs, "length of the recursive prediction array")
        check_pred_dtype(ctx, "R4", tag + ":y_pred", loc, ypb, "the array collecting the recursive regressor outputs")
        check_ypred_store(ctx, tag, loc, ypb, c, var, lp, pf)
    else:
        ctx.check(None if isinstance(ret, Opq) else False, "R4", tag + ":returned-steps", "",
                  "the value returned is %r, not a selection of the recursive predictions by step" % (ret,), loc)


FLOAT_DTYPES = ("name:float", "global:numpy.float64", "global:numpy.float_", "global:numpy.float32", "global:numpy.double")


def check_pred_dtype(ctx, rule, tag, loc, b, what):
    """A buffer that receives regressor outputs must be able to hold them: no dtype taken from the data."""
    dt = getattr(b, "dtype", None)
    c = tag + ":dtype"
    if dt is None or (isinstance(dt, K) and dt.v in (None, "float", "float64", "float32")) or (isinstance(dt, Opq) and dt.tag in FLOAT_DTYPES):
        ctx.ok(rule, c, "%s is allocated as a float array" % what, loc)
    elif isinstance(dt, Opq) and dt.tag == "attr:dtype" and dt.args and isinstance(dt.args[0], Nd):
        ctx.violation(rule, c, "%s takes its dtype from the observed data (%r): for an integer-valued series every regressor output stored "
                      "in it is truncated, so the forecast returned for step h is not the regressor output" % (what, dt.args[0]), loc,
                      witness={"series_dtype": "int64", "regressor_output": "43.23", "stored": "43"})
    elif (isinstance(dt, Opq) and dt.tag in ("name:int", "global:numpy.int64", "global:numpy.int32", "global:numpy.int_")) or \
            (isinstance(dt, K) and dt.v in ("int", "int64", "int32")):
        ctx.violation(rule, c, "%s is allocated as an integer array: regressor outputs are truncated" % what, loc, witness={"dtype": repr(dt)})
    else:
        ctx.undecided(rule, c, "%s is allocated with dtype %r" % (what, dt), loc)


def check_casts(ctx, rule, tag, loc, it):
    """Observed data handed on to the regressor must not be cast to a dtype taken from *other* data."""
    casts = getattr(it, "casts", [])
    bad = und = None
    for node, recv, dt in casts:
        if (isinstance(dt, K) and dt.v in (None, "float", "float64")) or (isinstance(dt, Opq) and dt.tag in FLOAT_DTYPES):
            continue
        if isinstance(dt, Opq) and dt.tag == "attr:dtype" and dt.args and isinstance(dt.args[0], Nd):
            src = dt.args[0]
            same = src is recv
            if not same:
                bad = (node, recv, src)
        else:
            und = (node, recv, dt)
    c = tag + ":no-data-dependent-cast"
    if bad:
        ctx.violation(rule, c, "%r is cast to the dtype of %r before it is tabularised: with an integer-valued target the real-valued "
                      "exogenous observations are truncated, so the training rows no longer hold the observed values" % (bad[1], bad[2]),
                      "%s:%s" % (loc.split(":")[0], getattr(bad[0], "lineno", "?")), witness={"y_dtype": "int64", "X": "0.7 -> 0"})
    elif und:
        ctx.undecided(rule, c, "observed data is cast with dtype %r" % (und[2],), loc)
    else:
        ctx.ok(rule, c, "observed values reach the lag matrix without a data-dependent cast", loc)


def check_ypred_store(ctx, tag, loc, ypb, c, var, lp, pf):
    sts = [s for s in ypb.stores if isinstance(s.value, CallV) and s.value.node is c.node]
    if len(sts) != 1 or not sts[0].box[0][2]:
        ctx.check(None, "R4", tag + ":y_pred-index", "", "the prediction is not stored into y_pred at a single index", loc)
        return
    ctx.check(Q(pf).eq(sts[0].box[0][0], lp.var) is True, "R4", tag + ":y_pred-index",
              "the prediction of iteration i is stored at y_pred[i]",
              "the prediction of iteration i is stored at y_pred[%r]" % (sts[0].box[0][0],), loc)


def simulate_feedback(ctx, run, tag, loc, buf, X3, c, var, lp, pf, envs, expanding):
    """Instance-level replay of the extracted stores: at iteration i, window cell c must hold the
    value of time n - w + (0 if expanding else i) + c: an observation if that time <= cutoff,
    otherwise the prediction made for exactly that time (iteration time - n)."""
    wit = None
    checked = 0
    for env in envs[::3]:
        qc = Q(env=env)
        try:
            steps = int(env.eval(lp.it.hi))
            n, w = int(env.eval(N)), int(env.eval(W))
            for i in range(int(env.eval(lp.it.lo)), steps):
                view = subst_val(X3, {var: Lin.c(i)})
                width = int(env.eval(view.shape[2]))
                for cc in range(width):
                    t = n - w + (0 if expanding else i) + cc
                    got = resolve(view.cell([ZERO, ZERO, Lin.c(cc)], qc, limit={var: (Lin.c(i), c.seq + 1)}), qc)
                    if t < n:
                        want = y_src(Lin.c(t))
                        good = got == want
                    else:
                        want = ("prediction for time", t)
                        good = (got is not None and got[0] == "val" and isinstance(got[1], CallV) and got[1].node is c.node
                                and got[1].binding.get(var) == Lin.c(t - n))
                    checked += 1
                    if not good:
                        if opaque(got) and not (got is not None and got[0] == "val" and isinstance(got[1], CallV)):
                            wit = "opaque"
                        else:
                            wit = dict(env.describe(), iteration=i, lag=cc, got=fmt(got),
                                       expected=fmt(want) if want[0] == "src" else "prediction of iteration %d" % (t - n))
                        break
                if wit:
                    break
        except Uneval:
            continue
        if wit:
            break
    ob = Ob(ctx, "R4", tag + ":replay", loc)
    if wit is None:
        ctx.ok("R4", tag + ":replay", "instance replay of the feedback buffer (%d cells): every lag holds the observation or the "
               "prediction of its own time" % checked, loc)
    elif wit == "opaque":
        ctx.undecided("R4", tag + ":replay", "feedback buffer content not interpretable on the instance grid", loc)
    else:
        ctx.violation("R4", tag + ":replay", "a lag of the prediction window does not hold the value of its time; witness %s" % witness_text(wit),
                      loc, witness=wit)


def replay_vector_loop(ctx, run, tag, loc, c, sci, pf, envs):
    """The recursion visits the elements of a horizon-derived vector instead of every step 1..max(fh): replay the
    extracted stores on instances.  The prediction stored at y_pred[p] is the forecast of step p+1, so its window
    must hold the values of the times n-w+p .. n-1+p (observations, or the predictions stored for exactly those times)."""
    lp = c.loops[0]
    var = loop_var(c)
    vec = lp.it.vec if isinstance(lp.it, FHV) else lp.it
    X3 = c.args[0].base if isinstance(c.args[0], Flat) else c.args[0]
    stores = [(b, st) for b in run.it.bufs for st in b.stores if isinstance(st.value, CallV) and st.value.node is c.node and st.box[0][2]]
    if not (isinstance(X3, View) and X3.ndim == 3 and isinstance(X3.base, Buf)) or len(stores) != 1 or vec.neg:
        ctx.undecided("R4", tag + ":replay", "recursion over a vector of steps with an uninterpretable window / output store", loc)
        return
    p_of = stores[0][1].box[0][0]
    wit = None
    for env in envs:
        qc = Q(env=env)
        try:
            n, w = int(env.eval(N)), int(env.eval(W))
            vals = sorted(env.vecs.get(vec.base, []))
            for x in vals:
                m = {var: Lin.c(x)}
                p = int(env.eval(p_of.subst(m)))
                view = subst_val(X3, m)
                for cc in range(int(env.eval(view.shape[2]))):
                    t = n - w + p + cc
                    got = resolve(view.cell([ZERO, ZERO, Lin.c(cc)], qc, limit={var: (Lin.c(x), c.seq + 1)}), qc)
                    if t < n:
                        good = got == y_src(Lin.c(t))
                        exp = "y[%d]" % t
                    else:
                        good = False
                        exp = "the prediction stored for step %d" % (t - n + 1)
                        if got is not None and got[0] == "val" and isinstance(got[1], CallV) and got[1].node is c.node:
                            b = got[1].binding.get(var)
                            good = b is not None and env.eval(p_of.subst({var: b})) == t - n
                    if not good:
                        wit = "opaque" if (got is None or (got[0] == "val" and not isinstance(got[1], CallV))) else \
                            dict(env.describe(), predicting_step=p + 1, lag=cc, got=fmt(got), expected=exp)
                        break
                if wit:
                    break
        except Uneval:
            continue
        if wit:
            break
    if wit is None:
        ctx.undecided("R4", tag + ":replay", "recursion over a vector of steps: no instance refutes it, but it is outside the provable idiom", loc)
    elif wit == "opaque":
        ctx.undecided("R4", tag + ":replay", "feedback buffer content not interpretable on the instance grid", loc)
    else:
        ctx.violation("R4", tag + ":replay", "the recursion only visits the requested steps: a lag of a later step's window is a prediction "
                      "that was never made; witness %s" % witness_text(wit), loc, witness=wit)


def fit_dirrec(ctx, repo, run, tag, sci, facts, envs):
    loc = ctx.loc(run.fit_cls.module, run.fit_fn)
    c = one_fit_call(ctx, run, tag, loc, True)
    if c is None:
        return
    lp = c.loops[0]
    var = list(lp.var.symbols())[0]
    eq_lin(ctx, "R2", tag + ":fit-iterations", loc, lp.it.hi - lp.it.lo, LFH, facts, envs, "number of fitted regressors")
    eq_lin(ctx, "R2", tag + ":fit-first", loc, lp.it.lo, ZERO, facts, envs, "first fitted step index")
    Xa, ya = c.args
    rows = N - W - FHL + 1
    X3 = unflat(Xa, sci, ctx, "R2", tag + ":fit-X", loc, "the X handed to regressor.fit", run, "fit")
    if not (isinstance(X3, Nd) and X3.ndim == 3):
        ctx.undecided("R2", tag + ":fit-X", "X handed to fit is not a 3-d array: %r" % (Xa,), loc)
        return
    check_buffers(ctx, "R2", tag + ":fit-X", loc, [X3], facts, envs)
    eq_lin(ctx, "R2", tag + ":fit-X:rows", loc, X3.shape[0], rows, facts, envs, "rows of the X handed to fit")
    eq_lin(ctx, "R4", tag + ":fit-width", loc, X3.shape[2], W + lp.var, facts, envs, "width of regressor i's input (window + i earlier targets)", loops=[lp])
    gen = _Gen(X3, var)

    def window(coords, q):
        return y_src(q.ev(coords[0] + coords[2]))

    def prev_target(coords, q):
        # column w + k (k < i) holds the target of step fh_k
        return y_src(q.ev(coords[0] + W - 1 + q.vec_elem(Vec("fh"), coords[2])))

    check_cells(ctx, "R2", tag + ":fit-X:window-y", loc, gen, [("r", ZERO, rows), ("v", ZERO, ONE), ("c", ZERO, W), ("i", ZERO, LFH)],
                window, facts, envs, "regressor i receives X[r, 0, c] = y[r + c] for c < w", "X handed to fit")
    # earlier targets: shift the lag coordinate by w; k ranges over [0, i)
    shifted = _Shift(gen, 2, W)
    f2 = facts.copy()
    check_cells(ctx, "R4", tag + ":fit-X:earlier-targets", loc, _Tri(shifted), [("r", ZERO, rows), ("v", ZERO, ONE), ("k", ZERO, LFH - 1), ("d", ZERO, LFH - 1)],
                prev_target, f2, envs, "regressor i receives, after the window, the targets of the earlier steps fh_k (k < i) and nothing later",
                "X handed to fit (expanding part)")

    def target_i(coords, q):
        return y_src(q.ev(coords[0] + W - 1 + q.vec_elem(Vec("fh"), coords[1])))

    if isinstance(ya, Nd) and ya.ndim == 1:
        check_cells(ctx, "R2", tag + ":fit-y", loc, _Gen(ya, var), [("r", ZERO, rows), ("i", ZERO, LFH)], target_i, facts, envs,
                    "regressor i is fitted on the target column of step fh_i", "per-step target")
    else:
        ctx.undecided("R2", tag + ":fit-y", "target passed to fit is not a 1-d column: %r" % (ya,), loc)
    lst = run.selfv.attrs.get("estimators_")
    good = None
    if isinstance(lst, ListV):
        good = len(lst.appends) == 1 and lst.appends[0][0] is c.recv and [l.node for l in lst.appends[0][1]] == [l.node for l in c.loops]
    ctx.check(good, "R2", tag + ":estimators_", "estimators_[i] is the regressor fitted for step i",
              "estimators_ is %r: not one append of the fitted clone per iteration" % (lst,), loc)


class _Shift(Nd):
    def __init__(self, base, axis, off):
        self.base, self.axis, self.off = base, axis, off
        self.shape = base.shape

    def cell(self, coords, q, **kw):
        cc = list(coords)
        cc[self.axis] = cc[self.axis] + self.off
        return self.base.cell(cc, q, **kw)


class _Tri(Nd):
    """Coordinates (r, v, k, d) -> base(r, v, k, i = k + 1 + d): all pairs k < i."""

    def __init__(self, base):
        self.base = base
        self.shape = base.shape

    def cell(self, coords, q, **kw):
        r, v, k, d = coords
        i = k + 1 + d
        if q.concrete:
            if q.env.eval(i) > q.env.eval(LFH) - 1:
                return self.skip(coords, q)
        else:
            q.facts.add_cmp(i, "<=", LFH - 1, "i is a valid step index")
        return self.base.cell([r, v, k, i], q, **kw)

    def skip(self, coords, q):
        # outside the triangle: report the specification value so the comparison passes
        return y_src(q.ev(coords[0] + W - 1 + q.vec_elem(Vec("fh"), coords[2])))


def pred_dirrec(ctx, repo, run, tag, sci, facts, envs):
    rets = run.predict(repo)
    loc = ctx.loc(run.pred_cls.module, run.pred_fn)
    if nan_return(ctx, "R4", tag, loc, rets):
        return
    if len(rets) != 1:
        ctx.undecided("R4", tag + ":predict", "_predict_last_window has %d normal returns under a fixed scenario" % len(rets), loc)
        return
    s, ret = rets[0]
    pf = s.facts
    calls = [c for c in run.pred_calls if c.kind == "predict"]
    if len(calls) != 1 or len(calls[0].args) != 1 or len(calls[0].loops) != 1 or not isinstance(calls[0].loops[0].it, Rng):
        ctx.check(None, "R4", tag + ":predict-call", "", "expected one regressor.predict(X) site inside one counting loop", loc)
        return
    c = calls[0]
    lp = c.loops[0]
    var = loop_var(c)
    lst = run.selfv.attrs.get("estimators_")
    good = isinstance(c.recv, ItemV) and c.recv.lst is lst and c.recv.idx == lp.var
    ctx.check(good if isinstance(c.recv, ItemV) else None, "R2", tag + ":predict-estimator", "iteration i predicts with estimators_[i]",
              "iteration i predicts with %r" % (c.recv,), loc)
    eq_lin(ctx, "R4", tag + ":iterations", loc, lp.it.hi, LFH, pf, envs, "number of dirrec steps")
    eq_lin(ctx, "R4", tag + ":first-step", loc, lp.it.lo, ZERO, pf, envs, "first dirrec step index")
    X3 = unflat(c.args[0], sci, ctx, "R4", tag + ":X_pred", loc, "the X handed to regressor.predict", run, "predict")
    if not (isinstance(X3, View) and X3.ndim == 3 and isinstance(X3.base, Buf)):
        ctx.undecided("R4", tag + ":X_pred", "prediction input is not a window view of a buffer: %r" % (c.args[0],), loc)
        return
    buf = X3.base
    check_buffers(ctx, "R4", tag + ":buffer", loc, [buf], pf, envs)
    feedback_obligations(ctx, run, tag, loc, buf, X3, c, var, lp, pf, envs, ret, expanding=True)
    if isinstance(ret, Buf) and ret.ndim == 1:
        eq_lin(ctx, "R4", tag + ":y_pred-length", loc, ret.shape[0], LFH, pf, envs, "length of the returned prediction array")
        check_pred_dtype(ctx, "R4", tag + ":y_pred", loc, ret, "the array collecting the per-step regressor outputs")
        check_ypred_store(ctx, tag, loc, ret, c, var, lp, pf)
    else:
        ctx.check(None if isinstance(ret, Opq) else False, "R4", tag + ":returned-steps", "",
                  "the value returned is %r, not the per-step prediction array" % (ret,), loc)


# ------------------------------------------------------------------------------- R3
def rule_last_window(ctx, repo):
    """``_BaseWindowForecaster._get_last_window`` on its own: inclusive label slice of length w ending at the cutoff."""
    cls = repo.cls(SKT + ":_BaseWindowForecaster")
    fn = repo.func(SKT, "_BaseWindowForecaster._get_last_window")
    loc = ctx.loc(cls.module, fn)
    check_no_stale_cache(ctx, repo, "R3", "_get_last_window:no-stale-cache", cls, fn)
    A = Lin.sym("a")  # observations stored after the cutoff (update() with old data / detached cutoff moves the cutoff inside the series)
    # history shorter than the window (cutoff moved back near the start of the stored series): the window is what was observed
    # up to the cutoff -- fewer than w values, and never a value after the cutoff
    tag = "_get_last_window[short-history]"
    it = make_interp(repo, Rec(), False)
    selfv = SelfV(cls, {"_y": Ser("y", N, T + A), "_X": K(None), "_cutoff": T, "window_length_": W})
    f = base_facts(False)
    f.add_cmp(A, ">=", 0, "the cutoff is a stored time point, possibly not the last one")
    f.add_cmp(N - A, ">=", 1, "the cutoff is a stored time point")
    f.add_cmp(W, ">=", N - A + 1, "fewer than w observations up to the cutoff")
    traces, _ = it.run_function(Frame(cls.module, fn, cls, cls), {"self": selfv}, State(facts=f))
    rets = [o[1] for s, o in traces if o[0] == "return"]
    if len(rets) == 1 and isinstance(rets[0], Tup) and len(rets[0].items) == 2 and isinstance(rets[0].items[0], Nd) and rets[0].items[0].ndim == 1:
        yw = rets[0].items[0]
        envs = [Env({"n": n_, "w": w_, "T": 40, "a": a_}, {"fh": [1]}) for n_ in (4, 6) for a_ in (0, 2) for w_ in (3, 5, 7)]
        envs = feasible(envs, f)
        proved = Q(f).eq(yw.shape[0], N - A) is True
        wit = None
        for env in ([] if proved else envs):
            qc = Q(env=env)
            try:
                cnt = 0
                while cnt < 16 and yw.cell([Lin.c(cnt)], qc) not in (OOB, None):
                    cnt += 1
                if cnt != env.eval(N - A):
                    wit = dict(env.describe(), window_values=cnt, observed_up_to_cutoff=str(env.eval(N - A)))
                    break
            except Uneval:
                continue
        Ob(ctx, "R3", tag + ":length", loc).settle(
            proved, wit, "with fewer than w observations up to the cutoff the window holds exactly those n - a observations",
            "with fewer than w observations up to the cutoff the window is filled up with values from after the cutoff")
        check_cells(ctx, "R3", tag + ":y", loc, yw, [("c", ZERO, N - A)], lambda cc, q: y_src(q.ev(cc[0])), f, envs,
                    "the window holds the observations up to the cutoff", "last window (short history)")
    else:
        ctx.undecided("R3", tag, "unexpected return structure %r" % (rets,), loc)
    for with_X in (False, True):
        tag = "_get_last_window[X=%s]" % ("given" if with_X else "None")
        rec = Rec()
        it = make_interp(repo, rec, with_X)
        selfv = SelfV(cls, {"_y": Ser("y", N, T + A), "_X": Ser("X", N, T + A, NX) if with_X else K(None), "_cutoff": T, "window_length_": W})
        f = base_facts(with_X)
        f.add_cmp(W, ">=", 1, "window length validated in fit")
        f.add_cmp(A, ">=", 0, "the cutoff is a stored time point, possibly not the last one")
        f.add_cmp(W, "<=", N - A, "window not longer than the series up to the cutoff")
        traces, fst = it.run_function(Frame(cls.module, fn, cls, cls), {"self": selfv}, State(facts=f))
        rets = [o[1] for s, o in traces if o[0] == "return"]
        if len(rets) != 1 or not isinstance(rets[0], Tup) or len(rets[0].items) != 2:
            ctx.undecided("R3", tag, "unexpected return structure %r" % (rets,), loc)
            continue
        yw, Xw = rets[0].items
        envs = []
        for e in grid(with_X):
            for a in (0, 2):
                ints = dict(e.ints)
                ints["a"] = a
                envs.append(Env(ints, e.vecs))
        envs = feasible(envs, f)
        if not (isinstance(yw, Nd) and yw.ndim == 1):
            ctx.undecided("R3", tag + ":y", "last window is %r" % (yw,), loc)
            continue
        eq_lin(ctx, "R3", tag + ":length", loc, yw.shape[0], W, f, envs, "length of the last window")
        check_cells(ctx, "R3", tag + ":y", loc, yw, [("c", ZERO, W)], lambda cc, q: y_src(q.ev(N - A - W + cc[0])), f, envs,
                    "last window = the w observations with labels cutoff - w + 1 .. cutoff (wherever the cutoff lies in the stored series)",
                    "last window (a = number of stored observations after the cutoff)")
        if with_X:
            if isinstance(Xw, Nd) and Xw.ndim == 2:
                eq_lin(ctx, "R3", tag + ":X-length", loc, Xw.shape[0], W, f, envs, "length of the exogenous last window")
                check_cells(ctx, "R3", tag + ":X", loc, Xw, [("c", ZERO, W), ("u", ZERO, NX)],
                            lambda cc, q: x_src(q.ev(N - A - W + cc[0]), q.ev(cc[1])), f, envs,
                            "exogenous last window covers the same labels", "exogenous last window")
            else:
                ctx.undecided("R3", tag + ":X", "exogenous last window is %r" % (Xw,), loc)


def self_reads(expr):
    return {n.attr for n in ast.walk(expr) if isinstance(n, ast.Attribute) and isinstance(n.value, ast.Name) and n.value.id == "self"
            and isinstance(n.ctx, ast.Load)} | \
           {n.args[1].value for n in ast.walk(expr) if isinstance(n, ast.Call) and dotted(n.func) == "getattr" and len(n.args) >= 2
            and isinstance(n.args[0], ast.Name) and n.args[0].id == "self" and isinstance(n.args[1], ast.Constant)}


def check_no_stale_cache(ctx, repo, rule, construct, cls, fn, resolve_props=True):
    """(H2) A method must not serve its result from an instance attribute it filled on an earlier call unless the
    guard that selects the cached value depends on everything the cached value was computed from."""
    mod = cls.module
    stored = {}
    for attr, val, st in astq.self_attr_stores(fn):
        if val is not None:
            stored.setdefault(attr, []).append(val)

    def closure(expr, depth=3):
        """self attributes an expression depends on (locals inlined, properties of the class followed one level)."""
        e = astq.inline_locals(fn, expr)
        reads = set(self_reads(e))
        for a in list(reads):
            for k in repo.mro(cls):
                if isinstance(k, ClassInfo) and a in k.properties and "getter" in k.properties[a]:
                    reads |= self_reads(k.properties[a]["getter"])
        return reads

    served = []
    for r in astq.returns(fn):
        if r.value is None:
            continue
        v = astq.inline_locals(fn, r.value)
        attrs = [n.attr for n in ([v] if not isinstance(v, ast.Tuple) else v.elts)
                 if isinstance(n, ast.Attribute) and isinstance(n.value, ast.Name) and n.value.id == "self"]
        cached = [a for a in attrs if a in stored]
        if not cached:
            continue
        guards = [g for g in astq.enclosing_stmts(fn, r) if isinstance(g, ast.If)]
        served.append((r, cached, guards))
    loc = ctx.loc(mod, fn)
    if not served:
        ctx.ok(rule, construct, "no result is served from an instance attribute filled by an earlier call", loc)
        return
    for r, cached, guards in served:
        key_reads = set()
        for g in guards:
            key_reads |= closure(g.test)
        need = set()
        for a in cached:
            for val in stored[a]:
                need |= closure(val)
        key_attrs = {a for a in key_reads if a in stored}  # the remembered key itself
        missing = sorted(need - key_reads - set(cached) - key_attrs)
        if missing:
            ctx.violation(rule, construct, "returns the remembered self.%s when only %s are unchanged, but it was computed from self.%s: a "
                          "second call after these changed (update with revised values for the same time points, refit on another "
                          "series with the same index) is served the stale result" % (
                              "/".join(cached), sorted(key_reads - key_attrs) or "nothing", ", self.".join(missing)),
                          ctx.loc(mod, r), witness={"history": "predict; change self.%s keeping %s; predict" % (
                              missing[0], ", ".join(sorted(key_reads - key_attrs)) or "-"), "cached": cached, "not_in_key": missing})
        else:
            ctx.undecided(rule, construct, "result served from self.%s under a guard over %s: cannot decide that the guard compares "
                          "everything by value" % ("/".join(cached), sorted(key_reads)), ctx.loc(mod, r))


# ------------------------------------------------------- conformance of the modelled callees
FHP = "sktime/forecasting/base/_fh.py"


def fh_method_run(repo, name, args, int_index=True):
    """Interpret ``ForecastingHorizon.<name>`` for a relative horizon ``fh``; conversions of the object itself are
    the (C02-decided) primitives: to_relative(c) = fh, to_absolute(c) = c + fh."""
    cls = repo.cls(FHP + ":ForecastingHorizon")
    fn = cls.methods.get(name)
    if fn is None:
        raise AnalysisError("ForecastingHorizon.%s missing" % name)
    selfv = SelfV(cls, {"_is_relative": K(True)})

    def hooks(interp, frame, call, fname, a, kw, st):
        simple = (fname or "").split(".")[-1]
        if isinstance(call.func, ast.Attribute) and isinstance(call.func.value, ast.Name) and st.env.get(call.func.value.id) is selfv:
            c = a[0] if a else kw.get("cutoff", K(None))
            if simple == "to_relative":
                return FHV(Vec("fh"), True)
            if simple == "to_absolute":
                lc = as_lin_val(c)
                return FHV(Vec("fh", lc), False) if lc is not None else Opq("to_absolute(cutoff=%r)" % (c,))
            if simple == "_new":
                v = a[0] if a else kw.get("values")
                rel = kw.get("is_relative", a[1] if len(a) > 1 else None)
                v = v.vec if isinstance(v, FHV) else v
                return FHV(v, rel == K(True)) if isinstance(v, Vec) else Opq("_new", [v])
        if simple in ("_check_start", "_check_cutoff"):
            return K(None)
        if simple == "_get_freq":
            return Opq("freq")
        if simple == "_coerce_duration_to_int" and a:
            return a[0]  # durations on the integer model are integers already
        ext = interp.ext_name(fname, frame)
        if ext == "builtins.isinstance" and len(a) == 2:
            if isinstance(a[0], (Vec, FHV)):
                return K(not int_index)  # is the index a Period / Datetime index?
        return NotImplemented

    it = AInterp(repo, scenario={}, hooks=hooks, no_inline=("_check_start", "_check_cutoff", "_get_freq", "_coerce_duration_to_int"))
    argv = dict(args)
    argv["self"] = selfv
    traces, _ = it.run_function(Frame(cls.module, fn, cls, cls), argv, State())
    return cls, fn, [o[1] for s_, o in traces if o[0] in ("return",)], [o for s_, o in traces if o[0] == "fall"]


def check_fh_models(ctx, repo, rule, which=("to_indexer", "to_absolute_int")):
    """The rules of C05 / C11 model ForecastingHorizon.to_indexer / to_absolute_int instead of following them; the
    model is an obligation: decide it from the source of the methods (relative horizon, integer or period index)."""
    S = Lin.sym("start")
    cases = []
    if "to_indexer" in which:
        cases += [("to_indexer", "cutoff=None", {}, Vec("fh", -1), "steps - 1 (zero-based from the cutoff), also when no cutoff is passed"),
                  ("to_indexer", "cutoff=given", {"cutoff": T}, Vec("fh", -1), "steps - 1 (zero-based from the cutoff)"),
                  ("to_indexer", "from_cutoff=False", {"cutoff": T, "from_cutoff": K(False)}, Vec("fh", -FH0), "steps - first step")]
    if "to_absolute_int" in which:
        cases += [("to_absolute_int", "integer-index", {"start": S, "cutoff": T}, Vec("fh", T - S), "cutoff + steps - start (zero at `start`)"),
                  ("to_absolute_int", "period-index", {"start": S, "cutoff": T}, Vec("fh", T - S), "cutoff + steps - start (zero at `start`)")]
    for name, scen, args, want, text in cases:
        c = "ForecastingHorizon.%s[%s]:model" % (name, scen)
        try:
            cls, fn, rets, falls = fh_method_run(repo, name, args, int_index=(scen != "period-index"))
        except AnalysisError as e:
            ctx.undecided(rule, c, str(e), None)
            continue
        loc = ctx.loc(cls.module, fn)
        if not rets or falls:
            ctx.undecided(rule, c, "no interpretable return", loc)
            continue
        bad = None
        und = None
        for r in rets:
            v = r.vec if isinstance(r, FHV) else r
            if isinstance(v, Vec) and v.base == "fh" and not v.neg:
                if v.off != want.off:
                    bad = v
            else:
                und = r
        if bad is not None:
            d = bad.off - want.off
            wit = {"fh": [2, 4], "returned_offset": repr(bad.off), "expected_offset": repr(want.off)}
            if "start" in d.symbols():
                wit["start"] = 7
            ctx.violation(rule, c, "for a relative horizon %s returns steps %+r, the rules of this property rely on %s; witness %s"
                          % (name, bad.off, text, witness_text(wit)), loc, witness=wit)
        elif und is not None:
            ctx.undecided(rule, c, "%s returns %r on a path" % (name, und), loc)
        else:
            ctx.ok(rule, c, "%s returns %s" % (name, text), loc)


def check_shift_model(ctx, repo, rule):
    """``_shift(x, by)`` is modelled as ``x + by``: every return of the helper must be that sum (by may be rescaled by x.freq)."""
    mod = repo.module("sktime/utils/datetime.py")
    fn = repo.func("sktime/utils/datetime.py", "_shift")
    loc = ctx.loc(mod, fn)
    ps = astq.param_names(fn)
    c = "_shift:model"
    if len(ps) != 2:
        ctx.undecided(rule, c, "unexpected signature", loc)
        return
    x, by = ps
    want = astq.canon(ast.parse("%s + %s" % (x, by), mode="eval").body)
    other = [r for r in astq.returns(fn) if r.value is None or astq.canon(astq.inline_locals(fn, r.value)) != want]
    rebinds_x = astq.assigned_in(fn, x)
    by_ok = all(isinstance(n, ast.AugAssign) and isinstance(n.op, ast.Mult) and astq.canon(n.value) == "%s.freq" % x
                for n in ast.walk(fn) if isinstance(n, (ast.Assign, ast.AugAssign)) and by in
                [dotted(t) for t in (n.targets if isinstance(n, ast.Assign) else [n.target])])
    if not other and not rebinds_x and by_ok:
        ctx.ok(rule, c, "every path returns x + by (by rescaled by x.freq for timestamps)", loc)
    else:
        ctx.undecided(rule, c, "a path of _shift does not return `x + by` (%s): whether it equals label arithmetic on every index type "
                      "(e.g. periods with a multiplied frequency) depends on pandas and is not decided here"
                      % (ast.unparse(other[0].value)[:80] if other and other[0].value is not None else "rebinding"),
                      ctx.loc(mod, other[0]) if other else loc)


def check_set_fh_stores(ctx, repo, rule, cls_name="_OptionalForecastingHorizonMixin"):
    """(H1) a horizon passed to predict/fit must replace the stored one on every accepting path."""
    cls = repo.cls(SKT + ":" + cls_name)
    fn = cls.methods.get("_set_fh")
    if fn is None:
        raise AnalysisError("%s._set_fh missing" % cls_name)
    loc = ctx.loc(cls.module, fn)
    c = "%s._set_fh:stores-new-horizon" % cls_name
    old, new = FHV(Vec("fh_old"), True), FHV(Vec("fh"), True)
    guards = []

    def hooks(interp, frame, call, fname, a, kw, st):
        simple = (fname or "").split(".")[-1]
        if simple == "check_fh":
            return a[0] if a else kw.get("fh")
        ext = interp.ext_name(fname, frame)
        if ext and (old in a or new in a):
            guards.append(ext)
            return Opq("compare:" + ext, a)
        return NotImplemented

    it = AInterp(repo, scenario={}, hooks=hooks, no_inline=("check_fh",))
    selfv = SelfV(cls, {"_fh": old, "_is_fitted": K(True)})
    it.self_attrs["is_fitted"] = K(True)
    traces, _ = it.run_function(Frame(cls.module, fn, cls, cls), {"self": selfv, "fh": new}, State())
    kept = []
    n_ok = 0
    for s_, o in traces:
        if o[0] == "raise":
            continue
        cur = s_.heap.get((id(selfv), "_fh"), old) if hasattr(s_, "heap") else selfv.attrs.get("_fh")
        if cur is new or cur == new:
            n_ok += 1
        else:
            kept.append(cur)
    if not kept and n_ok:
        ctx.ok(rule, c, "a horizon that is passed replaces the stored one on every accepting path", loc)
    elif kept and any(g in ("numpy.array_equal", "numpy.array_equiv", "numpy.allclose") for g in guards):
        ctx.violation(rule, c, "the stored horizon is kept when %s(new, old) holds: that compares the values only, so an absolute horizon "
                      "with the numbers of the stored relative one (or vice versa) is ignored and predict uses the stale horizon"
                      % guards[0], loc, witness={"history": "predict(fh=[12, 13]); predict(fh=ForecastingHorizon([12, 13], is_relative=False))",
                                                 "stored_after_second_call": "relative [12, 13]"})
    else:
        ctx.undecided(rule, c, "on some accepting path the stored horizon is not replaced by the one passed (%r)" % (kept[:1],), loc)


# ------------------------------------------------------------------------------- R5
def rule_dispatch(ctx, repo):
    mod = repo.module(RED)
    fn = repo.func(RED, "_get_forecaster")
    loc = ctx.loc(mod, fn)
    # the universe of (scitype, strategy) pairs is what the concrete reducer classes declare; the lookup is *interpreted* for
    # every pair (nested dicts, tuple-keyed tables, module-level tables, if-chains all come out the same)
    base_cls = repo.cls(RED + ":_Reducer")
    declared = {}
    for k_ in repo.subclasses(base_cls):
        if k_.module is not mod or "_estimator_scitype" not in k_.class_attrs:
            continue
        a_, b_ = scitype_of(repo, k_), strategy_of(repo, k_)
        if a_ is None or b_ is None:
            continue
        declared.setdefault((a_, b_), []).append(k_)
    classes = []
    scitypes = {a_ for a_, b_ in declared}
    strategies = {b_ for a_, b_ in declared}
    if not declared:
        ctx.undecided("R5", "_get_forecaster:registry", "no concrete reducer class declares _estimator_scitype / strategy", loc)
        return []
    pnames = astq.param_names(fn)
    for a_ in sorted(scitypes):
        for b_ in sorted(strategies):
            c = "_get_forecaster:registry[%s][%s]" % (a_, b_)
            want = declared.get((a_, b_), [])
            if len(want) != 1:
                ctx.check(False if not want else None, "R5", c, "", "%d reducer classes declare (%s, %s)" % (len(want), a_, b_), loc)
                continue
            it_ = AInterp(repo, scenario={})
            try:
                tr, _ = it_.run_function(Frame(mod, fn), {"scitype": K(a_), "strategy": K(b_)} if set(pnames) >= {"scitype", "strategy"} else
                                         dict(zip(pnames, [K(a_), K(b_)])), State())
            except AnalysisError as e_:
                ctx.undecided("R5", c, str(e_), loc)
                continue
            rets_ = [o[1] for s_, o in tr if o[0] == "return"]
            other = [o for s_, o in tr if o[0] != "return"]
            got = None
            if len(rets_) == 1 and not other and isinstance(rets_[0], Opq) and rets_[0].tag.startswith("global:"):
                d_ = rets_[0].tag[len("global:"):]
                got = [k2 for k2 in repo.classes.values() if (k2.module.name + "." + k2.name) == d_]
                got = got[0] if got else None
            if got is None:
                ctx.check(False if (other and not rets_ and all(o[0] == "raise" for o in other)) else None, "R5", c, "",
                          "the lookup for (%s, %s) %s" % (a_, b_, "fails (no entry)" if other and not rets_ else "returns %r" % (rets_,)), loc)
                continue
            classes.append(want[0])
            ctx.check(got is want[0], "R5", c, "%s has _estimator_scitype=%r, strategy=%r" % (got.name, a_, b_),
                      "the lookup maps (%s, %s) to %s whose class attributes are _estimator_scitype=%r, strategy=%r"
                      % (a_, b_, got.name, scitype_of(repo, got), strategy_of(repo, got)), loc,
                      witness={"key": [a_, b_], "class": got.name})
    full = all((a_, b_) in declared for a_ in scitypes for b_ in strategies)
    ctx.check(full, "R5", "_get_forecaster:registry-complete", "every (scitype, strategy) pair has a reducer class",
              "the declared (scitype, strategy) pairs are not a full product", loc)
    # validators and inference, decided by interpreting them on every candidate value (no syntactic shape is assumed)
    def run_on(fname, value, hooks=None):
        f = repo.func(RED, fname)
        it_ = AInterp(repo, scenario={}, hooks=hooks)
        tr, _ = it_.run_function(Frame(mod, f), {astq.param_names(f)[0]: value}, State())
        return f, [o[1] for s_, o in tr if o[0] == "return"], [1 for s_, o in tr if o[0] == "raise"], [1 for s_, o in tr if o[0] == "fall"]

    for nm, valid, what in (("_check_scitype", scitypes | {"infer"}, "scitypes"), ("_check_strategy", strategies, "strategies")):
        accepted, rejected, unclear, changed = set(), set(), set(), {}
        f_ = repo.func(RED, nm)
        for v in sorted(valid) + ["no-such-value"]:
            f_, rets_, raises_, falls_ = run_on(nm, K(v))
            if rets_ and not raises_ and not falls_:
                accepted.add(v)
                if any(r != K(v) for r in rets_):
                    changed[v] = rets_
            elif raises_ and not rets_ and not falls_:
                rejected.add(v)
            elif falls_ and not rets_ and not raises_:
                accepted.add(v)
                changed[v] = [K(None)]
            else:
                unclear.add(v)
        locv = ctx.loc(mod, f_)
        if unclear:
            ctx.undecided("R5", nm + ":table", "cannot decide whether %r are accepted" % sorted(unclear), locv)
        else:
            ctx.check(accepted == valid, "R5", nm + ":table", "accepted %s == registry keys%s" % (what, " + 'infer'" if nm == "_check_scitype" else ""),
                      "accepted %s %r vs registry keys %r" % (what, sorted(accepted), sorted(valid)), locv,
                      witness={"accepted": sorted(accepted), "expected": sorted(valid)})
        ctx.check(not changed if not unclear else None, "R5", nm + ":identity", "validator returns its argument unchanged",
                  "validator does not return its argument unchanged: %r" % ({k: repr(v) for k, v in changed.items()},), locv)

    f3 = repo.func(RED, "_infer_scitype")
    loc3 = ctx.loc(mod, f3)
    kinds = {"time-series regressor only": (True, False, TSR), "time-series regressor that is also an sklearn RegressorMixin": (True, True, TSR),
             "tabular regressor": (False, True, TAB), "neither": (False, False, None)}
    for kind, (is_ts, is_tab, want_) in kinds.items():
        def hk_inf(interp, frame, call, fname, args, kwargs, st, is_ts=is_ts, is_tab=is_tab):
            if interp.ext_name(fname, frame) == "builtins.isinstance" and len(args) == 2:
                cands = args[1].items if isinstance(args[1], Tup) else [args[1]]
                res = []
                for c_ in cands:
                    d_ = c_.tag if isinstance(c_, Opq) else ""
                    if d_.endswith("regression.base.BaseRegressor"):
                        res.append(is_ts)
                    elif d_.endswith("sklearn.base.RegressorMixin"):
                        res.append(is_tab)
                    else:
                        return Opq("isinstance", args)
                return K(any(res))
            return NotImplemented

        _, rets_, raises_, falls_ = run_on("_infer_scitype", Opq("param:estimator"), hk_inf)
        c_ = "_infer_scitype[%s]" % kind
        if want_ is None:
            ctx.check(True if (raises_ and not rets_ and not falls_) else (False if (rets_ or falls_) and not raises_ else None), "R5", c_,
                      "an estimator that is neither kind is rejected", "an estimator that is neither a time-series nor a tabular regressor is "
                      "not rejected (returns %r)" % (rets_,), loc3)
        elif raises_ or falls_ or len(set(map(repr, rets_))) != 1 or not all(isinstance(r, K) for r in rets_):
            ctx.check(False if (raises_ and not rets_) else None, "R5", c_, "", "inference for a %s does not return one scitype (returns %r, raises: %s)"
                      % (kind, rets_, bool(raises_)), loc3)
        else:
            ctx.check(rets_[0] == K(want_), "R5", c_, "a %s is inferred as %s" % (kind, want_),
                      "a %s is inferred as %r instead of %r (sktime's own TimeSeriesForestRegressor inherits from both)" % (kind, rets_[0].v, want_)
                      if is_ts and is_tab else "a %s is inferred as %r instead of %r" % (kind, rets_[0].v, want_), loc3,
                      witness={"estimator": kind, "inferred": rets_[0].v, "expected": want_})
    # make_reduction: validators precede the lookup, arguments keep their roles, estimator and window_length forwarded
    mr = repo.func(RED, "make_reduction")
    rec = Rec()
    it = make_interp(repo, rec, False)
    seen = {}

    def hk(interp, frame, call, fname, args, kwargs, st, _base=make_hooks(rec, False)):
        simple = (fname or "").split(".")[-1]
        if simple in ("_check_strategy", "_check_scitype", "_infer_scitype", "_get_forecaster"):
            b = astq.bind_call(repo.func(RED, simple), call)
            vals = {}
            if b is not None:
                for p_, e_ in b.items():
                    if isinstance(e_, ast.AST):
                        vals[p_] = interp.ev(e_, st, frame)
            seen.setdefault(simple, []).append(vals)
            if simple == "_check_strategy":
                return Opq("validated-strategy", [vals.get("strategy")])
            if simple == "_check_scitype":
                return Opq("validated-scitype", [vals.get("scitype")])
            if simple == "_infer_scitype":
                return Opq("inferred-scitype", [vals.get("estimator")])
            return Opq("Forecaster")
        return _base(interp, frame, call, fname, args, kwargs, st)

    it.hooks = hk
    it.no_inline |= {"_check_strategy", "_check_scitype", "_infer_scitype", "_get_forecaster"}
    P = {p: Opq("param:" + p) for p in astq.param_names(mr)}
    traces, fst = it.run_function(Frame(mod, mr), dict(P), State())
    locm = ctx.loc(mod, mr)
    gets = seen.get("_get_forecaster", [])
    good = None
    if gets:
        good = True
        for g in gets:
            s_, t_ = g.get("scitype"), g.get("strategy")
            ok_s = isinstance(s_, Opq) and ((s_.tag == "validated-scitype" and s_.args[0] == P.get("scitype")) or
                                           (s_.tag == "inferred-scitype" and s_.args[0] == P.get("estimator")))
            ok_t = isinstance(t_, Opq) and t_.tag == "validated-strategy" and t_.args[0] == P.get("strategy")
            good = good and ok_s and ok_t
    ctx.check(good, "R5", "make_reduction:lookup-arguments",
              "the registry is indexed with the validated (or inferred) scitype and the validated strategy, in their roles",
              "the registry lookup receives %r" % (gets,), locm)
    inferred = [g for g in gets if isinstance(g.get("scitype"), Opq) and g["scitype"].tag == "inferred-scitype"]
    infs = seen.get("_infer_scitype", [])
    ctx.check((bool(inferred) and bool(infs) and all(i.get("estimator") == P.get("estimator") for i in infs)) if gets else None,
              "R5", "make_reduction:infer-resolved", "scitype='infer' is resolved from the estimator before the lookup",
              "the registry is never indexed with a scitype inferred from the estimator ('infer' is not a registry key)", locm)
    # per scenario, with the validators taken as identities (instances :identity above): which scitype indexes the registry
    for given in ["infer"] + sorted(scitypes):
        seen_s = []
        built = []

        def hk2(interp, frame, call, fname, args, kwargs, st, _base=make_hooks(rec, False)):
            simple = (fname or "").split(".")[-1]
            # construction of the selected class: Forecaster(...) with Forecaster the value of the lookup
            f_ = call.func
            callee = st.env.get(f_.id) if isinstance(f_, ast.Name) else (interp.ev(f_, st, frame) if isinstance(f_, ast.Call) else None)
            if isinstance(callee, Opq) and callee.tag == "Forecaster":
                initp = astq.param_names(repo.func(RED, "_Reducer.__init__"), skip_self=True)
                bound = dict(zip(initp, args))
                bound.update(kwargs)
                built.append(bound)
                return Opq("reduction-forecaster")
            if simple in ("_check_strategy", "_check_scitype", "_infer_scitype", "_get_forecaster"):
                b = astq.bind_call(repo.func(RED, simple), call)
                vals = {p_: interp.ev(e_, st, frame) for p_, e_ in (b or {}).items() if isinstance(e_, ast.AST)}
                if simple == "_check_strategy":
                    return vals.get("strategy", Opq("?"))
                if simple == "_check_scitype":
                    return vals.get("scitype", Opq("?"))
                if simple == "_infer_scitype":
                    return Opq("inferred-scitype", [vals.get("estimator")])
                seen_s.append(vals)
                return Opq("Forecaster")
            return _base(interp, frame, call, fname, args, kwargs, st)

        it_s = make_interp(repo, rec, False)
        it_s.hooks = hk2
        it_s.no_inline |= {"_check_strategy", "_check_scitype", "_infer_scitype", "_get_forecaster"}
        Ps = dict(P)
        Ps["scitype"] = K(given)
        Ps["strategy"] = K("recursive")
        it_s.run_function(Frame(mod, mr), Ps, State())
        c_ = "make_reduction[scitype=%s]:registry-key" % given
        if not seen_s:
            ctx.undecided("R5", c_, "no registry lookup reached under this scenario", locm)
            continue
        keys = [g.get("scitype") for g in seen_s]
        if given == "infer":
            good = all(isinstance(k_, Opq) and k_.tag == "inferred-scitype" and k_.args and k_.args[0] == P.get("estimator") for k_ in keys)
            ctx.check(good, "R5", c_, "scitype='infer' is replaced by the scitype inferred from the estimator",
                      "with scitype='infer' the registry is indexed with %r" % (keys,), locm)
        else:
            good = all(k_ == K(given) for k_ in keys)
            ctx.check(good if all(isinstance(k_, (K, Opq)) for k_ in keys) else None, "R5", c_,
                      "an explicitly given scitype indexes the registry unchanged",
                      "an explicitly given scitype %r is replaced by %r before the lookup (the caller's choice is ignored, e.g. a "
                      "time-series regressor requested as tabular-regressor)" % (given, keys), locm,
                      witness={"scitype": given, "registry_key": repr(keys)})
        # what the selected class is constructed with, on this path
        c2 = "make_reduction[scitype=%s]:forwarding" % given
        if not built:
            ctx.undecided("R5", c2, "no construction of the selected class is interpretable under this scenario", locm)
        else:
            bad = [b_ for b_ in built if b_.get("estimator") != P.get("estimator") or b_.get("window_length") != P.get("window_length")]
            ctx.check(not bad, "R5", c2, "estimator and window_length are forwarded unchanged to the selected class",
                      "the selected class is constructed with estimator=%r, window_length=%r instead of the caller's arguments"
                      % ((bad[0].get("estimator"), bad[0].get("window_length")) if bad else ("", "")), locm,
                      witness={"call": "make_reduction(reg, window_length=5, scitype=%r)" % given,
                               "window_length_used": repr(bad[0].get("window_length", "class default")) if bad else None})
    return classes


def run(ctx):
    repo = ctx.repo
    ctx.explain("C05: abstract interpretation of _sliding_window_transform, of fit/_predict_last_window of the eight reducer "
                "classes (per scitype, with and without exogenous data) and of _get_last_window over an index-map array "
                "domain (buffers filled by slice stores, views, gathers, concatenations, row-wise flattening); obligations "
                "are cell identities proved symbolically for all sizes from the guards on the trace; violations carry a "
                "concrete feasible instance as witness; registry/validator/class-attribute tables compared (R5).")
    ctx.assume("numpy slice assignment, basic/advanced indexing, reshape(k, -1) row-major, expand_dims, concatenate, column_stack as documented")
    ctx.assume("pandas .loc[a:b] on a sorted integer-like index is an inclusive label slice; _shift(x, by) == x + by on integer labels")
    ctx.assume("ForecastingHorizon: to_relative/to_indexer(relative) == steps - 1, values sorted and distinct (C02)")
    ctx.assume("sklearn.base.clone returns an unfitted copy; what the wrapped regressor does with its input is not decided")
    classes = rule_dispatch(ctx, repo)
    check_fh_models(ctx, repo, "R1", which=("to_indexer",))
    check_shift_model(ctx, repo, "R3")
    check_set_fh_stores(ctx, repo, "R4")
    rule_r1(ctx, repo)
    rule_last_window(ctx, repo)
    rule_reducers(ctx, repo, classes)
    # instance counts on commit 132f3d5 (+ fix 7857d98): R1 54, R2 184, R3 80, R4 124, R5 19
    ctx.floor("R1", 48)
    ctx.floor("R2", 150)
    ctx.floor("R3", 70)
    ctx.floor("R4", 110)
    ctx.floor("R5", 19)
