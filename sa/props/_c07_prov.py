"""E6 -- role / provenance dataflow (used by C07 and C08).

A small structured abstract interpreter over function ASTs.  Values are *provenance terms*
(``T``): parameters, attribute reads, subscripts, calls with resolved callees, tuples / dicts,
loop elements, loop-carried values, joins.  Repo-local helpers, closures and ``self`` methods
are inlined (bounded depth) according to a policy supplied by the rule module.  While
interpreting, every call / ``self.attr`` store / raise / return is recorded as an ``Event`` with

* the path condition (list of ``(test term, branch)``) under which it executes,
* the set of event *kinds* that were passed on **every** path to it (must-set; the kinds are
  assigned by the rule module's ``classify`` callback), and per-iteration counters,
* the comprehension / loop contexts it is evaluated in.

Rules are predicates over these events and terms; nothing here looks at source text, line
numbers or local variable names.
"""
import ast
import builtins as _bi

from ..index import AnalysisError, ClassInfo, dotted
from .. import astq

BUILTINS = set(dir(_bi))


# ----------------------------------------------------------------------------- terms
class T:
    """Immutable provenance term.  Equality is structural on (op, a); ``node`` (originating AST
    node) and ``ctx`` (loop contexts active at evaluation) are annotations only."""

    __slots__ = ("op", "a", "node", "ctx", "_h")

    def __init__(self, op, *a, node=None, ctx=()):
        self.op = op
        self.a = a
        self.node = node
        self.ctx = ctx
        self._h = hash((op, a))

    def __eq__(self, o):
        return isinstance(o, T) and self._h == o._h and self.op == o.op and self.a == o.a

    def __ne__(self, o):
        return not self.__eq__(o)

    def __hash__(self):
        return self._h

    def __repr__(self):
        return show(self)

    def at(self, node, ctx):
        return T(self.op, *self.a, node=node, ctx=ctx)


def P(name):
    return T("param", name)


def C(v):
    return T("const", type(v).__name__, v)


NONE = C(None)


def is_const(t, *vals):
    if not (isinstance(t, T) and t.op == "const"):
        return False
    if not vals:
        return True
    return any(type(v).__name__ == t.a[0] and v == t.a[1] for v in vals)


def cval(t):
    return t.a[1]


def attr(base, name, node=None, ctx=()):
    return T("attr", base, name, node=node, ctx=ctx)


def sub(base, idx, node=None, ctx=()):
    return T("sub", base, idx, node=node, ctx=ctx)


def fn(dotted_name):
    return T("fn", dotted_name)


def call(callee, args=(), kwargs=(), node=None, ctx=()):
    kw = tuple(sorted(dict(kwargs).items())) if not isinstance(kwargs, tuple) else tuple(sorted(kwargs))
    return T("call", callee, tuple(args), kw, node=node, ctx=ctx)


def mcall(recv, name, args=(), kwargs=()):
    return call(attr(recv, name), args, kwargs)


def tup(*items):
    return T("tuple", tuple(items))


def phi(alts):
    flat = []
    for x in alts:
        if isinstance(x, T) and x.op == "phi":
            flat.extend(x.a[0])
        else:
            flat.append(x)
    uniq = []
    for x in flat:
        if x not in uniq:
            uniq.append(x)
    if len(uniq) == 1:
        return uniq[0]
    return T("phi", tuple(sorted(uniq, key=repr)))


def arms(t):
    """Alternatives of a join (``phi``) or of a conditional value (``ifexp``), else None."""
    if isinstance(t, T) and t.op == "phi":
        return list(t.a[0])
    if isinstance(t, T) and t.op == "ifexp":
        return [t.a[1], t.a[2]]
    return None


def map_arms(t, f):
    """Apply ``f`` to every alternative of a join / conditional value, keeping its shape."""
    if isinstance(t, T) and t.op == "phi":
        return phi([f(x) for x in t.a[0]])
    if isinstance(t, T) and t.op == "ifexp":
        a, b = f(t.a[1]), f(t.a[2])
        return a if a == b else T("ifexp", t.a[0], a, b)
    return f(t)


def is_call(t, callee=None):
    return isinstance(t, T) and t.op == "call" and (callee is None or t.a[0] == callee)


def is_mcall(t, name=None, recv=None):
    if not (isinstance(t, T) and t.op == "call" and isinstance(t.a[0], T) and t.a[0].op == "attr"):
        return False
    if name is not None and t.a[0].a[1] != name:
        return False
    if recv is not None and t.a[0].a[0] != recv:
        return False
    return True


def call_args(t):
    return list(t.a[1]), dict(t.a[2])


def subterms(t):
    """All sub-terms of ``t`` (pre-order, including ``t``)."""
    out = []
    stack = [t]
    while stack:
        x = stack.pop()
        if isinstance(x, T):
            out.append(x)
            stack.extend(x.a)
        elif isinstance(x, tuple):
            stack.extend(x)
    return out


def contains(t, needle):
    return any(x == needle for x in subterms(t))


def show(t, depth=0):
    if not isinstance(t, T):
        if isinstance(t, tuple):
            return "(" + ", ".join(show(x, depth + 1) for x in t) + ")"
        return repr(t)
    if depth > 7:
        return "..."
    d = depth + 1
    op, a = t.op, t.a
    if op == "param":
        return a[0]
    if op == "const":
        return repr(a[1])
    if op == "attr":
        return "%s.%s" % (show(a[0], d), a[1])
    if op == "sub":
        return "%s[%s]" % (show(a[0], d), show(a[1], d))
    if op == "fn":
        return a[0].rsplit(".", 1)[-1] if a[0].startswith("builtins.") else a[0]
    if op == "call":
        parts = [show(x, d) for x in a[1]] + ["%s=%s" % (k, show(v, d)) for k, v in a[2]]
        return "%s(%s)" % (show(a[0], d), ", ".join(parts))
    if op == "tuple":
        return "(" + ", ".join(show(x, d) for x in a[0]) + ")"
    if op == "list":
        return "[" + ", ".join(show(x, d) for x in a[0]) + "]"
    if op == "dict":
        return "{" + ", ".join("%s: %s" % (show(k, d), show(v, d)) for k, v in a[0]) + "}"
    if op == "phi":
        return "phi(" + " | ".join(show(x, d) for x in a[0]) + ")"
    if op == "elem":
        return "elem(%s)" % show(a[0], d)
    if op == "enumidx":
        return "enumidx(%s, start=%s)" % (show(a[0], d), show(a[1], d))
    if op == "item":
        return "%s<%s>" % (show(a[0], d), a[1])
    if op == "slice":
        return ":".join("" if x is None else show(x, d) for x in a)
    if op == "cat":
        return "cat(" + " + ".join(show(x, d) for x in a[0]) + ")"
    if op == "withparams":
        return "%s.set_params(**%s)" % (show(a[0], d), show(a[1], d))
    if op == "setcol":
        return "%s{[%s]=%s}" % (show(a[0], d), show(a[1], d), show(a[2], d))
    if op in ("binop", "cmp"):
        return "(%s %s %s)" % (show(a[1], d), a[0], show(a[2], d))
    if op == "unop":
        return "(%s %s)" % (a[0], show(a[1], d))
    if op == "boolop":
        return "(" + (" %s " % a[0]).join(show(x, d) for x in a[1]) + ")"
    if op == "ifexp":
        return "(%s if %s else %s)" % (show(a[1], d), show(a[0], d), show(a[2], d))
    if op == "carried":
        return "carried(%s)" % a[0]
    if op == "loopout":
        return "loopout(%s)" % a[0]
    if op == "map":
        return "[%s for %s]" % (show(a[0], d), show(a[1], d))
    return "%s(%s)" % (op, ", ".join(show(x, d) for x in a))


# ----------------------------------------------------------------------------- events / state
class Event:
    __slots__ = ("kind", "node", "callee", "args", "kwargs", "term", "pc", "must", "cnt", "ctxs", "stack",
                 "seq", "attr", "frame", "inlined", "kinds")

    def __init__(self, kind, node, **kw):
        self.kind = kind
        self.node = node
        self.callee = self.term = self.attr = self.frame = None
        self.args, self.kwargs = [], {}
        self.pc, self.must, self.cnt, self.ctxs, self.stack = (), frozenset(), {}, (), ()
        self.seq = 0
        self.inlined = False
        self.kinds = ()
        for k, v in kw.items():
            setattr(self, k, v)

    def __repr__(self):
        return "<ev#%d %s %s>" % (self.seq, self.kind, show(self.callee if self.callee is not None else self.term))


class State:
    __slots__ = ("env", "heap", "pc", "must", "cnt", "ctxs")

    def __init__(self, env=None, heap=None, pc=(), must=frozenset(), cnt=None, ctxs=()):
        self.env = dict(env or {})
        self.heap = dict(heap or {})
        self.pc = tuple(pc)
        self.must = frozenset(must)
        self.cnt = dict(cnt or {})
        self.ctxs = tuple(ctxs)

    def copy(self):
        return State(self.env, self.heap, self.pc, self.must, self.cnt, self.ctxs)


UNBOUND = T("unbound")


def _has_unbound(t):
    return isinstance(t, T) and t.op == "phi" and UNBOUND in t.a[0]


def join_states(states, pc):
    states = [s for s in states if s is not None]
    if not states:
        return None
    if len(states) == 1:
        s = states[0].copy()
        return s
    out = State(pc=merge_pcs([s.pc for s in states]), ctxs=states[0].ctxs)
    for field in ("env", "heap"):
        keys = []
        for s in states:
            for k in getattr(s, field):
                if k not in keys:
                    keys.append(k)
        d = getattr(out, field)
        for k in keys:
            d[k] = phi([getattr(s, field).get(k, UNBOUND) for s in states])
    out.must = frozenset.intersection(*[s.must for s in states])
    kinds = set()
    for s in states:
        kinds.update(s.cnt)
    for k in kinds:
        lo = min(s.cnt.get(k, (0, 0))[0] for s in states)
        hi = max(s.cnt.get(k, (0, 0))[1] for s in states)
        out.cnt[k] = (lo, hi)
    return out


class Frame:
    def __init__(self, module, fn_node, cls=None, defcls=None, depth=0, stack=(), parent_env=None):
        self.module, self.fn, self.cls, self.defcls = module, fn_node, cls, defcls
        self.depth = depth
        self.stack = stack  # call nodes from the root function down to this activation
        self.parent_env = parent_env  # closure environment (dict) or None
        self.returns = []  # (State, term)
        self.raises = []  # (State, term)


class Loop:
    def __init__(self, lid, node, it, frame):
        self.id, self.node, self.iter, self.frame = lid, node, it, frame
        self.ends = []  # States at the end of one iteration (fall-through and continue)
        self.breaks = []
        self.entry_pc = ()
        self.kind = "for"


class Closure:
    def __init__(self, fn_node, env, frame):
        self.fn, self.env, self.frame = fn_node, env, frame


class Result:
    def __init__(self, interp, frame):
        self.events = interp.events
        self.loops = interp.loops
        self.unsupported = interp.unsupported
        self.returns = frame.returns
        self.raises = frame.raises

    def ret_term(self):
        return phi([t for _, t in self.returns]) if self.returns else None


# ----------------------------------------------------------------------------- interpreter
class Interp:
    def __init__(self, repo, policy=None, classify=None, decide=None, hooks=None, max_depth=4):
        self.repo = repo
        self.policy = policy or (lambda kind, name, target, frame: False)
        self.classify = classify or (lambda ev: ())
        self.decide_cb = decide
        self.hooks = hooks
        self.max_depth = max_depth
        self.events = []
        self.loops = {}
        self.unsupported = []  # (node, why)
        self.closures = {}
        self.fnmap = {}  # dotted -> ('func', module, FunctionDef) | ('class', ClassInfo)
        self._seq = 0
        self._lid = 0

    # ------------------------------------------------------------------ entry
    def run(self, module, fn_node, args, cls=None, defcls=None, heap=None):
        fr = Frame(module, fn_node, cls, defcls)
        st = State(env=args, heap=heap)
        # parameters of the root function stay symbolic (their defaults are one possible value only)
        for p in astq.all_param_names(fn_node):
            st.env.setdefault(p, P(p))
        if fn_node.args.kwarg is not None:
            st.env.setdefault(fn_node.args.kwarg.arg, T("kwargs", fn_node.args.kwarg.arg))
        if fn_node.args.vararg is not None:
            st.env.setdefault(fn_node.args.vararg.arg, T("varargs", fn_node.args.vararg.arg))
        end = self.block(fn_node.body, st, fr)
        if end is not None:
            self._ret(end, NONE, fr, fn_node)
        return Result(self, fr)

    # ------------------------------------------------------------------ events
    def emit(self, kind, node, st, fr, **kw):
        self._seq += 1
        ev = Event(kind, node, pc=st.pc, must=st.must, cnt=dict(st.cnt), ctxs=st.ctxs, stack=fr.stack,
                   seq=self._seq, frame=fr, **kw)
        self.events.append(ev)
        return ev

    def settle(self, ev, st):
        """Assign kinds (rule callback) after the event's own term is known; update must/counters."""
        kinds = tuple(self.classify(ev) or ())
        ev.kinds = kinds
        if kinds:
            st.must = st.must | frozenset(kinds)
            for k in kinds:
                lo, hi = st.cnt.get(k, (0, 0))
                st.cnt[k] = (lo + 1, hi + 1)

    def _ret(self, st, term, fr, node):
        ev = self.emit("return", node, st, fr, term=term)
        self.settle(ev, st)
        fr.returns.append((st, term))

    # ------------------------------------------------------------------ statements
    def block(self, stmts, st, fr):
        for s in stmts:
            if st is None:
                return None
            st = self.stmt(s, st, fr)
        return st

    def stmt(self, s, st, fr):
        if isinstance(s, ast.Expr):
            if isinstance(s.value, ast.Constant):
                return st
            v = self.ev(s.value, st, fr)
            self._mutation_rebind(s.value, v, st, fr)
            return st
        if isinstance(s, ast.Assign):
            v = self.ev(s.value, st, fr)
            for t in s.targets:
                self.assign(t, v, st, fr, s)
            return st
        if isinstance(s, ast.AnnAssign):
            if s.value is not None:
                self.assign(s.target, self.ev(s.value, st, fr), st, fr, s)
            return st
        if isinstance(s, ast.AugAssign):
            cur = self.ev(_load(s.target), st, fr)
            v = T("binop", type(s.op).__name__, cur, self.ev(s.value, st, fr), node=s, ctx=st.ctxs)
            self.assign(s.target, v, st, fr, s)
            return st
        if isinstance(s, ast.Return):
            v = self.ev(s.value, st, fr) if s.value is not None else NONE
            self._ret(st, v, fr, s)
            return None
        if isinstance(s, ast.Raise):
            v = self.ev(s.exc, st, fr) if s.exc is not None else T("reraise")
            ev = self.emit("raise", s, st, fr, term=v)
            self.settle(ev, st)
            fr.raises.append((st, v))
            return None
        if isinstance(s, ast.If):
            return self.if_(s, st, fr)
        if isinstance(s, (ast.For, ast.AsyncFor)):
            return self.for_(s, st, fr)
        if isinstance(s, ast.While):
            return self.while_(s, st, fr)
        if isinstance(s, (ast.FunctionDef, ast.AsyncFunctionDef)):
            cid = len(self.closures)
            cenv = dict(fr.parent_env or {})
            cenv.update(st.env)
            self.closures[cid] = Closure(s, cenv, fr)
            self._check_closure_capture(s, fr)
            st.env[s.name] = T("closure", cid, s.name)
            return st
        if isinstance(s, ast.Pass):
            return st
        if isinstance(s, ast.Assert):
            self.ev(s.test, st, fr)
            return st
        if isinstance(s, (ast.Import, ast.ImportFrom)):
            self._local_import(s, st, fr)
            return st
        if isinstance(s, ast.With):
            for it in s.items:
                v = self.ev(it.context_expr, st, fr)
                if it.optional_vars is not None:
                    self.assign(it.optional_vars, T("entered", v), st, fr, s)
            return self.block(s.body, st, fr)
        if isinstance(s, ast.Continue):
            lp = self._cur_loop(st, fr)
            if lp is None:
                self.unsupported.append((s, "continue outside an interpreted loop"))
            else:
                lp.ends.append(st)
            return None
        if isinstance(s, ast.Break):
            lp = self._cur_loop(st, fr)
            if lp is None:
                self.unsupported.append((s, "break outside an interpreted loop"))
            else:
                lp.breaks.append(st)
            return None
        if isinstance(s, ast.Delete):
            for t in s.targets:
                if isinstance(t, ast.Name):
                    st.env[t.id] = UNBOUND
            return st
        self.unsupported.append((s, "statement kind %s is not interpreted" % type(s).__name__))
        if isinstance(s, ast.Try):
            # best effort so that later rules still see the events; the run is marked unsupported
            st = self.block(s.body, st, fr)
            if st is not None and s.orelse:
                st = self.block(s.orelse, st, fr)
            if st is not None and s.finalbody:
                st = self.block(s.finalbody, st, fr)
            return st
        return st

    def while_(self, s, st, fr):
        """``while test: body`` -- like a for loop over an unknown number of iterations: names assigned in the body are
        loop-carried, the body is interpreted once under the test, the state after the loop joins zero and more iterations."""
        self._lid += 1
        lid = self._lid
        lp = Loop(lid, s, T("while", lid), fr)
        lp.kind = "while"
        lp.entry_pc = st.pc
        self.loops[lid] = lp
        pre = st
        body = st.copy()
        body.ctxs = st.ctxs + (lid,)
        body.cnt = {}
        assigned, heap_assigned = _assigned_names(s.body)
        for nm in assigned:
            if nm in body.env and body.env[nm] != UNBOUND:
                body.env[nm] = T("carried", nm, body.env[nm], lid)
            else:
                # a local first bound inside the body: a read before the write sees the previous iteration's value
                # (or raises NameError in the first iteration) - never a module-level name
                body.env[nm] = T("carried", nm, UNBOUND, lid)
        for nm in heap_assigned:
            if nm in body.heap:
                body.heap[nm] = T("carried", "self." + nm, body.heap[nm], lid)
        t = self.ev(s.test, body, fr)
        if not (is_const(t) and cval(t)):
            body.pc = body.pc + ((t, True),)
        end = self.block(s.body, body, fr)
        if end is not None:
            lp.ends.append(end)
        out = pre.copy()
        ends = join_states(lp.ends + lp.breaks, pre.pc)
        if ends is not None:
            for nm in assigned:
                if nm in ends.env:
                    out.env[nm] = T("loopout", nm, pre.env.get(nm, UNBOUND), ends.env[nm], lid)
            for nm in heap_assigned:
                if nm in ends.heap:
                    out.heap[nm] = T("loopout", "self." + nm, pre.heap.get(nm, UNBOUND), ends.heap[nm], lid)
        if s.orelse:
            out = self.block(s.orelse, out, fr)
        return out

    def _cur_loop(self, st, fr):
        for lid in reversed(st.ctxs):
            lp = self.loops.get(lid)
            if lp is not None and lp.kind in ("for", "while") and lp.frame is fr:
                return lp
        return None

    def _local_import(self, s, st, fr):
        if isinstance(s, ast.ImportFrom):
            base = fr.module._abs(s.level, s.module)
            for a in s.names:
                if a.name == "*":
                    continue
                st.env[a.asname or a.name] = self._sym_term(self.repo._resolve_abs(base + "." + a.name), base + "." + a.name)
        else:
            for a in s.names:
                nm = a.asname or a.name.split(".")[0]
                st.env[nm] = fn(a.name if a.asname else a.name.split(".")[0])

    def _check_closure_capture(self, fdef, fr):
        """A closure is inlined with the environment of its definition point; that is only right
        when none of its free variables is re-bound later in the enclosing function."""
        free = {n.id for n in ast.walk(fdef) if isinstance(n, ast.Name) and isinstance(n.ctx, ast.Load)}
        local = {n.id for n in ast.walk(fdef) if isinstance(n, ast.Name) and isinstance(n.ctx, ast.Store)}
        local |= set(astq.all_param_names(fdef))
        free -= local
        after = False
        for n in _stmts_in_order(fr.fn):
            if n is fdef:
                after = True
                continue
            if after:
                for x in astq.walk_no_nested(n):
                    if isinstance(x, ast.Name) and isinstance(x.ctx, ast.Store) and x.id in free:
                        self.unsupported.append((x, "free variable %r of closure %s is re-bound after the definition"
                                                 % (x.id, fdef.name)))

    def _mutation_rebind(self, expr, value, st, fr):
        """``x.set_params(**p)`` as a statement mutates ``x``: re-bind the receiver."""
        if isinstance(value, T) and value.op == "withparams" and isinstance(expr, ast.Call) \
                and isinstance(expr.func, ast.Attribute):
            r = expr.func.value
            if isinstance(r, ast.Name) or astq.is_self_attr(r):
                self.assign(_store(r), value, st, fr, expr)
        elif is_mcall(value, "append") and isinstance(expr, ast.Call) and isinstance(expr.func, ast.Attribute) \
                and isinstance(expr.func.value, ast.Name) and len(value.a[1]) == 1 and not value.a[2]:
            # ``rows.append(x)`` as a statement on a local list mutates it
            recv = value.a[0].a[0]
            core = recv
            while isinstance(core, T) and core.op in ("carried", "appended"):
                core = core.a[1] if core.op == "carried" else core.a[0]
            if isinstance(core, T) and core.op == "list":
                st.env[expr.func.value.id] = T("appended", recv, value.a[1][0], node=expr, ctx=st.ctxs)
        elif is_mcall(value) and value.a[0].a[1] in ("extend", "append") and isinstance(expr, ast.Call) \
                and isinstance(expr.func, ast.Attribute) and len(value.a[1]) == 1 and not value.a[2] \
                and (astq.is_self_attr(expr.func.value) or (isinstance(expr.func.value, ast.Name) and value.a[0].a[1] == "extend")):
            # ``self.acc.extend(xs)`` / ``self.acc.append(x)`` / ``acc.extend(xs)`` as a statement mutates the accumulator
            recv = value.a[0].a[0]
            new_ = T("extended" if value.a[0].a[1] == "extend" else "appended", recv, value.a[1][0], node=expr, ctx=st.ctxs)
            if astq.is_self_attr(expr.func.value):
                st.heap[expr.func.value.attr] = new_
            else:
                core = recv
                while isinstance(core, T) and core.op in ("carried", "appended", "extended"):
                    core = core.a[1] if core.op == "carried" else core.a[0]
                if isinstance(core, T) and core.op in ("list", "call"):
                    st.env[expr.func.value.id] = new_

    def assign(self, target, v, st, fr, stmt):
        if isinstance(target, ast.Name):
            st.env[target.id] = v
        elif isinstance(target, (ast.Tuple, ast.List)):
            n = len(target.elts)
            if any(isinstance(e, ast.Starred) for e in target.elts):
                self.unsupported.append((target, "starred unpacking"))
                for e in target.elts:
                    self.assign(e.value if isinstance(e, ast.Starred) else e, T("unknown", "starred"), st, fr, stmt)
                return
            if isinstance(v, T) and v.op in ("tuple", "list") and len(v.a[0]) == n:
                parts = list(v.a[0])
            elif arms(v) is not None and all(isinstance(x, T) and x.op in ("tuple", "list") and len(x.a[0]) == n for x in arms(v)):
                parts = [map_arms(v, lambda x, i=i: x.a[0][i]) for i in range(n)]
            else:
                parts = [T("item", v, i, node=stmt, ctx=st.ctxs) for i in range(n)]
            for e, p in zip(target.elts, parts):
                self.assign(e, p, st, fr, stmt)
        elif isinstance(target, ast.Attribute):
            base = self.ev(target.value, st, fr)
            if base == P("self"):
                st.heap[target.attr] = v
                ev = self.emit("store", stmt, st, fr, attr=target.attr, term=v)
                self.settle(ev, st)
            else:
                ev = self.emit("attrstore", stmt, st, fr, attr=target.attr, term=v, callee=base)
                self.settle(ev, st)
        elif isinstance(target, ast.Subscript):
            key = self.ev(target.slice, st, fr)
            if isinstance(target.value, ast.Name):
                old = self.ev(target.value, st, fr)
                st.env[target.value.id] = T("setcol", old, key, v, node=stmt, ctx=st.ctxs)
            elif astq.is_self_attr(target.value):
                old = self.ev(target.value, st, fr)
                st.heap[target.value.attr] = T("setcol", old, key, v, node=stmt, ctx=st.ctxs)
            else:
                base = self.ev(target.value, st, fr)
                ev = self.emit("substore", stmt, st, fr, callee=base, term=v, args=[key])
                self.settle(ev, st)
        elif isinstance(target, ast.Starred):
            self.assign(target.value, v, st, fr, stmt)

    def decide(self, t, st):
        if is_const(t):
            return bool(cval(t))
        if isinstance(t, T) and t.op == "unop" and t.a[0] == "Not":
            d = self.decide(t.a[1], st)
            return None if d is None else (not d)
        if isinstance(t, T) and t.op == "cmp" and t.a[0] in ("Is", "IsNot") and is_const(t.a[1]) and is_const(t.a[2]):
            same = t.a[1] == t.a[2]
            return same if t.a[0] == "Is" else not same
        for tt, br in st.pc:
            if tt == t:
                return br
        if self.decide_cb is not None:
            return self.decide_cb(t, st)
        return None

    def if_(self, s, st, fr):
        t = self.ev(s.test, st, fr)
        d = self.decide(t, st)
        if d is True:
            return self.block(s.body, st, fr)
        if d is False:
            return self.block(s.orelse, st, fr)
        pc0 = st.pc
        a = st.copy()
        a.pc = pc0 + ((t, True),)
        b = st.copy()
        b.pc = pc0 + ((t, False),)
        a = self.block(s.body, a, fr)
        b = self.block(s.orelse, b, fr)
        if a is not None and b is not None:
            j = join_states([a, b], pc0)
            # values that differ between the two branches keep their condition (conditional value instead of an anonymous join)
            for field in ("env", "heap"):
                da, db, dj = getattr(a, field), getattr(b, field), getattr(j, field)
                for k in dj:
                    # an attribute of self that one branch does not store keeps its value from before the call
                    missing = attr(P("self"), k) if field == "heap" else UNBOUND
                    va, vb = da.get(k, missing), db.get(k, missing)
                    if va != vb and va != UNBOUND and vb != UNBOUND and not _has_unbound(va) and not _has_unbound(vb):
                        dj[k] = T("ifexp", t, va, vb)
            return j
        return a if a is not None else b

    def for_(self, s, st, fr):
        it = self.ev(s.iter, st, fr)
        self._lid += 1
        lid = self._lid
        lp = Loop(lid, s, it, fr)
        lp.entry_pc = st.pc
        self.loops[lid] = lp
        pre = st
        body = st.copy()
        body.ctxs = st.ctxs + (lid,)
        body.cnt = {}
        assigned, heap_assigned = _assigned_names(s.body)
        for nm in assigned:
            if nm in body.env and body.env[nm] != UNBOUND:
                body.env[nm] = T("carried", nm, body.env[nm], lid)
            else:
                # a local first bound inside the body: a read before the write sees the previous iteration's value
                # (or raises NameError in the first iteration) - never a module-level name
                body.env[nm] = T("carried", nm, UNBOUND, lid)
        for nm in heap_assigned:
            if nm in body.heap:
                body.heap[nm] = T("carried", "self." + nm, body.heap[nm], lid)
        self.bind_iter(s.target, it, body, fr, s, lid)
        end = self.block(s.body, body, fr)
        if end is not None:
            lp.ends.append(end)
        out = pre.copy()
        ends = join_states(lp.ends + lp.breaks, pre.pc)
        if ends is not None:
            for nm in assigned:
                if nm in ends.env:
                    out.env[nm] = T("loopout", nm, pre.env.get(nm, UNBOUND), ends.env[nm], lid)
            for nm in heap_assigned:
                if nm in ends.heap:
                    out.heap[nm] = T("loopout", "self." + nm, pre.heap.get(nm, UNBOUND), ends.heap[nm], lid)
        if s.orelse:
            out = self.block(s.orelse, out, fr)
        return out

    def bind_iter(self, target, it, st, fr, node, lid):
        """Bind a loop / comprehension target from the iterable term."""
        core = it
        if is_call(core, fn("builtins.enumerate")):
            args, kw = call_args(core)
            start = kw.get("start", args[1] if len(args) > 1 else C(0))
            inner = args[0] if args else T("unknown", "enumerate()")
            if isinstance(target, (ast.Tuple, ast.List)) and len(target.elts) == 2:
                self.assign(target.elts[0], T("enumidx", strip_list(inner), start, lid), st, fr, node)
                self.assign(target.elts[1], T("elem", strip_list(inner), lid), st, fr, node)
                return
        if is_call(core, fn("builtins.zip")):
            args, _ = call_args(core)
            if isinstance(target, (ast.Tuple, ast.List)) and len(target.elts) == len(args):
                for e, a in zip(target.elts, args):
                    self.assign(e, T("elem", strip_list(a), lid), st, fr, node)
                return
        self.assign(target, T("elem", strip_list(core), lid), st, fr, node)

    # ------------------------------------------------------------------ expressions
    def ev(self, e, st, fr):
        m = getattr(self, "ev_" + type(e).__name__, None)
        if m is None:
            return T("unknown", type(e).__name__, node=e, ctx=st.ctxs)
        return m(e, st, fr)

    def ev_Constant(self, e, st, fr):
        return C(e.value)

    def ev_Name(self, e, st, fr):
        if e.id in st.env:
            return st.env[e.id]
        if fr.parent_env is not None and e.id in fr.parent_env:
            return fr.parent_env[e.id]
        sym = self.repo.resolve_name(fr.module, e.id)
        if sym is not None:
            return self._sym_term(sym, e.id, fr)
        if e.id in BUILTINS:
            return fn("builtins." + e.id)
        return T("global", e.id)

    def _sym_term(self, sym, name, fr=None):
        if sym is None:
            return T("global", name)
        if sym.kind == "func":
            self.fnmap[sym.dotted] = ("func", sym.module, sym.target)
            return fn(sym.dotted)
        if sym.kind == "class":
            d = sym.target.module.name + "." + sym.target.name
            self.fnmap[d] = ("class", sym.target)
            return fn(d)
        if sym.kind in ("ext", "module"):
            return fn(sym.dotted)
        if sym.kind == "const":
            node = sym.target
            if isinstance(node, ast.Constant):
                return C(node.value)
            if isinstance(node, (ast.Tuple, ast.List)) and all(isinstance(x, ast.Constant) for x in node.elts):
                return T("tuple" if isinstance(node, ast.Tuple) else "list", tuple(C(x.value) for x in node.elts))
            return T("modconst", sym.dotted)
        if sym.kind == "classattr":
            k, nm = sym.target
            return attr(fn(k.module.name + "." + k.name), nm)
        return T("global", name)

    def ev_Attribute(self, e, st, fr):
        d = dotted(e)
        if d is not None:
            head = d.split(".")[0]
            if head not in st.env and not self._in_closure_env(head, fr):
                sym = self.repo.resolve_dotted(fr.module, d)
                if sym is not None:
                    return self._sym_term(sym, d, fr)
        base = self.ev(e.value, st, fr)
        if base == P("self") and e.attr in st.heap:
            return st.heap[e.attr]
        if isinstance(base, T) and base.op == "param" and base.a[0] != "self" and isinstance(e.ctx, ast.Load):
            rd = self.emit("read", e, st, fr, callee=base, attr=e.attr, term=attr(base, e.attr))
            self.settle(rd, st)
        if isinstance(base, T) and base.op == "fn" and base.a[0] in self.fnmap and self.fnmap[base.a[0]][0] == "class":
            return attr(base, e.attr, node=e, ctx=st.ctxs)
        if isinstance(base, T) and base.op == "fn":
            return fn(base.a[0] + "." + e.attr)
        return attr(base, e.attr, node=e, ctx=st.ctxs)

    def _in_closure_env(self, name, fr):
        return fr.parent_env is not None and name in fr.parent_env

    def ev_Subscript(self, e, st, fr):
        base = self.ev(e.value, st, fr)
        idx = self.ev(e.slice, st, fr)
        if isinstance(base, T) and base.op in ("tuple", "list") and is_const(idx) and isinstance(cval(idx), int) \
                and -len(base.a[0]) <= cval(idx) < len(base.a[0]):
            return base.a[0][cval(idx)]
        if isinstance(base, T) and base.op == "elem" and is_const(idx) and isinstance(cval(idx), int) \
                and not isinstance(cval(idx), bool) and cval(idx) >= 0:
            return T("item", base, cval(idx), node=e, ctx=st.ctxs)
        return sub(base, idx, node=e, ctx=st.ctxs)

    def ev_Index(self, e, st, fr):  # py3.8
        return self.ev(e.value, st, fr)

    def ev_Slice(self, e, st, fr):
        return T("slice", *[self.ev(x, st, fr) if x is not None else None for x in (e.lower, e.upper, e.step)])

    def ev_Tuple(self, e, st, fr):
        return T("tuple", tuple(self._elts(e.elts, st, fr)), node=e, ctx=st.ctxs)

    def ev_List(self, e, st, fr):
        return T("list", tuple(self._elts(e.elts, st, fr)), node=e, ctx=st.ctxs)

    def ev_Set(self, e, st, fr):
        return T("set", tuple(self._elts(e.elts, st, fr)), node=e, ctx=st.ctxs)

    def _elts(self, elts, st, fr):
        out = []
        for x in elts:
            if isinstance(x, ast.Starred):
                out.append(T("star", self.ev(x.value, st, fr)))
            else:
                out.append(self.ev(x, st, fr))
        return out

    def ev_Dict(self, e, st, fr):
        items = []
        for k, v in zip(e.keys, e.values):
            items.append((self.ev(k, st, fr) if k is not None else T("spread"), self.ev(v, st, fr)))
        return T("dict", tuple(items), node=e, ctx=st.ctxs)

    def ev_BinOp(self, e, st, fr):
        a, b = self.ev(e.left, st, fr), self.ev(e.right, st, fr)
        if isinstance(e.op, ast.Add):
            c = cat_of(a, b)
            if c is not None:
                return c
        if isinstance(e.op, ast.Mod) and is_const(a) and isinstance(cval(a), str):
            c = fmt_percent(cval(a), b)
            if c is not None:
                return c
        return T("binop", type(e.op).__name__, a, b, node=e, ctx=st.ctxs)

    def ev_UnaryOp(self, e, st, fr):
        v = self.ev(e.operand, st, fr)
        if isinstance(e.op, ast.USub) and is_const(v) and isinstance(cval(v), (int, float)) and not isinstance(cval(v), bool):
            return C(-cval(v))
        return T("unop", type(e.op).__name__, v, node=e, ctx=st.ctxs)

    def ev_BoolOp(self, e, st, fr):
        return T("boolop", type(e.op).__name__, tuple(self.ev(v, st, fr) for v in e.values), node=e, ctx=st.ctxs)

    def ev_Compare(self, e, st, fr):
        left = self.ev(e.left, st, fr)
        parts = []
        for op, c in zip(e.ops, e.comparators):
            r = self.ev(c, st, fr)
            parts.append(T("cmp", type(op).__name__, left, r, node=e, ctx=st.ctxs))
            left = r
        if len(parts) == 1:
            return parts[0]
        return T("boolop", "And", tuple(parts), node=e, ctx=st.ctxs)

    def ev_IfExp(self, e, st, fr):
        t = self.ev(e.test, st, fr)
        d = self.decide(t, st)
        if d is True:
            return self.ev(e.body, st, fr)
        if d is False:
            return self.ev(e.orelse, st, fr)
        return T("ifexp", t, self.ev(e.body, st, fr), self.ev(e.orelse, st, fr), node=e, ctx=st.ctxs)

    def ev_JoinedStr(self, e, st, fr):
        parts = []
        for v in e.values:
            if isinstance(v, ast.Constant):
                parts.append(C(v.value))
            elif isinstance(v, ast.FormattedValue):
                x = self.ev(v.value, st, fr)
                if v.conversion not in (-1, None) or v.format_spec is not None:
                    x = T("fmt", x, v.conversion, ast.dump(v.format_spec) if v.format_spec is not None else None)
                parts.append(x)
        return make_cat(parts)

    def ev_FormattedValue(self, e, st, fr):
        return self.ev(e.value, st, fr)

    def ev_Lambda(self, e, st, fr):
        return T("lambda", id(e), node=e, ctx=st.ctxs)

    def ev_Starred(self, e, st, fr):
        return T("star", self.ev(e.value, st, fr))

    def ev_NamedExpr(self, e, st, fr):
        v = self.ev(e.value, st, fr)
        self.assign(e.target, v, st, fr, e)
        return v

    def _comp(self, e, elt_fn, st, fr):
        if len(e.generators) != 1 or e.generators[0].is_async:
            self.unsupported.append((e, "nested comprehension"))
            return T("unknown", "comprehension", node=e, ctx=st.ctxs)
        g = e.generators[0]
        it = self.ev(g.iter, st, fr)
        self._lid += 1
        lid = self._lid
        lp = Loop(lid, e, it, fr)
        lp.kind = "comp"
        self.loops[lid] = lp
        inner = st.copy()
        inner.ctxs = st.ctxs + (lid,)
        self.bind_iter(g.target, it, inner, fr, e, lid)
        conds = tuple(self.ev(c, inner, fr) for c in g.ifs)
        body = elt_fn(inner)
        # events inside a comprehension happen once per element: keep must/counters of the outer state
        return T("map", body, T("elem", strip_list(it), lid), conds, lid, node=e, ctx=st.ctxs)

    def ev_GeneratorExp(self, e, st, fr):
        return self._comp(e, lambda s: self.ev(e.elt, s, fr), st, fr)

    def ev_ListComp(self, e, st, fr):
        return self._comp(e, lambda s: self.ev(e.elt, s, fr), st, fr)

    def ev_SetComp(self, e, st, fr):
        return self._comp(e, lambda s: self.ev(e.elt, s, fr), st, fr)

    def ev_DictComp(self, e, st, fr):
        return self._comp(e, lambda s: tup(self.ev(e.key, s, fr), self.ev(e.value, s, fr)), st, fr)

    # ------------------------------------------------------------------ calls
    def ev_Call(self, e, st, fr):
        f = self.ev(e.func, st, fr)
        args = []
        for a in e.args:
            if isinstance(a, ast.Starred):
                args.append(T("star", self.ev(a.value, st, fr)))
            else:
                args.append(self.ev(a, st, fr))
        kwargs = {}
        for k in e.keywords:
            kwargs[k.arg if k.arg is not None else "**"] = self.ev(k.value, st, fr)
        ev = self.emit("call", e, st, fr, callee=f, args=args, kwargs=kwargs)
        res = self.apply(f, args, kwargs, e, st, fr, ev)
        ev.term = res
        self.settle(ev, st)
        return res

    def apply(self, f, args, kwargs, e, st, fr, ev):
        ctx = st.ctxs
        if self.hooks is not None:
            r = self.hooks(self, f, args, kwargs, e, st, fr)
            if r is not NotImplemented:
                return r
        # --- closures
        if isinstance(f, T) and f.op == "closure":
            clo = self.closures[f.a[0]]
            if fr.depth < self.max_depth + 2:
                ev.inlined = True
                return self.inline(clo.frame.module, clo.fn, args, kwargs, e, st, fr, cls=clo.frame.cls,
                                   defcls=clo.frame.defcls, parent_env=clo.env, skip_self=False)
        # --- joblib idioms: delayed(f)(args) == f(args) evaluated by Parallel for every element
        if is_call(f, fn("joblib.delayed")) or is_call(f, fn("joblib.parallel.delayed")):
            inner = f.a[1][0] if f.a[1] else None
            if inner is not None:
                return self.apply(inner, args, kwargs, e, st, fr, ev)
        if isinstance(f, T) and f.op == "call" and isinstance(f.a[0], T) and f.a[0].op == "fn" \
                and f.a[0].a[0] in ("joblib.Parallel", "joblib.parallel.Parallel") and len(args) == 1:
            return args[0]
        if isinstance(f, T) and f.op == "fn":
            name = f.a[0]
            if name == "builtins.list" and len(args) == 1 and not kwargs:
                return T("call", f, (args[0],), (), node=e, ctx=ctx)
            info = self.fnmap.get(name)
            if info is not None and info[0] == "func":
                _, mod, fdef = info
                if fr.depth < self.max_depth and self.policy("func", name, fdef, fr):
                    ev.inlined = True
                    return self.inline(mod, fdef, args, kwargs, e, st, fr, skip_self=False)
            return call(f, args, kwargs, node=e, ctx=ctx)
        # --- methods on self / super()
        if isinstance(f, T) and f.op == "attr":
            recv, name = f.a[0], f.a[1]
            if recv == P("self") and fr.cls is not None:
                hit = self.repo.lookup_method(fr.cls, name)
                if hit is not None and fr.depth < self.max_depth and self.policy("method", name, hit, fr):
                    k, fdef = hit
                    ev.inlined = True
                    a2 = args if fr.cls.is_static(name) or k.is_static(name) else [P("self")] + args
                    return self.inline(k.module, fdef, a2, kwargs, e, st, fr, cls=fr.cls, defcls=k, skip_self=False)
            if is_call(recv, fn("builtins.super")) and fr.cls is not None and fr.defcls is not None:
                hit = self.repo.lookup_method(fr.cls, name, after=fr.defcls)
                if hit is not None and fr.depth < self.max_depth and self.policy("super", name, hit, fr):
                    k, fdef = hit
                    ev.inlined = True
                    return self.inline(k.module, fdef, [P("self")] + args, kwargs, e, st, fr, cls=fr.cls, defcls=k,
                                       skip_self=False)
            if name == "format" and is_const(recv) and isinstance(cval(recv), str) and not kwargs \
                    and not any(isinstance(a, T) and a.op == "star" for a in args):
                c = fmt_braces(cval(recv), args)
                if c is not None and "{" in cval(recv):
                    return c
            if name == "set_params" and not args:
                p = kwargs.get("**") if set(kwargs) == {"**"} else T("dict", tuple((C(k), v) for k, v in sorted(kwargs.items())))
                return T("withparams", recv, p, node=e, ctx=ctx)
        return call(f, args, kwargs, node=e, ctx=ctx)

    def inline(self, module, fdef, args, kwargs, e, st, fr, cls=None, defcls=None, parent_env=None, skip_self=False):
        names = astq.param_names(fdef)
        kwonly = [p.arg for p in fdef.args.kwonlyargs]
        env = {}
        extra_pos, extra_kw = [], {}
        i = 0
        for a in args:
            if isinstance(a, T) and a.op == "star":
                self.unsupported.append((e, "star-argument passed to inlined callee %s" % fdef.name))
                continue
            if i < len(names):
                env[names[i]] = a
            else:
                extra_pos.append(a)
            i += 1
        for k, v in kwargs.items():
            if k == "**":
                if fdef.args.kwarg is not None:
                    extra_kw["**"] = v
                else:
                    self.unsupported.append((e, "**-argument passed to inlined callee %s without **kwargs" % fdef.name))
            elif k in names or k in kwonly:
                env[k] = v
            else:
                extra_kw[k] = v
        sub_fr = Frame(module, fdef, cls, defcls, fr.depth + 1, fr.stack + (e,), parent_env)
        for p, d in astq.param_defaults(fdef).items():
            if p not in env:
                env[p] = self.ev(d, State(ctxs=st.ctxs), Frame(module, fdef, cls, defcls, parent_env=parent_env))
        for p in names + kwonly:
            if p not in env:
                env[p] = T("missing-arg", p)
        if fdef.args.vararg is not None:
            env[fdef.args.vararg.arg] = T("tuple", tuple(extra_pos))
        elif extra_pos:
            self.unsupported.append((e, "too many positional arguments for %s" % fdef.name))
        if fdef.args.kwarg is not None:
            if set(extra_kw) == {"**"}:
                env[fdef.args.kwarg.arg] = extra_kw["**"]
            else:
                env[fdef.args.kwarg.arg] = T("dict", tuple((C(k) if k != "**" else T("spread"), v)
                                                           for k, v in sorted(extra_kw.items())))
        elif extra_kw:
            self.unsupported.append((e, "unexpected keyword argument(s) %s for %s" % (sorted(extra_kw), fdef.name)))
        if astq.is_generator(fdef):
            self.unsupported.append((e, "generator %s is not inlined" % fdef.name))
            return T("unknown", "generator")
        inner = State(env=env, heap=st.heap, pc=st.pc, must=st.must, cnt=st.cnt, ctxs=st.ctxs)
        end = self.block(fdef.body, inner, sub_fr)
        if end is not None:
            self._ret(end, NONE, sub_fr, fdef)
        rets = sub_fr.returns
        if not rets:
            # callee always raises: the caller does not continue on this path
            st.pc = st.pc + ((T("noreturn", fdef.name), True),)
            return T("noreturn", fdef.name)
        j = join_states([s for s, _ in rets], st.pc)
        # propagate the callee's effect on heap / must / counters / path condition to the caller
        st.heap = j.heap
        st.must = j.must
        st.cnt = j.cnt
        st.pc = j.pc
        return phi([t for _, t in rets])


def merge_pcs(pcs):
    """Path condition after a merge: the common prefix plus (when it is not a tautology) the
    disjunction of the remaining suffixes as one ``paths`` atom."""
    pre = _common_prefix(pcs)
    n = len(pre)
    sufs = []
    for p in pcs:
        x = tuple(p[n:])
        if x not in sufs:
            sufs.append(x)
    if any(len(x) == 0 for x in sufs) or len(sufs) < 2:
        return pre
    if len(sufs) == 2 and len(sufs[0]) == 1 and len(sufs[1]) == 1 and sufs[0][0][0] == sufs[1][0][0] \
            and sufs[0][0][1] != sufs[1][0][1]:
        return pre
    return pre + ((T("paths", tuple(sufs)), True),)


def _common_prefix(pcs):
    out = []
    for items in zip(*pcs):
        if all(x == items[0] for x in items):
            out.append(items[0])
        else:
            break
    return tuple(out)


def _load(node):
    import copy
    n = copy.copy(node)
    n.ctx = ast.Load()
    return n


def _store(node):
    import copy
    n = copy.copy(node)
    n.ctx = ast.Store()
    return n


def _stmts_in_order(fn_node):
    out = []

    def rec(stmts):
        for s in stmts:
            out.append(s)
            if isinstance(s, (ast.FunctionDef, ast.AsyncFunctionDef, ast.ClassDef)):
                continue
            for field in ("body", "orelse", "finalbody"):
                sub_ = getattr(s, field, None)
                if isinstance(sub_, list):
                    rec([x for x in sub_ if isinstance(x, ast.stmt)])
            for h in getattr(s, "handlers", []) or []:
                rec(h.body)

    rec(fn_node.body)
    return out


def _assigned_names(stmts):
    names, heap = [], []
    for s in stmts:
        for n in astq.walk_no_nested(s):
            if isinstance(n, ast.Name) and isinstance(n.ctx, (ast.Store, ast.Del)) and n.id not in names:
                names.append(n.id)
            elif isinstance(n, ast.AugAssign) and isinstance(n.target, ast.Name) and n.target.id not in names:
                names.append(n.target.id)
            elif isinstance(n, ast.Subscript) and isinstance(n.ctx, ast.Store):
                if isinstance(n.value, ast.Name) and n.value.id not in names:
                    names.append(n.value.id)
                elif astq.is_self_attr(n.value) and n.value.attr not in heap:
                    heap.append(n.value.attr)
            elif isinstance(n, ast.Attribute) and isinstance(n.ctx, ast.Store) and astq.is_self_attr(n) and n.attr not in heap:
                heap.append(n.attr)
            elif isinstance(n, ast.Call) and isinstance(n.func, ast.Attribute) and n.func.attr in ("set_params", "append", "extend") \
                    and isinstance(n.func.value, ast.Name) and n.func.value.id not in names:
                names.append(n.func.value.id)
            elif isinstance(n, (ast.FunctionDef, ast.AsyncFunctionDef)) and n.name not in names:
                names.append(n.name)
    return names, heap


def strip_list(t):
    """``list(x)`` / ``tuple(x)`` keep elements and order."""
    while is_call(t) and isinstance(t.a[0], T) and t.a[0].op == "fn" and t.a[0].a[0] in ("builtins.list", "builtins.tuple") \
            and len(t.a[1]) == 1 and not t.a[2]:
        t = t.a[1][0]
    return t


# ----------------------------------------------------------------------------- string concatenation normal form
def make_cat(parts):
    flat = []
    for p in parts:
        if isinstance(p, T) and p.op == "cat":
            flat.extend(p.a[0])
        else:
            flat.append(p)
    out = []
    for p in flat:
        if is_const(p) and isinstance(cval(p), str):
            if cval(p) == "":
                continue
            if out and is_const(out[-1]) and isinstance(cval(out[-1]), str):
                out[-1] = C(cval(out[-1]) + cval(p))
                continue
        out.append(p)
    if len(out) == 1 and is_const(out[0]):
        return out[0]
    if not out:
        return C("")
    return T("cat", tuple(out))


def fmt_percent(template, arg):
    """``"mean_%s" % x`` / ``"%s__%s" % (a, b)`` with plain ``%s`` placeholders only -> concatenation normal form."""
    pieces = template.split("%s")
    if "%" in "".join(pieces):
        return None
    args = list(arg.a[0]) if isinstance(arg, T) and arg.op == "tuple" else [arg]
    if len(args) != len(pieces) - 1:
        return None
    parts = []
    for i, pc_ in enumerate(pieces):
        parts.append(C(pc_))
        if i < len(args):
            parts.append(args[i])
    return make_cat(parts)


def fmt_braces(template, args):
    """``"mean_{}".format(x)`` / ``"{0}_{1}".format(a, b)`` with plain positional placeholders only."""
    import re as _re
    parts, pos, auto = [], 0, 0
    for m in _re.finditer(r"\{(\d*)\}", template):
        lit = template[pos:m.start()]
        if "{" in lit or "}" in lit:
            return None
        parts.append(C(lit))
        k = int(m.group(1)) if m.group(1) else auto
        auto += 1
        if k >= len(args):
            return None
        parts.append(args[k])
        pos = m.end()
    tail = template[pos:]
    if "{" in tail or "}" in tail:
        return None
    parts.append(C(tail))
    return make_cat(parts)


def cat_of(a, b):
    def strish(x):
        return (is_const(x) and isinstance(cval(x), str)) or (isinstance(x, T) and x.op == "cat")

    if strish(a) or strish(b):
        return make_cat([a, b])
    return None


# ----------------------------------------------------------------------------- concrete evaluation of conditions
class Undef(Exception):
    pass


def ceval(t, val):
    """Evaluate a condition term concretely under ``val`` (dict term -> python value).
    Raises ``Undef`` when an atom is not covered."""
    if t in val:
        return val[t]
    if not isinstance(t, T):
        raise Undef(t)
    op = t.op
    if op == "const":
        return cval(t)
    if op in ("tuple", "list", "set"):
        return tuple(ceval(x, val) for x in t.a[0])
    if op == "unop":
        v = ceval(t.a[1], val)
        if t.a[0] == "Not":
            return not v
        if t.a[0] == "USub":
            return -v
        if t.a[0] == "Invert":
            return ~v
        raise Undef(t)
    if op == "boolop":
        if t.a[0] == "And":
            r = True
            for x in t.a[1]:
                r = ceval(x, val)
                if not r:
                    return r
            return r
        r = False
        for x in t.a[1]:
            r = ceval(x, val)
            if r:
                return r
        return r
    if op == "cmp":
        o = t.a[0]
        neg = {"IsNot": "Is", "NotEq": "Eq", "NotIn": "In"}
        if o in neg:
            alt = T("cmp", neg[o], t.a[1], t.a[2])
            if alt in val:
                return not val[alt]
        else:
            pos = {v: k for k, v in neg.items()}
            if o in pos:
                alt = T("cmp", pos[o], t.a[1], t.a[2])
                if alt in val:
                    return not val[alt]
        a, b = ceval(t.a[1], val), ceval(t.a[2], val)
        try:
            if o == "Eq":
                return a == b
            if o == "NotEq":
                return a != b
            if o == "Lt":
                return a < b
            if o == "LtE":
                return a <= b
            if o == "Gt":
                return a > b
            if o == "GtE":
                return a >= b
            if o == "Is":
                return a is b if (a is None or b is None or isinstance(a, bool) or isinstance(b, bool)) else a == b
            if o == "IsNot":
                return not (a is b if (a is None or b is None or isinstance(a, bool) or isinstance(b, bool)) else a == b)
            if o == "In":
                return a in b
            if o == "NotIn":
                return a not in b
        except TypeError:
            raise Undef(t)
        raise Undef(t)
    if op == "binop":
        a, b = ceval(t.a[1], val), ceval(t.a[2], val)
        try:
            if t.a[0] == "Add":
                return a + b
            if t.a[0] == "Sub":
                return a - b
            if t.a[0] == "Mult":
                return a * b
            if t.a[0] == "Mod":
                return a % b
        except Exception:
            raise Undef(t)
        raise Undef(t)
    if op == "ifexp":
        return ceval(t.a[1], val) if ceval(t.a[0], val) else ceval(t.a[2], val)
    raise Undef(t)


def pc_holds(pc, val):
    """Does the path condition hold under ``val``?  (Undef propagates.)"""
    for t, br in pc:
        if isinstance(t, T) and t.op == "noreturn":
            return False
        if isinstance(t, T) and t.op == "paths":
            if any(pc_holds(alt, val) for alt in t.a[0]) != br:
                return False
            continue
        if bool(ceval(t, val)) != br:
            return False
    return True


_POS = {"IsNot": "Is", "NotEq": "Eq", "NotIn": "In"}


def free_atoms(pcs, val):
    """Boolean leaves of the path conditions that ``val`` cannot evaluate (opaque atoms, E8)."""
    atoms = []

    def walk(t):
        if not isinstance(t, T):
            return
        if t.op == "boolop":
            for x in t.a[1]:
                walk(x)
        elif t.op == "unop" and t.a[0] == "Not":
            walk(t.a[1])
        elif t.op == "paths":
            for alt in t.a[0]:
                for tt, _ in alt:
                    walk(tt)
        elif t.op == "noreturn":
            return
        else:
            try:
                ceval(t, val)
            except Undef:
                a = T("cmp", _POS[t.a[0]], t.a[1], t.a[2]) if t.op == "cmp" and t.a[0] in _POS else t
                if a not in atoms:
                    atoms.append(a)

    for pc in pcs:
        for t, _ in pc:
            walk(t)
    return atoms


def valuations(pcs, val, limit=8):
    """``val`` extended by every assignment of the opaque Boolean atoms of ``pcs`` (at most 2**limit)."""
    atoms = free_atoms(pcs, val)
    if len(atoms) > limit:
        raise Undef(atoms[limit])
    for mask in range(1 << len(atoms)):
        v = dict(val)
        for i, a in enumerate(atoms):
            v[a] = bool(mask >> i & 1)
        yield v, [(a, v[a]) for a in atoms]


def int_consts(terms):
    out = set()
    for t in terms:
        for x in subterms(t):
            if is_const(x) and isinstance(cval(x), int) and not isinstance(cval(x), bool):
                out.add(cval(x))
    return out


# ----------------------------------------------------------------------------- identity validators
class Validators:
    """Identity summaries of validators: which parameter a validator returns (unchanged).

    ``ident(dotted)`` -> ('param', name) | ('tuple', (name, ...)) | None, computed by interpreting the
    validator (no inlining) and stripping nested identity validators recursively.  A return under the
    path condition ``param is None`` may be a default object (recorded in ``defaults``)."""

    EXTERNAL = {
        # sklearn.model_selection.check_cv returns a splitter object (anything with .split) unchanged
        "sklearn.model_selection.check_cv": ("param", "cv", ["cv", "y", "classifier"]),
        "sklearn.model_selection._split.check_cv": ("param", "cv", ["cv", "y", "classifier"]),
    }

    def __init__(self, repo):
        self.repo = repo
        self.cache = {}
        self.defaults = {}
        self.sigs = {}
        self.busy = set()

    def sig(self, name):
        self.ident(name)
        return self.sigs.get(name)

    def ident(self, name):
        if name in self.cache:
            return self.cache[name]
        if name in self.EXTERNAL:
            kind, p, sig = self.EXTERNAL[name]
            self.sigs[name] = sig
            self.cache[name] = (kind, p)
            return self.cache[name]
        if name in self.busy:
            return None
        head, _, tail = name.rpartition(".")
        mod = self.repo.modules.get(head)
        res = None
        if mod is not None:
            sym = self.repo.resolve_name(mod, tail)
            if sym is not None and sym.kind == "func":
                self.busy.add(name)
                try:
                    res = self._summarise(name, sym.module, sym.target)
                finally:
                    self.busy.discard(name)
        self.cache[name] = res
        return res

    def _summarise(self, name, module, fdef):
        it = Interp(self.repo)
        r = it.run(module, fdef, {})
        if it.unsupported or not r.returns:
            return None
        params = astq.all_param_names(fdef)
        self.sigs[name] = params
        kinds = set()
        for st, term in r.returns:
            core = self.strip(term)
            if isinstance(core, T) and core.op == "param" and core.a[0] in params:
                kinds.add(("param", core.a[0]))
            elif isinstance(core, T) and core.op == "tuple" and all(
                    isinstance(x, T) and x.op == "param" for x in map(self.strip, core.a[0])):
                kinds.add(("tuple", tuple(self.strip(x).a[0] for x in core.a[0])))
            else:
                # a default object is allowed only under `param is None`
                nones = [t.a[1] for t, br in st.pc if br and isinstance(t, T) and t.op == "cmp" and t.a[0] == "Is"
                         and t.a[2] == NONE and isinstance(t.a[1], T) and t.a[1].op == "param"]
                if len(nones) == 1:
                    self.defaults.setdefault(name, []).append((nones[0].a[0], term))
                else:
                    return None
        if len(kinds) != 1:
            return None
        k = kinds.pop()
        if name in self.defaults and (k[0] != "param" or any(p != k[1] for p, _ in self.defaults[name])):
            return None
        return k

    def strip(self, t):
        """Remove identity validators (and joins of equal cores) from the outside of ``t``."""
        while True:
            if arms(t) is not None:
                cores = {self.strip(x) for x in arms(t)}
                if len(cores) == 1:
                    t = cores.pop()
                    continue
                return t
            if isinstance(t, T) and t.op == "tuple":
                return T("tuple", tuple(self.strip(x) for x in t.a[0]))
            if isinstance(t, T) and t.op == "item" and is_call(t.a[0]):
                c = t.a[0]
                if isinstance(c.a[0], T) and c.a[0].op == "fn":
                    k = self.ident(c.a[0].a[0])
                    if k is not None and k[0] == "tuple" and t.a[1] < len(k[1]):
                        a = self.bound(c, k[1][t.a[1]])
                        if a is not None:
                            t = a
                            continue
                return t
            if is_call(t) and isinstance(t.a[0], T) and t.a[0].op == "fn":
                k = self.ident(t.a[0].a[0])
                if k is not None and k[0] == "param":
                    a = self.bound(t, k[1])
                    if a is not None:
                        t = a
                        continue
                if k is not None and k[0] == "tuple":
                    parts = [self.bound(t, p) for p in k[1]]
                    if all(p is not None for p in parts):
                        return T("tuple", tuple(self.strip(p) for p in parts))
                return t
            return t

    def bound(self, c, pname):
        """Actual argument of call term ``c`` bound to parameter ``pname`` of the validator (None if defaulted)."""
        sig = self.sigs.get(c.a[0].a[0])
        if sig is None or pname not in sig:
            return None
        args, kw = call_args(c)
        if pname in kw:
            return kw[pname]
        i = sig.index(pname)
        if i < len(args) and not any(isinstance(a, T) and a.op == "star" for a in args[: i + 1]):
            return args[i]
        return None

    def applied(self, t):
        """Dotted names of the validators wrapped around ``t`` (outermost first)."""
        out = []
        while True:
            if arms(t) is not None:
                subs = [self.applied(x) for x in arms(t)]
                common = [v for v in subs[0] if all(v in s for s in subs[1:])] if subs else []
                return out + common
            c = t.a[0] if isinstance(t, T) and t.op == "item" else t
            if is_call(c) and isinstance(c.a[0], T) and c.a[0].op == "fn":
                name = c.a[0].a[0]
                k = self.ident(name)
                if k is None:
                    return out
                if k[0] == "param":
                    nxt = self.bound(c, k[1])
                elif isinstance(t, T) and t.op == "item" and t.a[1] < len(k[1]):
                    nxt = self.bound(c, k[1][t.a[1]])
                else:
                    return out
                if nxt is None:
                    return out
                out.append((name, c))
                t = nxt
                continue
            return out


def bind_terms(fdef, args, kwargs, skip_self=True):
    """Bind evaluated actuals to the parameters of ``fdef``.  Returns dict param -> term with
    '*' / '**' for unexpanded star arguments, or None when the call cannot be bound."""
    names = astq.param_names(fdef, skip_self)
    kwonly = [p.arg for p in fdef.args.kwonlyargs]
    out = {}
    i = 0
    for a in args:
        if isinstance(a, T) and a.op == "star":
            out["*"] = a.a[0]
            continue
        if i < len(names):
            out[names[i]] = a
        elif fdef.args.vararg is None:
            return None
        i += 1
    items = []
    for k, v in kwargs.items():
        if k == "**" and isinstance(v, T) and v.op == "dict" and all(is_const(kk) and isinstance(cval(kk), str) for kk, _ in v.a[0]):
            items.extend((cval(kk), vv) for kk, vv in v.a[0])  # ``**{"name": x, ...}`` with literal keys
        else:
            items.append((k, v))
    for k, v in items:
        if k == "**":
            out["**"] = v
        elif k in names or k in kwonly:
            if k in out:
                return None
            out[k] = v
        elif fdef.args.kwarg is not None:
            out.setdefault("**extra", {})[k] = v
        else:
            out.setdefault("!unknown", []).append(k)
    return out


def anchor_unsupported(ctx, rule, construct, res, module):
    """Fail closed when the interpreter met a statement / idiom it does not model."""
    for node, why in res.unsupported:
        ctx.undecided(rule, construct + ":interpretable", why, "%s:%s" % (module.relpath, getattr(node, "lineno", "?")))
    return not res.unsupported
