"""C13 -- series transformers: invertible, index preserving, aligned in time (DESIGN 3/C13).

R1 transform / inverse duality   (symbolic normal forms of both methods, compared up to the inverse-operator table)
R2 index provenance of classes tagged transform-returns-same-time-index
R3 phase-reference ownership in the deseasonalizer: (_y_index, seasonal_) are written together
R4 alignment formula of _align_seasonal as a congruence modulo sp
R5 label / position discipline: positions reach user series only through .iloc / numpy
R6 default fit_transform == fit(Z[, X]).transform(Z); overrides agree
"""
import ast
import copy

from ..cfg import CFG
from ..index import AnalysisError, ClassInfo, dotted
from ..lin import Lin
from .. import astq

BOX = "sktime/transformations/series/boxcox.py"
DET = "sktime/transformations/series/detrend/_detrend.py"
DES = "sktime/transformations/series/detrend/_deseasonalize.py"
ADAPT = "sktime/transformations/series/adapt.py"
COMPOSE = "sktime/transformations/series/compose.py"
BASE = "sktime/transformations/base.py"
DATETIME = "sktime/utils/datetime.py"
SEASON = "sktime/utils/seasonality.py"
HAMPEL = "sktime/transformations/series/outlier_detection.py"
IMPUTE = "sktime/transformations/series/impute.py"
ACF = "sktime/transformations/series/acf.py"
COS = "sktime/transformations/series/cos.py"
PIPE = "sktime/forecasting/compose/_pipeline.py"
ANCHORS = [BOX, DET, DES, ADAPT, COMPOSE, BASE, DATETIME, SEASON, HAMPEL, IMPUTE, ACF]
PAIR_FILES = [BOX, DET, DES, ADAPT, COMPOSE, PIPE]
TAG = "transform-returns-same-time-index"

VALIDATORS = {"sktime.utils.validation.series.check_series", "sktime.utils.validation.forecasting.check_y",
              "sktime.utils.validation.forecasting.check_X"}
# inverse-operator table: (transform side, inverse side)
OP_PAIRS = {("Sub", "Add"), ("Div", "Mult")}
FUNC_PAIRS = {("numpy.log", "numpy.exp"), ("scipy.special.boxcox", "scipy.special.inv_boxcox"), ("numpy.log1p", "numpy.expm1"),
              ("numpy.sqrt", "numpy.square"), ("numpy.exp", "numpy.log")}
METHOD_PAIRS = {("transform", "inverse_transform")}


class Undecided(Exception):
    pass


# ====================================================================================== symbolic normal forms


def classes_in(repo, rel):
    m = repo.module(rel)
    return sorted((c for c in repo.classes.values() if c.module is m), key=lambda c: c.node.lineno)


class NF:
    """Symbolic evaluation of a straight-line / branching method body into one expression (an ``ast`` tree):
    locals are substituted, ``if`` becomes IfExp, private helper methods of the receiver are inlined,
    ``x.index = e`` becomes ``__with_index__(x, e)`` and an accumulating ``for`` loop becomes ``__fold__(iter, target, update, init)``.
    """

    def __init__(self, repo, cls, inline_functions=False, max_depth=4):
        self.repo, self.cls, self.inline_functions, self.max_depth = repo, cls, inline_functions, max_depth
        self.effects = []  # expression statements (validation / guard calls) met on the way, substituted

    def method(self, name, args=None, depth=0, after=None):
        hit = self.repo.lookup_method(self.cls, name, after=after)
        if hit is None:
            raise Undecided("method %s not defined in the repository for %s" % (name, self.cls.name))
        k, fn = hit
        return self.function(fn, k.module, k, args, depth, skip_self=not k.is_static(name))

    def function(self, fn, module, defcls, args, depth, skip_self):
        names = astq.param_names(fn, skip_self=skip_self)
        env = {}
        selfname = astq.param_names(fn)[0] if skip_self and astq.param_names(fn) else None
        defaults = astq.param_defaults(fn)
        for p in names + [a.arg for a in fn.args.kwonlyargs]:
            if args is not None and p in args:
                env[p] = args[p]
            elif args is not None and p in defaults:
                env[p] = copy.deepcopy(defaults[p])
            else:
                env[p] = ast.Name(id=p, ctx=ast.Load())
        frame = {"module": module, "defcls": defcls, "self": selfname, "depth": depth, "fn": fn}
        kind, val = self.block(fn.body, env, frame)
        if kind == "ret":
            return val
        if kind == "fall":
            return ast.Constant(value=None)
        raise Undecided("every path of %s raises" % fn.name)

    # ------------------------------------------------------------------ statements
    def block(self, stmts, env, frame):
        for i, st in enumerate(stmts):
            if isinstance(st, ast.Expr):
                if isinstance(st.value, ast.Constant):
                    continue
                self.effects.append(self.subst(st.value, env, frame))
                continue
            if isinstance(st, ast.Pass):
                continue
            if isinstance(st, ast.Return):
                return "ret", (self.subst(st.value, env, frame) if st.value is not None else ast.Constant(value=None))
            if isinstance(st, ast.Raise):
                return "raise", None
            if isinstance(st, (ast.Assign, ast.AnnAssign)):
                targets = st.targets if isinstance(st, ast.Assign) else [st.target]
                if st.value is None:
                    continue
                val = self.subst(st.value, env, frame)
                for t in targets:
                    self.assign(t, val, env, frame)
                continue
            if isinstance(st, ast.If):
                test = self.subst(st.test, env, frame)
                folded = fold_test(test)
                if folded is True:
                    return self.block(list(st.body) + list(stmts[i + 1:]), env, frame)
                if folded is False:
                    return self.block(list(st.orelse) + list(stmts[i + 1:]), env, frame)
                ea, eb = dict(env), dict(env)
                ka, va = self.block(list(st.body) + list(stmts[i + 1:]), ea, frame)
                kb, vb = self.block(list(st.orelse) + list(stmts[i + 1:]), eb, frame)
                if ka == "raise":
                    return kb, vb
                if kb == "raise":
                    return ka, va
                if ka == "ret" and kb == "ret":
                    if astq.canon(va) == astq.canon(vb):
                        return "ret", va
                    return "ret", cond(test, va, vb)
                if ka == "fall" and kb == "fall":
                    for nm in set(ea) | set(eb):
                        a, b = ea.get(nm), eb.get(nm)
                        if a is None or b is None:
                            env[nm] = a if a is not None else b
                        elif astq.canon(a) == astq.canon(b):
                            env[nm] = a
                        else:
                            env[nm] = cond(test, a, b)
                    return "fall", None
                raise Undecided("a branch returns while its sibling falls off the end")
            if isinstance(st, ast.For):
                self.loop(st, env, frame)
                continue
            if isinstance(st, (ast.FunctionDef, ast.Import, ast.ImportFrom, ast.Assert)):
                continue
            raise Undecided("statement kind %s not supported by the normal-form evaluator" % type(st).__name__)
        return "fall", None

    def assign(self, t, val, env, frame):
        if isinstance(t, ast.Name):
            env[t.id] = val
        elif isinstance(t, ast.Attribute) and isinstance(t.value, ast.Name) and t.value.id == frame["self"]:
            env["self." + t.attr] = val
        elif isinstance(t, ast.Attribute) and isinstance(t.value, ast.Name) and t.value.id in env and t.attr in ("index", "columns", "name"):
            env[t.value.id] = ast.Call(func=ast.Name(id="__with_%s__" % t.attr, ctx=ast.Load()), args=[env[t.value.id], val], keywords=[])
        elif isinstance(t, (ast.Tuple, ast.List)):
            for j, e in enumerate(t.elts):
                if isinstance(val, (ast.Tuple, ast.List)) and len(val.elts) == len(t.elts) and not any(isinstance(x, ast.Starred) for x in val.elts):
                    self.assign(e, val.elts[j], env, frame)
                elif isinstance(val, ast.IfExp) and all(isinstance(a_, (ast.Tuple, ast.List)) and len(a_.elts) == len(t.elts)
                                                        for a_ in (val.body, val.orelse)):
                    self.assign(e, cond(val.test, val.body.elts[j], val.orelse.elts[j]), env, frame)
                else:
                    self.assign(e, ast.Subscript(value=val, slice=ast.Constant(value=j), ctx=ast.Load()), env, frame)
        elif isinstance(t, ast.Subscript):
            root = t.value
            while isinstance(root, (ast.Attribute, ast.Subscript)):
                root = root.value
            if isinstance(root, ast.Name) and root.id in env:
                env[root.id] = ast.Call(func=ast.Name(id="__updated__", ctx=ast.Load()),
                                        args=[env[root.id], self.subst(t.slice, env, frame), val], keywords=[])
        else:
            raise Undecided("assignment target not supported")

    def loop(self, st, env, frame):
        assigned = []
        for n in astq.walk_no_nested(ast.Module(body=st.body, type_ignores=[])):
            if isinstance(n, ast.Name) and isinstance(n.ctx, ast.Store) and n.id not in assigned:
                assigned.append(n.id)
        it = self.subst(st.iter, env, frame)
        inner = dict(env)
        tnames = [n.id for n in ast.walk(st.target) if isinstance(n, ast.Name)]
        for nm in tnames:
            inner[nm] = ast.Name(id=nm, ctx=ast.Load())
        for nm in assigned:
            if nm in env:
                inner[nm] = ast.Name(id=nm, ctx=ast.Load())
        kind, _ = self.block(st.body, inner, frame)
        if kind != "fall":
            raise Undecided("loop body leaves the loop")
        for nm in assigned:
            if nm in tnames:
                continue
            init = env.get(nm, ast.Constant(value=None))
            env[nm] = ast.Call(func=ast.Name(id="__fold__", ctx=ast.Load()),
                               args=[it, copy.deepcopy(st.target), inner[nm], init], keywords=[])

    # ------------------------------------------------------------------ expressions
    def subst(self, expr, env, frame):
        me = self

        class S(ast.NodeTransformer):
            def visit_Name(self, node):
                if isinstance(node.ctx, ast.Load) and node.id in env and node.id != frame["self"]:
                    return copy.deepcopy(env[node.id])
                return node

            def visit_Attribute(self, node):
                if isinstance(node.value, ast.Name) and node.value.id == frame["self"] and ("self." + node.attr) in env:
                    return copy.deepcopy(env["self." + node.attr])
                return self.generic_visit(node)

            def visit_Lambda(self, node):
                return node

            def visit_IfExp(self, node):
                node = self.generic_visit(node)
                f_ = fold_test(node.test)
                if f_ is True:
                    return node.body
                if f_ is False:
                    return node.orelse
                return cond(node.test, node.body, node.orelse)

            def visit_Call(self, node):
                node = self.generic_visit(node)
                return me.inline(node, frame) or node

        out = S().visit(copy.deepcopy(expr))
        if frame["self"] and frame["self"] != "self":
            out = rename_self(out, frame["self"])
        return out

    def inline(self, call, frame):
        if frame["depth"] >= self.max_depth or any(isinstance(a, ast.Starred) for a in call.args) or any(k.arg is None for k in call.keywords):
            return None
        f = call.func
        if isinstance(f, ast.Attribute) and isinstance(f.value, ast.Name) and f.value.id == "self" and f.attr.startswith("_") \
                and not f.attr.startswith("__"):
            hit = self.repo.lookup_method(self.cls, f.attr)
            if hit is None:
                return None
            k, fn = hit
            if astq.is_generator(fn):
                return None
            b = astq.bind_call(fn, call, skip_self=not k.is_static(f.attr))
            if b is None or any(x in b for x in ("*", "**", "*extra", "**extra", "!unknown")):
                return None
            sub = NF(self.repo, self.cls, self.inline_functions, self.max_depth)
            try:
                val = sub.function(fn, k.module, k, b, frame["depth"] + 1, skip_self=not k.is_static(f.attr))
            except Undecided:
                return None
            self.effects.extend(sub.effects)
            return val
        if self.inline_functions and isinstance(f, ast.Name):
            sym = self.repo.resolve_name(frame["module"], f.id)
            if sym is not None and sym.kind == "func" and sym.module.relpath in ANCHORS:
                b = astq.bind_call(sym.target, call)
                if b is None or any(x in b for x in ("*", "**", "*extra", "**extra", "!unknown")):
                    return None
                sub = NF(self.repo, self.cls, self.inline_functions, self.max_depth)
                try:
                    return sub.function(sym.target, sym.module, None, b, frame["depth"] + 1, skip_self=False)
                except Undecided:
                    return None
        return None


_FLIP = {ast.Eq: ast.NotEq, ast.NotEq: ast.Eq, ast.Lt: ast.GtE, ast.GtE: ast.Lt, ast.Gt: ast.LtE, ast.LtE: ast.Gt,
         ast.Is: ast.IsNot, ast.IsNot: ast.Is, ast.In: ast.NotIn, ast.NotIn: ast.In}


def negate(t):
    """structural negation: not not x = x, flipped comparators, De Morgan"""
    if isinstance(t, ast.UnaryOp) and isinstance(t.op, ast.Not):
        return t.operand
    if isinstance(t, ast.Compare) and len(t.ops) == 1 and type(t.ops[0]) in _FLIP:
        return ast.Compare(left=t.left, ops=[_FLIP[type(t.ops[0])]()], comparators=t.comparators)
    if isinstance(t, ast.BoolOp):
        return ast.BoolOp(op=ast.Or() if isinstance(t.op, ast.And) else ast.And(), values=[negate(v) for v in t.values])
    return ast.UnaryOp(op=ast.Not(), operand=t)


def _mirror(t):
    """a > b  ==  b < a : put comparisons into one orientation"""
    class M(ast.NodeTransformer):
        def visit_Compare(self, node):
            node = self.generic_visit(node)
            if len(node.ops) == 1 and isinstance(node.ops[0], (ast.Gt, ast.GtE)):
                op = ast.Lt() if isinstance(node.ops[0], ast.Gt) else ast.LtE()
                return ast.Compare(left=node.comparators[0], ops=[op], comparators=[node.left])
            return node
    return M().visit(copy.deepcopy(t))


def cond(test, a, b):
    """conditional value with a canonical polarity of the test (so `if c: A else: B` == `if not c: B else: A`)"""
    t1, t2 = _mirror(test), _mirror(negate(test))
    if astq.canon(t2) < astq.canon(t1):
        return ast.IfExp(test=t2, body=b, orelse=a)
    return ast.IfExp(test=t1, body=a, orelse=b)


def rename_self(expr, selfname):
    class R(ast.NodeTransformer):
        def visit_Name(self, node):
            if node.id == selfname:
                return ast.Name(id="self", ctx=node.ctx)
            return node

    return R().visit(expr)


def fold_test(test):
    """decide `<expr> is None` / `is not None` tests on literal operands"""
    if isinstance(test, ast.Compare) and len(test.ops) == 1 and isinstance(test.ops[0], (ast.Is, ast.IsNot)):
        a, b = test.left, test.comparators[0]
        if isinstance(b, ast.Constant) and b.value is None:
            if isinstance(a, ast.Constant):
                r = a.value is None
            elif isinstance(a, (ast.Attribute, ast.Call, ast.BinOp, ast.Subscript)) and not (
                    isinstance(a, ast.Attribute) and isinstance(a.value, ast.Name) and a.value.id == "self"):
                r = False  # an index / computed value is not the literal None
            else:
                return None
            return r if isinstance(test.ops[0], ast.Is) else (not r)
    return None


# ====================================================================================== R1


LIB_SIGNATURES = {"pandas.Series": ["data", "index", "dtype", "name"], "pandas.DataFrame": ["data", "index", "columns", "dtype"],
                  "numpy.roll": ["a", "shift", "axis"], "numpy.resize": ["a", "new_shape"]}


class Duality:
    def __init__(self, repo, module, cls=None, data=None):
        self.repo, self.module, self.cls, self.data = repo, module, cls, data
        self.problems = []
        self.pairs = []

    def ext(self, node):
        d = dotted(node)
        if not d:
            return None
        sym = self.repo.resolve_dotted(self.module, d)
        return sym.dotted if sym is not None and sym.kind in ("ext", "func") else None

    def same(self, a, b):
        return astq.canon(a) == astq.canon(b)

    def cmp(self, a, b, where="value"):
        """walk both normal forms; record operator swaps in self.pairs and every other difference in self.problems"""
        if self.same(a, b):
            return
        if isinstance(a, ast.IfExp) and isinstance(b, ast.IfExp):
            if not self.same(a.test, b.test):
                self.problems.append("branch conditions differ: `%s` vs `%s`" % (ast.unparse(a.test), ast.unparse(b.test)))
                return
            self.cmp(a.body, b.body, where + "[%s]" % ast.unparse(a.test))
            self.cmp(a.orelse, b.orelse, where + "[not %s]" % ast.unparse(a.test))
            return
        if isinstance(a, ast.BinOp) and isinstance(b, ast.BinOp):
            oa, ob = type(a.op).__name__, type(b.op).__name__
            if oa == ob:
                self.cmp(a.left, b.left, where)
                self.cmp(a.right, b.right, where)
                return
            self.pairs.append((where, "operator", oa, ob, (oa, ob) in OP_PAIRS))
            # z - s is undone by z + s, but s - z is its own inverse (s - (s - z) = z): the data must be the left operand of - and /
            if (oa, ob) in OP_PAIRS and self.data is not None:
                def has_data(e_):  # the operand *is* the (validated) input series
                    return isinstance(e_, ast.Name) and e_.id == self.data
                if has_data(a.right) and not has_data(a.left):
                    self.problems.append("transform computes `%s` (the data is the right operand of %s); that operation is its own inverse and is "
                                         "not undone by `%s`" % (ast.unparse(a)[:70], "-" if oa == "Sub" else "/", ast.unparse(b)[:70]))
                    return
            orders = [((a.left, b.left), (a.right, b.right))]
            if isinstance(b.op, (ast.Add, ast.Mult)):
                orders.append(((a.left, b.right), (a.right, b.left)))
            best = None
            for order in orders:
                trial = Duality(self.repo, self.module, self.cls, self.data)
                for x, y in order:
                    trial.cmp(x, y, where)
                if not trial.problems and not trial.pairs:
                    return
                if best is None:
                    best = trial
            self.problems.append("operands of `%s` and of its inverse `%s` differ%s" % (
                ast.unparse(a), ast.unparse(b), (": " + "; ".join(best.problems[:2])) if best is not None and best.problems else ""))
            return
        if isinstance(a, ast.Call) and isinstance(b, ast.Call):
            fa, fb = a.func, b.func
            if not self.same(fa, fb):
                ea, eb = self.ext(fa), self.ext(fb)
                if ea and eb:
                    self.pairs.append((where, "function", ea, eb, (ea, eb) in FUNC_PAIRS))
                elif isinstance(fa, ast.Attribute) and isinstance(fb, ast.Attribute) and self.same(fa.value, fb.value):
                    self.pairs.append((where, "method", fa.attr, fb.attr, (fa.attr, fb.attr) in METHOD_PAIRS))
                else:
                    self.problems.append("different callees `%s` vs `%s`" % (ast.unparse(fa), ast.unparse(fb)))
                    return
            ka, kb = self.bound(a), self.bound(b)
            # the exogenous X handed through to a wrapped transformer's transform / inverse_transform may be omitted on one side
            # (DESIGN A.3: `transformer_.inverse_transform(z, ...)`); everywhere else (e.g. forecaster_.predict(fh, X)) arguments must agree
            wrapped = isinstance(fa, ast.Attribute) and isinstance(fb, ast.Attribute) and (fa.attr, fb.attr) in METHOD_PAIRS
            for nm in sorted(set(ka) | set(kb), key=str):
                self.cmp_arg(ka.get(nm), kb.get(nm), where, "argument %s" % nm, nm, tolerate_exo=wrapped)
            return
        if isinstance(a, ast.Attribute) and isinstance(b, ast.Attribute) and a.attr == b.attr:
            self.cmp(a.value, b.value, where)
            return
        if isinstance(a, ast.Subscript) and isinstance(b, ast.Subscript):
            self.cmp(a.value, b.value, where)
            self.cmp(a.slice, b.slice, where)
            return
        self.problems.append("`%s` (transform) vs `%s` (inverse)" % (ast.unparse(a)[:80], ast.unparse(b)[:80]))

    def bound(self, call):
        """arguments by formal parameter name (repo callees: their signature; tabled library callees), else by position"""
        names = None
        d = dotted(call.func)
        sym = self.repo.resolve_dotted(self.module, d) if d else None
        if sym is not None and sym.kind == "func":
            names = astq.param_names(sym.target)
        elif sym is not None and sym.kind == "class" and "__init__" in sym.target.methods:
            names = astq.param_names(sym.target.methods["__init__"], skip_self=True)
        elif sym is not None and sym.dotted in LIB_SIGNATURES:
            names = LIB_SIGNATURES[sym.dotted]
        elif isinstance(call.func, ast.Attribute) and isinstance(call.func.value, ast.Name) and call.func.value.id == "self" and self.cls is not None:
            hit = self.repo.lookup_method(self.cls, call.func.attr)
            if hit:
                names = astq.param_names(hit[1], skip_self=not hit[0].is_static(call.func.attr))
        out = {}
        for i, v in enumerate(call.args):
            out[names[i] if names and i < len(names) else i] = v
        for k in call.keywords:
            out[k.arg] = k.value
        return out

    def cmp_arg(self, x, y, where, what, key, tolerate_exo=False):
        def exo(v):  # the exogenous data parameter handed through unchanged, or nothing
            return v is None or (isinstance(v, ast.Constant) and v.value is None) or (isinstance(v, ast.Name) and v.id == "X")

        if key == "reverse":
            tx = astq.const_value(x, False) if x is not None else False
            ty = astq.const_value(y, False) if y is not None else False
            self.pairs.append((where, "order", "reverse=%s" % tx, "reverse=%s" % ty, (tx, ty) == (False, True)))
            return
        if tolerate_exo and exo(x) and exo(y):
            return
        if x is None or y is None:
            self.problems.append("%s given on one side only" % what)
            return
        self.cmp(x, y, where)


def effects_key(effects):
    return sorted(set(astq.canon(e) for e in effects))


def strip_validators(repo, module, expr, found):
    """identity validators (check_series ...) are replaced by their argument; the calls are recorded as validation"""

    class T(ast.NodeTransformer):
        def visit_Call(self, node):
            node = self.generic_visit(node)
            d = dotted(node.func)
            sym = repo.resolve_dotted(module, d) if d else None
            if sym is not None and sym.dotted in VALIDATORS and node.args:
                found.append(node)
                return node.args[0]
            return node

    return T().visit(copy.deepcopy(expr))


def check_duality(ctx, repo):
    n = 0
    for rel in PAIR_FILES:
        for c in classes_in(repo, rel):
            hi = repo.lookup_method(c, "inverse_transform")
            ht = repo.lookup_method(c, "transform")
            if hi is None or ht is None:
                continue
            if rel == PIPE and c.name != "TransformedTargetForecaster":
                continue
            n += 1
            tag = c.name
            loc = ctx.loc(hi[0].module, hi[1])
            try:
                nt, ni = NF(repo, c), NF(repo, c)
                t = nt.method("transform")
                i = ni.method("inverse_transform")
            except Undecided as e:
                ctx.undecided("R1", tag + ":normal-form", "cannot build the normal form: %s" % e, loc)
                continue
            ctx.count("duality_pairs")
            vt, vi = [], []
            t = strip_validators(repo, ht[0].module, t, vt)
            i = strip_validators(repo, hi[0].module, i, vi)
            nt.effects = [strip_validators(repo, ht[0].module, e, vt) for e in nt.effects] + vt
            ni.effects = [strip_validators(repo, hi[0].module, e, vi) for e in ni.effects] + vi
            # same parameters
            pt = astq.param_names(ht[1], True)
            pi = astq.param_names(hi[1], True)
            ctx.check(pt == pi, "R1", tag + ":signature", "transform and inverse_transform take %s" % pt,
                      "signatures differ: transform%s vs inverse_transform%s" % (pt, pi), loc)
            # same validation / guards
            ctx.check(effects_key(nt.effects) == effects_key(ni.effects), "R1", tag + ":validation",
                      "both run %s" % (effects_key(nt.effects) or "no guard statements"),
                      "guard / validation statements differ: transform runs %s, inverse_transform runs %s"
                      % (effects_key(nt.effects), effects_key(ni.effects)), loc)
            d = Duality(repo, hi[0].module, c, pt[0] if pt else None)
            d.cmp(t, i)
            witness = {"transform": ast.unparse(t), "inverse_transform": ast.unparse(i)}
            if d.problems:
                ctx.violation("R1", tag + ":auxiliary", "%s: transform and inverse_transform do not use the same quantities: %s"
                              % (tag, "; ".join(d.problems[:3])), loc, witness)
            else:
                ctx.ok("R1", tag + ":auxiliary", "same validated input and same auxiliary quantities on both sides", loc)
            ops = [p for p in d.pairs if p[1] != "order"]
            if not ops:
                ctx.violation("R1", tag + ":operator", "%s.inverse_transform applies the same operation as transform (`%s`): "
                              "inverse_transform(transform(z)) != z" % (tag, ast.unparse(i)[:120]), loc, witness)
            else:
                bad = [p for p in d.pairs if not p[4]]
                ctx.check(not bad, "R1", tag + ":operator", "operators are inverse pairs: %s" % ", ".join("%s->%s" % (p[2], p[3]) for p in d.pairs),
                          "%s: %s" % (tag, "; ".join("%s `%s` is answered by `%s`, which is not its inverse (at %s)" % (p[1], p[2], p[3], p[0])
                                                     for p in bad)), loc, witness)
            # a fold over the pipeline must run backwards in the inverse
            if any(isinstance(x, ast.Name) and x.id == "__fold__" for x in ast.walk(t)):
                orders = [p for p in d.pairs if p[1] == "order"]
                ctx.check(bool(orders) and all(p[4] for p in orders), "R1", tag + ":order",
                          "inverse iterates the steps in reverse order",
                          "%s: inverse_transform must undo the steps last-to-first (transform: %s, inverse: %s)"
                          % (tag, [p[2] for p in orders] or "forward", [p[3] for p in orders] or "forward"), loc, witness)
    return n


# ====================================================================================== R2


def resolved_tags(repo, cls):
    tags = {}
    for k in reversed(repo.mro(cls)):
        if isinstance(k, ClassInfo) and "_tags" in k.class_attrs:
            v = k.class_attrs["_tags"]
            if not isinstance(v, ast.Dict):
                raise Undecided("_tags of %s is not a dict literal" % k.name)
            for kk, vv in zip(v.keys, v.values):
                if not isinstance(kk, ast.Constant):
                    raise Undecided("non-literal tag key in %s" % k.name)
                tags[kk.value] = vv.value if isinstance(vv, ast.Constant) else "?"
    return tags


class IndexProv:
    def __init__(self, repo, module, param):
        self.repo, self.module, self.param = repo, module, param

    def ext(self, node):
        d = dotted(node)
        sym = self.repo.resolve_dotted(self.module, d) if d else None
        return sym.dotted if sym is not None and sym.kind in ("ext", "func") else None

    def is_input(self, e):
        if isinstance(e, ast.Name) and e.id == self.param:
            return True
        if isinstance(e, ast.Call) and self.ext(e.func) in VALIDATORS and e.args and self.is_input(e.args[0]):
            return True
        return False

    def is_input_index(self, e):
        return isinstance(e, ast.Attribute) and e.attr == "index" and self.is_input(e.value)

    def prov(self, e):
        """'input' | ('fresh', why) | ('unknown', why)"""
        if self.is_input(e):
            return "input"
        if isinstance(e, ast.IfExp):
            rs = [self.prov(e.body), self.prov(e.orelse)]
            for r in rs:
                if r != "input":
                    return r
            return "input"
        if isinstance(e, ast.Call):
            f = e.func
            nm = f.id if isinstance(f, ast.Name) else None
            if nm == "__with_index__":
                if self.is_input_index(e.args[1]):
                    return "input"
                return ("fresh", "index is set to `%s`, not to the input's index" % ast.unparse(e.args[1]))
            if nm in ("__with_name__", "__with_columns__", "__updated__"):
                return self.prov(e.args[0])
            d = self.ext(f)
            if d in ("pandas.Series", "pandas.DataFrame"):
                kw = {k.arg: k.value for k in e.keywords}
                idx = kw.get("index") or (e.args[1] if len(e.args) > 1 else None)
                if idx is None:
                    if e.args and self.is_input(e.args[0]) or (kw.get("data") is not None and self.is_input(kw["data"])):
                        return "input"
                    return ("fresh", "`%s` builds a fresh default RangeIndex" % ast.unparse(e)[:70])
                if self.is_input_index(idx):
                    return "input"
                return ("fresh", "index=`%s` is not the input's index" % ast.unparse(idx))
            if d and d.startswith("numpy.") and e.args and self.is_input(e.args[0]) and d.split(".")[-1] in UFUNCS:
                return "input"
            if isinstance(f, ast.Attribute) and f.attr in ("transform", "inverse_transform") and e.args:
                # delegation to a wrapped transformer: index preserving iff the wrapped one is (not decided here)
                return ("unknown", "delegates to `%s`" % ast.unparse(f))
            return ("unknown", "`%s` not in the index-provenance table" % ast.unparse(e)[:70])
        if isinstance(e, ast.BinOp):
            if self.prov(e.left) == "input" or self.prov(e.right) == "input":
                return "input"
            return ("unknown", "arithmetic without the input as an operand")
        return ("unknown", "`%s`" % ast.unparse(e)[:70])


UFUNCS = {"log", "exp", "cos", "sin", "tan", "sqrt", "abs", "absolute", "log1p", "expm1", "square", "arccos", "arcsin", "arctan",
          "tanh", "sinh", "cosh", "negative", "sign", "floor", "ceil", "log10", "log2", "cbrt", "reciprocal"}


def check_index(ctx, repo):
    n = 0
    for m in sorted(repo.non_test_modules(), key=lambda m: m.relpath):
        if not m.relpath.startswith("sktime/transformations/series/"):
            continue
        for c in classes_in(repo, m.relpath):
            try:
                tags = resolved_tags(repo, c)
            except Undecided as e:
                ctx.undecided("R2", c.name + ":tags", str(e), ctx.loc(m, c.node))
                continue
            if tags.get(TAG) is not True:
                continue
            n += 1
            hit = repo.lookup_method(c, "transform")
            loc = ctx.loc(hit[0].module, hit[1]) if hit else ctx.loc(m, c.node)
            try:
                nf = NF(repo, c, inline_functions=True)
                t = nf.method("transform")
            except Undecided as e:
                ctx.undecided("R2", c.name + ":index", "cannot build the normal form of transform: %s" % e, loc)
                continue
            param = astq.param_names(hit[1], True)[0]
            r = IndexProv(repo, hit[0].module, param).prov(t)
            if r == "input":
                ctx.ok("R2", c.name + ":index", "index of the returned series is the input's index: %s" % ast.unparse(t)[:120], loc)
            elif r[0] == "fresh":
                ctx.violation("R2", c.name + ":index", "%s is tagged %s but transform returns a series whose index is not the input's: %s"
                              % (c.name, TAG, r[1]), loc, witness={"returned": ast.unparse(t)})
            else:
                ctx.undecided("R2", c.name + ":index", "index provenance of `%s` not decided: %s" % (ast.unparse(t)[:100], r[1]), loc)
    return n


# ====================================================================================== R3


def attr_writes(repo, cls, fn, defcls, must, seen=None, depth=0):
    """self attributes written by ``fn`` (transitively through self.method() calls).
    must=True: on every path to a normal return; must=False: on some path."""
    top = not seen
    if top:
        memo = getattr(repo, "_c13_attr_writes", None)
        if memo is None:
            memo = repo._c13_attr_writes = {}
        mk_ = (cls.qual, id(fn), must)
        if mk_ in memo:
            return set(memo[mk_])
        res_ = _attr_writes(repo, cls, fn, defcls, must, set(), 0)
        memo[mk_] = set(res_)
        return res_
    return _attr_writes(repo, cls, fn, defcls, must, seen, depth)


def _attr_writes(repo, cls, fn, defcls, must, seen, depth):
    if id(fn) in seen or depth > 5:
        return set()
    seen = seen | {id(fn)}
    selfname = astq.param_names(fn)[0] if astq.param_names(fn) else "self"

    def node_writes(stmt_or_exprs):
        out = set()
        for e in stmt_or_exprs:
            for n in ast.walk(e):
                if isinstance(n, ast.Attribute) and isinstance(n.ctx, ast.Store) and isinstance(n.value, ast.Name) and n.value.id == selfname:
                    out.add(n.attr)
                if isinstance(n, ast.Call) and isinstance(n.func, ast.Attribute) and isinstance(n.func.value, ast.Name) \
                        and n.func.value.id == selfname:
                    hit = repo.lookup_method(cls, n.func.attr)
                    if hit:
                        out |= _attr_writes(repo, cls, hit[1], hit[0], must, seen, depth + 1)
        return out

    if not must:
        return node_writes([fn])
    g = CFG(fn)
    cand = node_writes([fn])
    res = set()
    for a in cand:
        if g.must_pass(lambda node, a=a: a in node_writes(node.exprs)):
            res.add(a)
    return res


def phase_reference(repo):
    """Name of the attribute that holds the phase reference: the attribute of self whose first element ``_align_seasonal`` relates to
    the first index element of the series it is given (``<series>.index[0]`` vs ``self.<ref>[0]`` in the same call / difference).
    Discovered from the code, never assumed by name."""
    cls = repo.cls(DES + ":Deseasonalizer")
    hit = repo.lookup_method(cls, "_align_seasonal")
    if hit is None:
        raise AnalysisError("anchor missing: Deseasonalizer._align_seasonal")
    k, fn = hit
    ps = astq.param_names(fn, True)
    if not ps:
        raise AnalysisError("Deseasonalizer._align_seasonal takes no series")
    y = ps[0]
    cands = set()
    for ret in astq.returns(fn):
        if ret.value is None:
            continue
        v = astq.inline_locals(fn, ret.value)
        for n in ast.walk(v):
            groups = []
            if isinstance(n, ast.Call):
                groups.append(list(n.args) + [kw.value for kw in n.keywords])
            elif isinstance(n, ast.BinOp) and isinstance(n.op, ast.Sub):
                groups.append([n.left, n.right])
            for g_ in groups:
                def _k(x_):
                    return isinstance(x_, ast.Subscript) and (isinstance(astq.const_value(x_.slice), int) or (
                        isinstance(x_.slice, ast.UnaryOp) and isinstance(x_.slice.operand, ast.Constant)))
                has_y = any(_k(a) and astq.canon(a.value) == "%s.index" % y for a in g_)
                refs = [a.value.attr for a in g_ if _k(a) and astq.is_self_attr(a.value, "self")]
                if has_y:
                    cands |= set(refs)
    if len(cands) != 1:
        raise AnalysisError("cannot identify the phase reference of Deseasonalizer._align_seasonal (candidates: %s)" % sorted(cands))
    return cands.pop()


def check_phase(ctx, repo):
    REF = phase_reference(repo)
    base = repo.cls(DES + ":Deseasonalizer")
    classes = [base] + [c for c in repo.subclasses(base)]
    n = 0
    for c in classes:
        names = set()
        for k in repo.mro(c):
            if isinstance(k, ClassInfo):
                names |= set(k.methods)
        for mn in sorted(names):
            if mn.startswith("_"):
                continue  # constructors / private setters are judged through the public methods that call them
            k, fn = repo.lookup_method(c, mn)
            may = attr_writes(repo, c, fn, k, must=False)
            if REF not in may and "seasonal_" not in may:
                continue
            n += 1
            tag = "%s.%s" % (c.name, mn)
            loc = ctx.loc(k.module, fn)
            must = attr_writes(repo, c, fn, k, must=True)
            if REF in may:
                ok = "seasonal_" in must
                ctx.check(ok, "R3", tag + ":pair", "rebinds the phase reference and re-estimates seasonal_ on every path",
                          "%s rebinds the phase reference (the index stored on self that _align_seasonal measures offsets from) without re-estimating `seasonal_`: afterwards _align_seasonal measures the "
                          "offset from the new series while seasonal_[0] still belongs to the first training time point (phase is wrong unless the "
                          "new series starts a multiple of sp after the old one)" % tag, loc,
                          witness={"may_write": sorted(may), "must_write": sorted(must)})
                direct = any(a == "seasonal_" for a, _, _ in astq.self_attr_stores(fn))
                if ok and direct:
                    # both come from the same series: the argument of _set_y_index and the series seasonal_ is estimated from
                    ctx.check(same_series(repo, c, fn, k, REF), "R3", tag + ":same-series",
                              "phase reference and seasonal_ are taken from the same series",
                              "%s takes the phase reference and seasonal_ from different series" % tag, loc)
                if "seasonal_" in may:
                    ctx.check(REF in must, "R3", tag + ":reference", "the phase reference is re-established on every path",
                              "%s re-estimates seasonal_ but stores the phase reference self.%s only on some paths (e.g. a store guarded by the "
                              "attribute's own previous value): history fit(z1); fit(z2) keeps the reference of z1 while seasonal_ belongs to z2, "
                              "so the phase is wrong unless z2 starts a multiple of sp after z1" % (tag, REF), loc,
                              witness={"may_write": sorted(may), "must_write": sorted(must)})
            elif "seasonal_" in may:
                ctx.violation("R3", tag + ":pair", "%s re-estimates seasonal_ without moving the phase reference self.%s" % (tag, REF), loc)
        # state derived from the phase pair (caches) is invalidated wherever the pair is re-estimated
        stale = derived_state(repo, c)
        seen = set()
        for (mn, d, f, where, k, fn) in stale:
            if f != "seasonal_" or (mn, d) in seen:
                continue  # (a cache keyed by the shift follows _y_index by construction; seasonal_ is what goes stale)
            seen.add((mn, d))
            ctx.violation("R3", "%s.%s:derived:self.%s" % (c.name, mn, d),
                          "%s.%s re-estimates self.%s but leaves self.%s, which is computed from it (at %s), untouched: afterwards "
                          "transform / inverse_transform use the stale value of the previous fit" % (c.name, mn, f, d, where), ctx.loc(k.module, fn),
                          witness={"derived": d, "source": f, "computed_at": where})
        if not seen:
            ctx.ok("R3", "%s:derived-state" % c.name, "no attribute computed from seasonal_/_y_index survives a re-estimation", ctx.loc(c.module, c.node),
                   nontrivial=False)
    return n


def expand(repo, cls, fn, defcls, expr):
    """``expr`` of method ``fn`` with private helper methods of the receiver inlined and the method's locals substituted"""
    selfname = astq.param_names(fn)[0] if astq.param_names(fn) else "self"
    frame = {"module": defcls.module, "defcls": defcls, "self": selfname, "depth": 0, "fn": fn}
    v = astq.inline_locals(fn, expr)
    try:
        v = NF(repo, cls).subst(v, {}, frame)
    except Undecided:
        pass
    v = astq.inline_locals(fn, v)
    return rename_self(v, selfname) if selfname != "self" else v


def derived_state(repo, cls):
    """[(public method, derived attr D, source attr F, store location)]: D is stored (anywhere in the class) with a value computed from
    self.F, F is (re-)written by the public method, but the method does not write D on every path -> D is stale afterwards."""
    methods = {}
    for k in reversed(repo.mro(cls)):
        if isinstance(k, ClassInfo):
            for mn, fn in k.methods.items():
                methods[mn] = (k, fn)
    if "fit" not in methods:
        return []
    fitted = attr_writes(repo, cls, methods["fit"][1], methods["fit"][0], must=False)
    deps = {}
    for mn, (k, fn) in methods.items():
        if mn == "__init__":
            continue
        selfname = astq.param_names(fn)[0] if astq.param_names(fn) and not k.is_static(mn) else None
        if not selfname:
            continue
        for attr, v, st in astq.self_attr_stores(fn, selfname):
            if v is None:
                continue
            v2 = astq.inline_locals(fn, v)
            # a cache that validates its key: the store is guarded by a test relating self.D to a quantity derived from self.F,
            # so D follows F by construction and is not stale with respect to F
            keyed = set()
            for outer in astq.enclosing_stmts(fn, st)[:-1]:
                if isinstance(outer, ast.If):
                    t2 = astq.inline_locals(fn, outer.test)
                    for cmp_ in ast.walk(t2):
                        # only an (in)equality between the stored key and the freshly derived key validates a cache
                        if isinstance(cmp_, ast.Compare) and all(isinstance(o, (ast.Eq, ast.NotEq)) for o in cmp_.ops):
                            names = {x.attr for x in ast.walk(cmp_) if astq.is_self_attr(x, selfname)}
                            if attr in names:
                                keyed |= names - {attr}
            for n in ast.walk(v2):
                if astq.is_self_attr(n, selfname) and n.attr in fitted and n.attr != attr and n.attr not in keyed:
                    deps.setdefault((attr, n.attr), "%s:%s" % (k.module.relpath, st.lineno))
    out = []
    for (d, f), where in sorted(deps.items()):
        for mn, (k, fn) in sorted(methods.items()):
            if mn.startswith("_"):
                continue
            may = attr_writes(repo, cls, fn, k, must=False)
            if f in may and d not in attr_writes(repo, cls, fn, k, must=True):
                out.append((mn, d, f, where, k, fn))
    return out


def same_series(repo, cls, fn, defcls, REF):
    """the series whose index becomes the reference == the series seasonal_ is estimated from (after local inlining)"""
    selfname = astq.param_names(fn)[0]
    ref_args, est_srcs = [], []
    for n in ast.walk(fn):
        if isinstance(n, ast.Call) and isinstance(n.func, ast.Attribute) and isinstance(n.func.value, ast.Name) and n.func.value.id == selfname:
            hit = repo.lookup_method(cls, n.func.attr)
            if hit and REF in attr_writes(repo, cls, hit[1], hit[0], must=False) and n.args:
                ref_args.append(astq.canon(astq.inline_locals(fn, n.args[0])))
        if isinstance(n, ast.Assign):
            for t in n.targets:
                if astq.is_self_attr(t, selfname, REF):
                    v = astq.inline_locals(fn, n.value)
                    if isinstance(v, ast.Attribute) and v.attr == "index":
                        ref_args.append(astq.canon(v.value))
                    else:
                        return None
                if astq.is_self_attr(t, selfname, "seasonal_"):
                    v = expand(repo, cls, fn, defcls, n.value)
                    calls = [c for c in ast.walk(v) if isinstance(c, ast.Call) and dotted(c.func) and dotted(c.func).endswith("seasonal_decompose")]
                    for c in calls:
                        if c.args:
                            est_srcs.append(astq.canon(c.args[0]))
                    for c in ast.walk(n.value):
                        # the old component re-based relative to a series: self._align_seasonal(<series>)
                        if isinstance(c, ast.Call) and isinstance(c.func, ast.Attribute) and c.func.attr == "_align_seasonal" and c.args:
                            est_srcs.append(astq.canon(astq.inline_locals(fn, c.args[0])))
    if not ref_args:
        return None
    if not est_srcs:
        return None
    return all(e in ref_args for e in est_srcs) and len(set(ref_args)) == 1


# ====================================================================================== R4


class AbsOfSigned(Exception):
    def __init__(self, lin):
        Exception.__init__(self, "abs of a signed quantity")
        self.lin = lin


class Cong:
    """value known modulo ``mod`` (canonical string of the modulus expression) as an affine form"""

    def __init__(self, lin, mod=None):
        self.lin, self.mod = lin, mod


def check_alignment(ctx, repo):
    REF = phase_reference(repo)
    cls = repo.cls(DES + ":Deseasonalizer")
    fn = repo.func(DES, "Deseasonalizer._align_seasonal")
    mod = repo.module(DES)
    loc = ctx.loc(mod, fn)
    tag = "Deseasonalizer._align_seasonal"
    params = astq.param_names(fn, True)
    if len(params) != 1:
        ctx.undecided("R4", tag, "unexpected signature", loc)
        return
    y = params[0]
    rets = astq.returns(fn)
    if len(rets) != 1 or rets[0].value is None:
        ctx.undecided("R4", tag, "expected a single return", loc)
        return
    # private helper methods of the receiver are inlined and the locals substituted: the statement shape does not matter
    val = expand(repo, cls, fn, cls, rets[0].value)

    def ext(e):
        s = repo.resolve_expr(mod, e)
        return s.dotted if s is not None else None

    # equivalent shape: seasonal_[(off + arange(n)) % sp]  ==  resize(roll(seasonal_, -off), n)
    def _unwrap(e_):
        while True:
            if isinstance(e_, ast.Call) and ext(e_.func) in ("numpy.asarray", "numpy.array", "numpy.asanyarray") and e_.args:
                e_ = e_.args[0]
            elif isinstance(e_, ast.Call) and isinstance(e_.func, ast.Attribute) and e_.func.attr == "to_numpy" and not e_.args:
                e_ = e_.func.value
            elif isinstance(e_, ast.Attribute) and e_.attr == "values":
                e_ = e_.value
            else:
                return e_

    gathered = None
    if isinstance(val, ast.Subscript):
        idx_ = val.slice
        base_ = val.value.value if isinstance(val.value, ast.Attribute) and val.value.attr == "iloc" else val.value
        if isinstance(idx_, ast.BinOp) and isinstance(idx_.op, ast.Mod) and isinstance(idx_.left, ast.BinOp) and isinstance(idx_.left.op, ast.Add):
            parts_ = [idx_.left.left, idx_.left.right]
            ar_ = [p_ for p_ in parts_ if isinstance(p_, ast.Call) and ext(p_.func) in ("numpy.arange", "builtins.range") and len(p_.args) == 1]
            if len(ar_) == 1:
                off_ = [p_ for p_ in parts_ if p_ is not ar_[0]][0]
                gathered = (_unwrap(base_), off_, ar_[0].args[0], idx_.right)
    if gathered is not None:
        src_, off_, n_, mod_ = gathered
        ctx.check(astq.canon(mod_) == "self.sp", "R4", tag + ":modulus", "positions are reduced modulo self.sp",
                  "positions into seasonal_ are reduced modulo `%s`, not modulo the period self.sp" % ast.unparse(mod_), loc)
        np_ = ast.Name(id="np", ctx=ast.Load())
        val = ast.Call(func=ast.Attribute(value=np_, attr="resize", ctx=ast.Load()), keywords=[], args=[
            ast.Call(func=ast.Attribute(value=np_, attr="roll", ctx=ast.Load()), keywords=[],
                     args=[src_, ast.UnaryOp(op=ast.USub(), operand=off_)]), n_])

    def arg(call, pos, name):
        for k in call.keywords:
            if k.arg == name:
                return k.value
        return call.args[pos] if len(call.args) > pos else None

    # (1) shape: np.resize(np.roll(self.seasonal_, shift), n)  -- rotate one period, then tile
    #     np.roll(np.resize(self.seasonal_, n), shift) tiles first and rotates the *whole* length-n array: position i reads
    #     seasonal_[((i - shift) mod n) mod sp], which equals seasonal_[(i - shift) mod sp] only if sp divides n
    outer = ext(val.func) if isinstance(val, ast.Call) else None
    if outer == "numpy.roll" and isinstance(arg(val, 0, "a"), ast.Call) and ext(arg(val, 0, "a").func) == "numpy.resize":
        tiled = arg(val, 0, "a")
        ctx.violation("R4", tag + ":composition",
                      "%s rotates after tiling: np.roll(np.resize(seasonal_, n), s)[i] = seasonal_[((i - s) mod n) mod sp]; for the first s "
                      "positions (i < s) this is seasonal_[(i - s + n) mod sp], not the required seasonal_[(i - s) mod sp] = seasonal_[(i + d) mod sp], "
                      "unless sp divides n = len(y). Witness: sp = 4, n = 6, d = 1 (s = 3), i = 0 reads seasonal_[(0 - 3 + 6) mod 4] = seasonal_[3] "
                      "instead of seasonal_[1]. The period must be rotated before it is tiled: np.resize(np.roll(seasonal_, s), n)" % tag, loc,
                      witness={"value": ast.unparse(val), "index_map": "i -> ((i - s) mod n) mod sp", "required": "i -> (i + d) mod sp",
                               "counterexample": {"sp": 4, "n": 6, "d": 1, "s": 3, "i": 0, "reads": 3, "expected": 1}})
        inner = ast.Call(func=val.func, args=[arg(tiled, 0, "a"), arg(val, 1, "shift")], keywords=[])
        n_expr = arg(tiled, 1, "new_shape")
    elif outer == "numpy.resize":
        inner, n_expr = arg(val, 0, "a"), arg(val, 1, "new_shape")
        if isinstance(inner, ast.Call) and ext(inner.func) == "numpy.roll":
            ctx.ok("R4", tag + ":composition", "one period is rotated, then tiled: resize(roll(seasonal_, s), n)[i] = seasonal_[(i - s) mod sp]", loc)
    else:
        ctx.undecided("R4", tag + ":shape", "return value is neither np.resize(np.roll(...)) nor np.roll(np.resize(...)): %s" % ast.unparse(val)[:80], loc)
        return
    if not (isinstance(inner, ast.Call) and ext(inner.func) == "numpy.roll"):
        ctx.undecided("R4", tag + ":shape", "np.resize is not applied to np.roll(...)", loc)
        return
    src, shift = arg(inner, 0, "a"), arg(inner, 1, "shift")
    axis = arg(inner, 2, "axis")
    ctx.check(astq.is_self_attr(src, "self", "seasonal_") and axis is None, "R4", tag + ":source", "rolls self.seasonal_",
              "rolled array is `%s`, expected the fitted self.seasonal_" % ast.unparse(src), loc)
    # (3) cyclic extension to the length of y
    n_ok = astq.canon(n_expr) in ("%s.shape[0]" % y, "len(%s)" % y, "len(%s.index)" % y)
    ctx.check(n_ok, "R4", tag + ":length", "extended cyclically to len(%s)" % y,
              "np.resize length is `%s`, expected the length of the transformed series" % ast.unparse(n_expr), loc)

    # (2) shift == -(first(y) - first(train))  (mod self.sp)
    def ev(e):
        if isinstance(e, ast.Constant) and isinstance(e.value, int):
            return Cong(Lin.c(e.value))
        if isinstance(e, ast.UnaryOp) and isinstance(e.op, ast.USub):
            v = ev(e.operand)
            return Cong(-v.lin, v.mod)
        if isinstance(e, ast.UnaryOp) and isinstance(e.op, ast.UAdd):
            return ev(e.operand)
        if isinstance(e, ast.BinOp) and isinstance(e.op, (ast.Add, ast.Sub)):
            a, b = ev(e.left), ev(e.right)
            if a.mod != b.mod and a.mod is not None and b.mod is not None:
                raise Undecided("mixed moduli")
            return Cong(a.lin + b.lin if isinstance(e.op, ast.Add) else a.lin - b.lin, a.mod or b.mod)
        if isinstance(e, ast.BinOp) and isinstance(e.op, ast.Mod):
            a = ev(e.left)
            m = astq.canon(e.right)
            if a.mod is not None and a.mod != m:
                raise Undecided("nested moduli")
            return Cong(a.lin, m)
        if isinstance(e, ast.Call):
            d = ext(e.func)
            if d == "builtins.int" or (isinstance(e.func, ast.Name) and e.func.id == "int" and len(e.args) == 1):
                return ev(e.args[0])
            if (d in ("numpy.abs", "numpy.absolute", "numpy.fabs") or (isinstance(e.func, ast.Name) and e.func.id == "abs")) and len(e.args) == 1:
                inner_ = ev(e.args[0])
                if inner_.lin.is_const():
                    return Cong(Lin.c(abs(inner_.lin.const)), inner_.mod)
                raise AbsOfSigned(inner_.lin)
            sym = repo.resolve_expr(mod, e.func)
            if sym is not None and sym.kind == "func" and sym.dotted == "sktime.utils.datetime._get_duration":
                b = astq.bind_call(sym.target, e)
                if b is None or "x" not in b or "y" not in b:
                    raise Undecided("_get_duration call not bound")
                sign = duration_semantics(repo, sym.target)
                lin = point(b["x"]) - point(b["y"])
                return Cong(lin if sign > 0 else -lin)
            raise Undecided("call `%s` not in the congruence table" % ast.unparse(e)[:60])
        return Cong(point(e))

    def point(e):
        c = astq.canon(e)
        if c == "%s.index[0]" % y:
            return Lin.sym("first(y)")
        if c == "self.%s[0]" % REF:
            return Lin.sym("first(train)")
        # k-th time point of an equally spaced index: first + k (in units of the index frequency)
        sl_ = e.slice if isinstance(e, ast.Subscript) else None
        if isinstance(sl_, ast.UnaryOp) and isinstance(sl_.op, ast.USub) and isinstance(astq.const_value(sl_.operand), int):
            sl_ = ast.Constant(value=-sl_.operand.value)
        if sl_ is not None and isinstance(astq.const_value(sl_), int) and not isinstance(astq.const_value(sl_), bool):
            k_ = astq.const_value(sl_)
            base_ = astq.canon(e.value)
            if base_ in ("%s.index" % y, "self.%s" % REF):
                who = "y" if base_.endswith(".index") and not base_.startswith("self.") else "train"
                return (Lin.sym("first(%s)" % who) + k_) if k_ >= 0 else (Lin.sym("last(%s)" % who) + (k_ + 1))
        if isinstance(e, ast.UnaryOp) and isinstance(e.op, ast.USub) and isinstance(e.operand, ast.Constant):
            raise Undecided("negative constant")
        if isinstance(e, ast.Attribute) and astq.is_self_attr(e, "self"):
            return Lin.sym("self." + e.attr)
        raise Undecided("`%s` is not a time point of y or of the training index" % ast.unparse(e)[:60])

    def concrete(e, d_, sp_):
        """value of the shift expression for first(y) - first(train) = d_, period sp_ (integers; no repo code is executed)"""
        if isinstance(e, ast.Constant) and isinstance(e.value, int):
            return e.value
        if isinstance(e, ast.UnaryOp) and isinstance(e.op, (ast.USub, ast.UAdd)):
            v_ = concrete(e.operand, d_, sp_)
            return -v_ if isinstance(e.op, ast.USub) else v_
        if isinstance(e, ast.BinOp) and type(e.op) in (ast.Add, ast.Sub, ast.Mult, ast.FloorDiv, ast.Mod):
            a_, b_ = concrete(e.left, d_, sp_), concrete(e.right, d_, sp_)
            if isinstance(e.op, (ast.FloorDiv, ast.Mod)) and b_ == 0:
                raise Undecided("division by zero")
            return {ast.Add: a_ + b_, ast.Sub: a_ - b_, ast.Mult: a_ * b_, ast.FloorDiv: a_ // b_ if b_ else 0, ast.Mod: a_ % b_ if b_ else 0}[type(e.op)]
        if astq.canon(e) == "self.sp":
            return sp_
        if isinstance(e, ast.Call):
            if isinstance(e.func, ast.Name) and e.func.id in ("int", "abs") and len(e.args) == 1:
                v_ = concrete(e.args[0], d_, sp_)
                return abs(v_) if e.func.id == "abs" else v_
            sym = repo.resolve_expr(mod, e.func)
            if sym is not None and sym.kind == "func" and sym.dotted == "sktime.utils.datetime._get_duration":
                b = astq.bind_call(sym.target, e)
                if b and "x" in b and "y" in b:
                    def pt(z):
                        l_ = point(z)
                        return l_.const + sum(c_ * {"first(y)": d_, "first(train)": 0}[n_] for n_, c_ in l_.terms.items())
                    try:
                        sign = duration_semantics(repo, sym.target)
                        return sign * (pt(b["x"]) - pt(b["y"]))
                    except AbsOfSigned:
                        return abs(pt(b["x"]) - pt(b["y"]))
        raise Undecided("`%s` has no integer interpretation" % ast.unparse(e)[:50])

    try:
        s = ev(shift)
    except AbsOfSigned as e:
        ctx.violation("R4", tag + ":shift",
                      "%s takes the absolute value of the signed offset %r: the offset is negative whenever the transformed series starts before "
                      "the phase reference (an earlier or overlapping stretch, or any series after `update` moved the reference forward); then "
                      "|d| == -d and the shift has the wrong sign. Witness d = -1: shift = (-1) mod sp = sp - 1, required (+1) mod sp = 1 "
                      "(equal only if sp divides 2)" % (tag, e.lin), loc, witness={"offset": repr(e.lin), "d": -1, "shift": "sp - 1", "required": 1})
        return
    except Undecided as e:
        # not an affine congruence (e.g. floor division): look for a concrete counterexample over small offsets and periods
        cex = None
        try:
            for sp_ in (4, 3, 5, 2, 7):
                for d_ in (2, 1, 3, -1, -2, 5, 0, 7):
                    got = concrete(shift, d_, sp_)
                    if got % sp_ != (-d_) % sp_:
                        cex = (d_, sp_, got)
                        break
                if cex:
                    break
        except (Undecided, KeyError, AttributeError):
            cex = None
        if cex:
            d_, sp_, got = cex
            ctx.violation("R4", tag + ":shift", "shift `%s` is not congruent to -(first(y) - first(train)) modulo sp: for d = %d, sp = %d it is %d "
                          "(= %d mod sp) but must be %d, so position i reads seasonal_[(i - %d) mod %d] instead of seasonal_[(i + %d) mod %d]"
                          % (ast.unparse(shift)[:80], d_, sp_, got, got % sp_, (-d_) % sp_, got, sp_, d_, sp_), loc,
                          witness={"d": d_, "sp": sp_, "shift": got, "required": (-d_) % sp_})
        else:
            ctx.undecided("R4", tag + ":shift", "shift `%s` not interpretable: %s" % (ast.unparse(shift)[:80], e), loc)
        return
    # the offset is counted in steps of the training frequency (that is what sp and seasonal_ refer to): the unit handed to
    # _get_duration comes from the reference index, or is left to _get_duration (None: taken from the time point itself)
    for dc in [n_ for n_ in ast.walk(shift) if isinstance(n_, ast.Call)]:
        sym = repo.resolve_expr(mod, dc.func)
        if sym is None or sym.kind != "func" or sym.dotted != "sktime.utils.datetime._get_duration":
            continue
        b = astq.bind_call(sym.target, dc)
        u = b.get("unit") if b else None
        verdict, why = None, "unit `%s` not interpretable" % (ast.unparse(u) if u is not None else None)
        if u is None or (isinstance(u, ast.Constant) and u.value is None):
            verdict, why = True, "unit left to _get_duration"
        elif isinstance(u, ast.Call) and len(u.args) == 1:
            fs = repo.resolve_expr(mod, u.func)
            if fs is not None and fs.dotted == "sktime.utils.datetime._get_freq":
                src_ = astq.canon(u.args[0])
                if src_ == "self.%s" % REF:
                    verdict, why = True, "unit of the training index self.%s" % REF
                elif src_ in ("%s.index" % y, y):
                    verdict, why = False, ("the unit is taken from the transformed series `%s`, not from the training index: a stretch cut out of "
                                           "the training series by a mask / positions has no freq (unit None -> ValueError in the coercion), and a "
                                           "series with another frequency is counted in its own steps although sp and seasonal_ are in training steps"
                                           % ast.unparse(u.args[0]))
        ctx.check(verdict, "R4", tag + ":unit", why, "%s: %s" % (tag, why), loc)
    want = -(Lin.sym("first(y)") - Lin.sym("first(train)"))
    # np.roll reduces any integer shift modulo len(seasonal_) = sp itself: no reduction, or reduction modulo sp, are both fine
    ctx.check(s.mod in (None, "self.sp"), "R4", tag + ":modulus", "shift is reduced modulo self.sp (or left to np.roll)",
              "shift is reduced modulo `%s`, not modulo the period self.sp (np.roll by a multiple of len(seasonal_) only coincides by luck)"
              % s.mod, loc)
    ctx.check(s.lin == want, "R4", tag + ":shift",
              "roll(seasonal_, (-d) mod sp)[i mod sp] = seasonal_[(i + d) mod sp] with d = first(y) - first(train)",
              "shift is congruent to %r, expected %r = -(first(y) - first(train)): position i of the output would read "
              "seasonal_[(i - (%r)) mod sp] instead of seasonal_[(i + d) mod sp]" % (s.lin, want, s.lin), loc,
              witness={"shift": repr(s.lin), "expected": repr(want)})
    # (5) the rolled array has exactly one period: every estimator of seasonal_ produces self.sp values
    for c in [cls] + repo.subclasses(cls):
        for mn, f2 in c.methods.items():
            ordinal = 0
            for attr, v, st in sorted(astq.self_attr_stores(f2), key=lambda t: t[2].lineno):
                if attr != "seasonal_" or v is None or (isinstance(v, ast.Constant) and v.value is None):
                    continue
                v2 = expand(repo, c, f2, c, v)
                ok, why = period_length_ok(repo, c.module, f2, v2)
                ordinal += 1
                ctx.check(ok, "R4", "%s.%s:period" % (c.name, mn), "seasonal_ holds exactly sp values (store %d)" % ordinal,
                          "%s.%s: seasonal_ = `%s` does not hold exactly self.sp values%s, so rolling it is no longer a rotation of one period "
                          "and later alignments read a truncated / over-long pattern" % (c.name, mn, ast.unparse(v)[:80], why), ctx.loc(c.module, st),
                          witness={"value": ast.unparse(v2)[:300], "why": why})


def period_length_ok(repo, module, fn, v):
    """(True|False|None, explanation): does the stored value hold exactly self.sp values?"""
    def is_sp(e):
        return astq.canon(e) in ("self.sp", "check_sp(self.sp)")

    def ext(e):
        sy = repo.resolve_expr(module, e)
        return sy.dotted if sy is not None else None

    alts = [v.body, v.orelse] if isinstance(v, ast.IfExp) else [v]
    res = []
    why = ""
    for a in alts:
        if isinstance(a, ast.Subscript) and isinstance(a.slice, ast.Slice):
            sl = a.slice
            head = (sl.lower is None or astq.const_value(sl.lower) == 0) and sl.step is None and sl.upper is not None and is_sp(sl.upper)
            base = a.value.value if isinstance(a.value, ast.Attribute) and a.value.attr == "iloc" else a.value
            if isinstance(base, ast.Attribute) and base.attr == "seasonal" and isinstance(base.value, ast.Call) \
                    and (ext(base.value.func) or "").endswith("seasonal_decompose"):
                # statsmodels refuses series shorter than two periods, so the first sp components exist
                res.append(head)
                if not head:
                    why = " (slice `%s` is not the first self.sp components)" % ast.unparse(sl)
            elif isinstance(base, ast.Call) and ext(base.func) == "numpy.resize" and len(base.args) >= 2:
                n_ = base.args[1]
                if head and is_sp(n_):
                    res.append(True)
                else:
                    res.append(False)
                    why = (" (a slice [:sp] of an array of length n = `%s` has min(n, sp) values: for a series shorter than the period, "
                           "e.g. n = 1 < sp, only n values remain)" % ast.unparse(n_))
            else:
                return None, " (length of `%s` unknown)" % ast.unparse(base)[:60]
        elif isinstance(a, ast.Call) and ext(a.func) in ("numpy.zeros", "numpy.ones", "numpy.full") and a.args:
            res.append(is_sp(a.args[0]))
            if not res[-1]:
                why = " (array of length `%s`)" % ast.unparse(a.args[0])
        else:
            return None, " (`%s` not in the length table)" % ast.unparse(a)[:60]
    return all(res), why


def duration_semantics(repo, fn, x_expr=None, y_expr=None):
    """+1 if _get_duration(x, y) returns x - y on the two-point path, -1 for y - x; Undecided otherwise.
    The function is evaluated symbolically (normal form with the actual, non-None second point), so its statement shape is irrelevant."""
    mod = None
    for m in repo.modules.values():
        if m.defs.get(fn.name) is fn:
            mod = m
    if mod is None:
        raise Undecided("_get_duration not found at module level")
    X, Y = ast.Name(id="__x__", ctx=ast.Load()), ast.Attribute(value=ast.Name(id="__p__", ctx=ast.Load()), attr="y", ctx=ast.Load())
    args = {"x": X, "y": Y, "coerce_to_int": ast.Constant(value=True),
            "unit": ast.Call(func=ast.Name(id="__unit__", ctx=ast.Load()), args=[], keywords=[])}
    names = astq.param_names(fn)
    if not all(p in names for p in ("x", "y")):
        raise Undecided("_get_duration has no parameters x, y")
    nf = NF(repo, None, inline_functions=False).function(fn, mod, None, {k: v for k, v in args.items() if k in names}, 0, skip_self=False)

    def ev(e):
        if isinstance(e, ast.IfExp):
            a, b = ev(e.body), ev(e.orelse)
            if a != b:
                raise Undecided("_get_duration returns different durations on different paths")
            return a
        if isinstance(e, ast.Call):
            sym = repo.resolve_expr(mod, e.func)
            if sym is not None and sym.dotted == "sktime.utils.datetime._coerce_duration_to_int" and e.args:
                return ev(e.args[0])  # unit conversion of the same duration (assumption)
            if isinstance(e.func, ast.Name) and e.func.id == "int" and len(e.args) == 1:
                return ev(e.args[0])
            if isinstance(e.func, ast.Name) and e.func.id == "abs" and len(e.args) == 1:
                raise AbsOfSigned(ev(e.args[0]))
            raise Undecided("call `%s` in _get_duration" % ast.unparse(e)[:50])
        if isinstance(e, ast.BinOp) and isinstance(e.op, ast.Sub) and isinstance(e.left, ast.Call) and isinstance(e.right, ast.Call) \
                and isinstance(e.left.func, ast.Name) and isinstance(e.right.func, ast.Name) \
                and (e.left.func.id, e.right.func.id) == ("max", "min") and len(e.left.args) == 2 \
                and sorted(astq.canon(a_) for a_ in e.left.args) == sorted(astq.canon(a_) for a_ in e.right.args):
            raise AbsOfSigned(ev(e.left.args[0]) - ev(e.left.args[1]))  # max(a, b) - min(a, b) == |a - b|
        if isinstance(e, ast.BinOp) and isinstance(e.op, (ast.Sub, ast.Add)):
            a, b = ev(e.left), ev(e.right)
            return a - b if isinstance(e.op, ast.Sub) else a + b
        if isinstance(e, ast.UnaryOp) and isinstance(e.op, ast.USub):
            return -ev(e.operand)
        if isinstance(e, ast.Call) and isinstance(e.func, ast.Name) and e.func.id == "abs" and len(e.args) == 1:
            raise AbsOfSigned(ev(e.args[0]))
        c = astq.canon(e)
        if c == "__x__":
            return Lin.sym("x")
        if c == "__p__.y":
            return Lin.sym("y")
        raise Undecided("`%s` in _get_duration" % ast.unparse(e)[:50])

    lin = ev(nf)
    if lin == Lin.sym("x") - Lin.sym("y"):
        return 1
    if lin == Lin.sym("y") - Lin.sym("x"):
        return -1
    raise Undecided("_get_duration returns %r, neither x - y nor y - x" % lin)


# ====================================================================================== R5

LABEL_METHODS = {"first_valid_index", "last_valid_index", "idxmax", "idxmin"}
POS_CALLS = {"builtins.range", "numpy.arange", "numpy.flatnonzero", "numpy.argwhere", "numpy.nonzero", "numpy.argsort", "numpy.argmax",
             "numpy.argmin", "numpy.nanargmax", "numpy.nanargmin", "numpy.searchsorted"}


class PosLabel:
    """flow-insensitive provenance of names inside one function: DATA (user series), POS (integer positions), LABEL."""

    def __init__(self, repo, module, fn, data_params, pos_params=()):
        self.repo, self.module, self.fn = repo, module, fn
        self.data = set(data_params)
        self.pos = set(pos_params)
        self.label = set()
        self.split_results = set()
        changed = True
        it = 0
        while changed and it < 6:
            changed = False
            it += 1
            for n in astq.walk_no_nested(fn):
                if isinstance(n, ast.Assign) and len(n.targets) == 1 and isinstance(n.targets[0], ast.Name):
                    changed |= self.bind(n.targets[0].id, n.value)
                elif isinstance(n, ast.Assign) and len(n.targets) == 1 and isinstance(n.targets[0], ast.Tuple) \
                        and isinstance(n.value, ast.Tuple) and len(n.value.elts) == len(n.targets[0].elts):
                    for te_, ve_ in zip(n.targets[0].elts, n.value.elts):  # a, b = x, y
                        if isinstance(te_, ast.Name):
                            changed |= self.bind(te_.id, ve_)
                elif isinstance(n, (ast.For, ast.comprehension)):
                    tg, itx = n.target, n.iter
                    k = self.iter_kind(itx)
                    for nm in [x.id for x in ast.walk(tg) if isinstance(x, ast.Name)]:
                        if k and nm not in getattr(self, k):
                            getattr(self, k).add(nm)
                            changed = True

    def ext(self, e):
        d = dotted(e)
        if not d:
            return None
        if d.split(".")[0] in astq.all_param_names(self.fn):
            return None
        if d in ("range", "len", "int"):
            return "builtins." + d
        s = self.repo.resolve_dotted(self.module, d)
        return s.dotted if s is not None else None

    def bind(self, name, v):
        k = self.kind(v)
        if k and name not in getattr(self, k):
            getattr(self, k).add(name)
            return True
        return False

    def is_data(self, e):
        if isinstance(e, ast.Name):
            return e.id in self.data
        if isinstance(e, ast.Call) and self.ext(e.func) in VALIDATORS and e.args:
            return self.is_data(e.args[0])
        return False

    def iter_kind(self, itx):
        if self.is_data(itx):
            return "label"  # iterating a Series/DataFrame yields labels (column names)
        if isinstance(itx, ast.Call) and isinstance(itx.func, ast.Attribute) and itx.func.attr == "split":
            return "split_results"
        k = self.kind(itx)
        if k == "pos":
            return "pos"
        return None

    def kind(self, v):
        if self.is_data(v):
            return "data"
        if isinstance(v, ast.Name):
            for k in ("pos", "label", "split_results"):
                if v.id in getattr(self, k):
                    return k
            return None
        if isinstance(v, ast.Call):
            d = self.ext(v.func)
            if d in POS_CALLS:
                return "pos"
            if isinstance(v.func, ast.Attribute) and v.func.attr in LABEL_METHODS and self.is_data(v.func.value):
                return "label"
            if d in ("builtins.len", "builtins.int") and v.args and d == "builtins.int":
                return self.kind(v.args[0])
            return None
        if isinstance(v, ast.Subscript):
            b = self.kind(v.value)
            if b in ("split_results", "pos"):
                return "pos"  # windows yielded by a splitter / elements of position arrays are positions
            if isinstance(v.value, ast.Attribute) and v.value.attr in ("index", "columns") and self.is_data(v.value.value):
                return "label"
            return None
        if isinstance(v, ast.BinOp):
            a, b = self.kind(v.left), self.kind(v.right)
            if "pos" in (a, b) and "label" not in (a, b) and "data" not in (a, b):
                return "pos"
            return None
        if isinstance(v, ast.Attribute) and v.attr in ("index", "columns") and self.is_data(v.value):
            return "label"
        return None


def check_positions(ctx, repo):
    """Results are keyed by (public entry point, its data parameter, kind of access): private helpers on the way and the
    number / order of the accesses do not enter the key (they are listed in the detail text)."""
    n = 0
    for rel in (HAMPEL, IMPUTE, ACF, BOX, DET, DES, ADAPT, COMPOSE):
        m = repo.module(rel)
        # entry methods: the first parameter (Z) of transform / inverse_transform / fit / update is user data
        work = []
        for c in classes_in(repo, rel):
            for mn, fn in c.methods.items():
                ps = astq.param_names(fn, True)
                if mn in ("transform", "inverse_transform", "fit", "update", "fit_transform") and ps:
                    work.append((c.name + "." + mn, fn, c, {ps[0]: ps[0]}, set(), c.name + "." + mn))
        groups = {}  # (entry, entry parameter, class of access) -> [(where, text)]
        done = set()
        for _ in range(4):
            new = []
            for (q, fn, c, dmap, pps, entry) in work:
                key = (id(fn), frozenset(dmap.items()), frozenset(pps), entry)
                if key in done:
                    continue
                done.add(key)
                pl = PosLabel(repo, m, fn, set(dmap), pps)
                # local names bound to the same user series inherit the entry parameter
                origin = dict(dmap)
                for nm in pl.data:
                    origin.setdefault(nm, sorted(set(dmap.values()))[0] if len(set(dmap.values())) == 1 else nm)
                for call in astq.calls(fn):
                    tgt = None
                    if isinstance(call.func, ast.Name) and isinstance(m.defs.get(call.func.id), ast.FunctionDef):
                        tgt, skip, q2 = m.defs[call.func.id], False, call.func.id
                    elif isinstance(call.func, ast.Attribute) and isinstance(call.func.value, ast.Name) and call.func.value.id == "self" and c is not None:
                        hit = repo.lookup_method(c, call.func.attr)
                        if hit and hit[0].module is m:
                            tgt, skip, q2 = hit[1], True, c.name + "." + call.func.attr
                    if tgt is None:
                        continue
                    b = astq.bind_call(tgt, call, skip_self=skip)
                    if not b:
                        continue
                    d2 = {}
                    for p_, e in b.items():
                        if not isinstance(e, ast.AST):
                            continue
                        src = None
                        if pl.kind(e) == "data":
                            src = e
                        elif isinstance(e, ast.Subscript) and pl.is_data(e.value) and pl.kind(e.slice) == "label":
                            src = e.value  # a column selected by label is still user data
                        if src is not None:
                            while isinstance(src, ast.Call) and src.args:
                                src = src.args[0]
                            d2[p_] = origin.get(src.id, src.id) if isinstance(src, ast.Name) else sorted(set(dmap.values()))[0]
                    p2 = {p_ for p_, e in b.items() if isinstance(e, ast.AST) and pl.kind(e) == "pos"}
                    if d2:
                        new.append((q2, tgt, c if skip else None, d2, p2, entry))
                for node in sorted((x for x in astq.walk_no_nested(fn) if isinstance(x, ast.Subscript)), key=lambda x: (x.lineno, x.col_offset)):
                    base = node.value
                    if isinstance(base, ast.Attribute) and base.attr in ("iloc", "loc", "iat", "at") and pl.is_data(base.value):
                        via, series = base.attr, base.value
                    elif pl.is_data(base):
                        via, series = "[]", base
                    else:
                        continue
                    idx = node.slice
                    parts = idx.elts if isinstance(idx, ast.Tuple) else [idx]
                    is_slice = False
                    if isinstance(idx, ast.Slice):
                        # s[a:b] through plain [] is *positional* for integer bounds, s.loc[a:b] is by label
                        parts = [b_ for b_ in (idx.lower, idx.upper) if b_ is not None]
                        is_slice = True
                    kinds = {pl.kind(p_) for p_ in parts} - {None}
                    if not kinds:
                        continue
                    if is_slice and via == "[]":
                        via = "[:]"
                    sv = series
                    while isinstance(sv, ast.Call) and sv.args:
                        sv = sv.args[0]
                    param = origin.get(sv.id, sv.id) if isinstance(sv, ast.Name) else "?"
                    kind = "positions" if "pos" in kinds else "labels"
                    item = ("%s:%s in %s" % (rel, node.lineno, q), ast.unparse(node)[:60], ast.unparse(idx))
                    lst = groups.setdefault((entry, param, "%s-through-%s" % (kind, via)), [])
                    if item not in lst:
                        lst.append(item)
            work = new
        for (entry, param, access), sites in sorted(groups.items()):
            n += 1
            key2 = "%s:%s:%s" % (entry, param, access)
            where = "; ".join("`%s` (%s)" % (t, w) for w, t, _ in sites)
            loc = sites[0][0].split(" in ")[0]
            kind, via = access.split("-through-")
            positional = via in ("iloc", "iat", "[:]")
            if kind == "positions" and not positional:
                ctx.violation("R5", key2, "%s: integer positions are used as *labels* on the user's series `%s`: %s. With an integer index that "
                              "does not start at 0 this selects other rows or raises KeyError; positions must go through .iloc / numpy"
                              % (entry, param, where), loc, witness={"sites": where})
            elif kind == "labels" and positional:
                ctx.violation("R5", key2, "%s: labels are used as positions on the user's series `%s`: %s%s" % (
                    entry, param, where, ". A plain `s[a:]` slice with an integer bound is positional: with an integer index that does not start at 0 "
                    "(e.g. RangeIndex(100, 200), first valid label 103) it cuts at position 103 instead of label 103; use .loc[a:]" if via == "[:]" else ""),
                    loc, witness={"sites": where})
            else:
                ctx.ok("R5", key2, "%d access(es): %s" % (len(sites), where[:200]), loc)
    return n


# ====================================================================================== R6


def check_fit_transform(ctx, repo):
    base = repo.cls(BASE + ":BaseTransformer")
    fn = repo.func(BASE, "BaseTransformer.fit_transform")
    loc = ctx.loc(base.module, fn)
    ps = astq.param_names(fn, True)
    if len(ps) < 2:
        ctx.undecided("R6", "BaseTransformer.fit_transform", "unexpected signature", loc)
        return
    Z, X = ps[0], ps[1]
    try:
        nf = NF(repo, base)
        v = nf.method("fit_transform")
    except Undecided as e:
        ctx.undecided("R6", "BaseTransformer.fit_transform", "normal form: %s" % e, loc)
        return

    def shape(e, x_is_none):
        """is e == self.fit(Z[, X]).transform(Z) ?"""
        if not (isinstance(e, ast.Call) and isinstance(e.func, ast.Attribute) and e.func.attr == "transform"):
            return False, "value is not `<fitted>.transform(...)`: `%s`" % ast.unparse(e)[:80]
        inner = e.func.value
        if not (isinstance(inner, ast.Call) and isinstance(inner.func, ast.Attribute) and inner.func.attr == "fit"
                and isinstance(inner.func.value, ast.Name) and inner.func.value.id == "self"):
            return False, "transform is not applied to the result of self.fit(...): `%s`" % ast.unparse(e)[:80]
        hit_fit = repo.lookup_method(base, "fit")
        hit_tr = repo.lookup_method(base, "transform")
        bf = astq.bind_call(hit_fit[1], inner, skip_self=True)
        bt = astq.bind_call(hit_tr[1], e, skip_self=True)
        if bf is None or bt is None:
            return False, "arguments not bound"
        fz, tz = bf.get(astq.param_names(hit_fit[1], True)[0]), bt.get(astq.param_names(hit_tr[1], True)[0])
        if not (isinstance(fz, ast.Name) and fz.id == Z):
            return False, "fit is given `%s`, not the data `%s`" % (ast.unparse(fz) if fz is not None else None, Z)
        if not (isinstance(tz, ast.Name) and tz.id == Z):
            return False, "transform is given `%s`, not the data `%s` that was fitted" % (ast.unparse(tz) if tz is not None else None, Z)
        fx = bf.get(astq.param_names(hit_fit[1], True)[1])
        if not x_is_none and not (isinstance(fx, ast.Name) and fx.id == X):
            return False, "fit does not receive `%s` although it is given" % X
        if fx is not None and not (isinstance(fx, ast.Name) and fx.id == X) and not (isinstance(fx, ast.Constant) and fx.value is None):
            return False, "fit receives `%s` as second argument" % ast.unparse(fx)
        return True, "self.fit(%s%s).transform(%s)" % (Z, "" if fx is None else ", " + X, Z)

    branches = []
    if isinstance(v, ast.IfExp) and astq.canon(v.test) in ("(%s Is None)" % X, "(%s IsNot None)" % X):
        none_first = "IsNot" not in astq.canon(v.test)
        branches = [(v.body, none_first), (v.orelse, not none_first)]
    else:
        branches = [(v, False)]
    for e, xnone in branches:
        ok, why = shape(e, xnone)
        ctx.check(ok, "R6", "BaseTransformer.fit_transform[%s]" % ("X is None" if xnone else "X given"), why,
                  "default fit_transform is not fit followed by transform on the same data: %s" % why, loc, witness={"value": ast.unparse(e)})
    # overrides
    for c in repo.subclasses(base):
        if "fit_transform" not in c.methods or ".tests" in c.module.name:
            continue
        if not c.module.relpath.startswith("sktime/transformations/"):
            ctx.info("fit_transform override outside sktime/transformations not judged: %s" % c.qual)
            continue
        f2 = c.methods["fit_transform"]
        loc2 = ctx.loc(c.module, f2)
        p2 = astq.param_names(f2, True)
        rets = astq.returns(f2)
        ok = None
        why = ""
        for r in rets:
            val = astq.inline_locals(f2, r.value) if r.value is not None else None
            if isinstance(val, ast.Call) and isinstance(val.func, ast.Attribute) and val.func.attr == "fit_transform" \
                    and isinstance(val.func.value, ast.Call) and dotted(val.func.value.func) == "super":
                args = [astq.canon(a) for a in val.args] + ["%s=%s" % (k.arg, astq.canon(k.value)) for k in val.keywords]
                good = args[:len(p2)] == p2[:len(args)] or args == ["%s=%s" % (p, p) for p in p2[:len(args)]]
                ok = good if ok is None else (ok and good)
                why = "delegates to the base class with (%s)" % ", ".join(args)
            elif isinstance(val, ast.Call) and isinstance(val.func, ast.Attribute) and val.func.attr == "transform":
                inner = val.func.value
                good = (isinstance(inner, ast.Call) and isinstance(inner.func, ast.Attribute) and inner.func.attr == "fit"
                        and inner.args and val.args and astq.canon(inner.args[0]) == p2[0] and astq.canon(val.args[0]) == p2[0])
                ok = good if ok is None else (ok and good)
                why = "fit then transform on `%s`" % p2[0]
            else:
                ok = None
                why = "override returns `%s`" % (ast.unparse(val)[:80] if val is not None else None)
                break
        if ok is None:
            # a single-pass override: necessary conditions of agreeing with fit().transform() for every configuration
            miss_opt, miss_attr = override_gaps(repo, c, f2)
            if miss_opt:
                ok = False
                why = ("fit reads the constructor option(s) %s but the fit_transform override never does (the option is not forwarded), so for a "
                       "non-default value fit_transform(z) differs from fit(z).transform(z)" % ", ".join("self." + o for o in miss_opt))
            elif miss_attr:
                ok = False
                why = "fit stores %s, the fit_transform override does not: the estimator is left in a different fitted state" % \
                      ", ".join("self." + a for a in miss_attr)
        ctx.check(ok, "R6", "%s.fit_transform" % c.name, why, "override of fit_transform disagrees with fit(...).transform(...): %s" % why, loc2)


def self_reads(repo, cls, fn, seen=None, depth=0):
    """self attributes read by ``fn`` (transitively through self.method() calls)"""
    seen = seen or set()
    if id(fn) in seen or depth > 5:
        return set()
    seen = seen | {id(fn)}
    selfname = astq.param_names(fn)[0] if astq.param_names(fn) else "self"
    out = set()
    for n in ast.walk(fn):
        if isinstance(n, ast.Attribute) and isinstance(n.ctx, ast.Load) and isinstance(n.value, ast.Name) and n.value.id == selfname:
            hit = repo.lookup_method(cls, n.attr)
            if hit and n.attr not in hit[0].properties:
                out |= self_reads(repo, cls, hit[1], seen, depth + 1)
            else:
                out.add(n.attr)
    return out


def override_gaps(repo, cls, override):
    """(constructor options read by fit/transform but not by the override, attributes fit stores but the override does not)"""
    params = set()
    for k in repo.mro(cls):
        if isinstance(k, ClassInfo) and "__init__" in k.methods:
            params |= set(astq.all_param_names(k.methods["__init__"], skip_self=True))
    hf, ht = repo.lookup_method(cls, "fit"), repo.lookup_method(cls, "transform")
    need = set()
    for h in (hf, ht):
        if h:
            need |= self_reads(repo, cls, h[1]) & params
    have = self_reads(repo, cls, override)
    miss_opt = sorted(need - have)
    stores = attr_writes(repo, cls, hf[1], hf[0], must=True) if hf else set()
    got = attr_writes(repo, cls, override, cls, must=True)
    return miss_opt, sorted(stores - got)


def check_update_forwarding(ctx, repo):
    """R1 (history clause "with and without intervening update calls"): Detrender.update keeps the trend model in step with the data by
    forwarding (validated Z, X, update_params) to forecaster_.update in the roles (y, X, update_params) on every path."""
    cls = repo.cls(DET + ":Detrender")
    hit = repo.lookup_method(cls, "update")
    if hit is None:
        return
    k, fn = hit
    loc = ctx.loc(k.module, fn)
    ps = astq.param_names(fn, True)
    base = repo.cls("sktime.forecasting.base._base:BaseForecaster") if "sktime.forecasting.base._base:BaseForecaster" in repo.classes else None
    sig = repo.lookup_method(base, "update")[1] if base is not None and repo.lookup_method(base, "update") else None
    calls = [c_ for c_ in astq.calls(fn) if isinstance(c_.func, ast.Attribute) and c_.func.attr == "update"
             and astq.is_self_attr(c_.func.value, "self", "forecaster_")]
    g = CFG(fn)
    must = bool(calls) and g.must_pass(lambda n_: any(x in calls for x in n_.calls()))
    ctx.check(must, "R1", "Detrender.update:forwards", "forecaster_.update is called on every path",
              "Detrender.update does not call self.forecaster_.update on every path: the trend model falls behind the data it is later asked to "
              "detrend", loc)
    if not calls or sig is None:
        if calls and sig is None:
            ctx.undecided("R1", "Detrender.update:roles", "signature of BaseForecaster.update not found", loc)
        return
    for call in calls:
        b = astq.bind_call(sig, call, skip_self=True)
        if b is None:
            ctx.undecided("R1", "Detrender.update:roles", "arguments of forecaster_.update not bound", ctx.loc(k.module, call))
            continue
        found = []
        vals = {p_: strip_validators(repo, k.module, astq.inline_locals(fn, e_), found) for p_, e_ in b.items() if isinstance(e_, ast.AST)}
        names = astq.param_names(sig, True)
        want = {names[0]: ps[0]}
        for extra in ps[1:]:
            if extra in names:
                want[extra] = extra
        bad = ["%s=%s" % (p_, ast.unparse(vals[p_]) if p_ in vals else "<missing>") for p_, w_ in want.items()
               if not (p_ in vals and isinstance(vals[p_], ast.Name) and vals[p_].id == w_)]
        ctx.check(not bad, "R1", "Detrender.update:roles", "forecaster_.update receives %s" % ", ".join("%s=%s" % kv for kv in sorted(want.items())),
                  "Detrender.update hands its arguments to forecaster_.update in the wrong roles: %s (expected %s)"
                  % (", ".join(bad), ", ".join("%s=%s" % kv for kv in sorted(want.items()))), ctx.loc(k.module, call))


def check_horizon_contract(ctx, repo):
    """R1 (dependency): Detrender.transform / inverse_transform evaluate the trend at ForecastingHorizon(z.index, is_relative=False); the
    forecasters turn it into positions with to_absolute / to_relative / to_absolute_int and the in-/out-of-sample masks.  Those conversions
    are exactly what property C02 decides, so C02's rules are evaluated here and every (not already known) violation is reported as a broken
    dependency of the detrending duality -- no duplicated logic."""
    from .. import report
    try:
        from . import c02
        sub = report.Ctx("C02", repo, ctx.tier)
        c02.run(sub)
    except Exception as e:  # C02 reports its own analysis errors
        ctx.info("horizon contract (C02) not evaluated: %r" % (e,))
        return
    known = {(k["rule"], k["construct"]) for k in report.load_known() if k.get("property") == "C02" and k.get("status", "known") == "known"}
    bad = [r for r in sub.results if r["verdict"] == report.VIOLATION and (r["rule"], r["construct"]) not in known]
    n = sum(1 for r in sub.results if r["verdict"] == report.HOLDS)
    for r in bad:
        ctx.violation("R1", "Detrender:horizon-contract:%s" % r["construct"],
                      "Detrender builds ForecastingHorizon(z.index, is_relative=False) and relies on the horizon conversions; C02-%s reports: %s"
                      % (r["rule"], " ".join(str(r["detail"]).split())[:300]), r["loc"], witness={"c02_rule": r["rule"], "construct": r["construct"]})
    if not bad:
        ctx.ok("R1", "Detrender:horizon-contract", "the horizon conversions Detrender relies on satisfy C02 (%d obligations hold)" % n,
               ctx.loc(repo.module(DET), repo.cls(DET + ":Detrender").node))


# ====================================================================================== run


def run(ctx):
    repo = ctx.repo
    for a in ANCHORS + [PIPE, COS]:
        repo.module(a)
    ctx.explain(
        "C13 (partial): R1 builds symbolic normal forms of transform and inverse_transform per concrete class (locals substituted, private "
        "helper methods inlined, branches as conditionals, accumulating loops as folds) and compares them: identical validated input and "
        "auxiliary quantities, and every difference is an inverse pair from the table {(-,+), (/,*), (log,exp), (boxcox,inv_boxcox), "
        "(transform,inverse_transform), forward/reverse iteration}. R2 index provenance of the normal form of transform for every class whose "
        "resolved tags contain transform-returns-same-time-index. R3 per public method of Deseasonalizer and subclasses: may-write of the phase "
        "reference _y_index implies must-write (all paths, through self-calls) of seasonal_ from the same series. R4 _align_seasonal as a "
        "congruence: shift == -(first(y) - first(train)) mod self.sp, rolled array = one period, cyclic extension to len(y). R5 provenance of "
        "positions (range/arange/splitter windows) vs labels at every subscript of user series in the series transformers. R6 structure of the "
        "default fit_transform and of its overrides. Not decided: numeric round-trip error, values under an index shift, behaviour of wrapped "
        "third-party transformers.")
    ctx.assume("np.roll(a, s)[i] = a[(i - s) mod len(a)]; np.resize(a, n)[i] = a[i mod len(a)]; Python's % returns a value in [0, m) for m > 0")
    ctx.assume("_coerce_duration_to_int converts a period/timestamp difference into the integer number of periods (unit conversion only)")
    ctx.assume("element-wise numpy ufuncs and pandas arithmetic keep the index of their pandas operand; boxcox/inv_boxcox, log/exp are mutually inverse")
    ctx.assume("pd.Series.__getitem__ with an integer array on an integer index selects by label (pandas 1.x semantics pinned by the repo)")
    check_duality(ctx, repo)
    check_horizon_contract(ctx, repo)
    check_update_forwarding(ctx, repo)
    check_index(ctx, repo)
    check_phase(ctx, repo)
    check_alignment(ctx, repo)
    check_positions(ctx, repo)
    check_fit_transform(ctx, repo)
    # floors: instance counts confirmed by hand on commit 132f3d5 (DESIGN App. A.3)
    ctx.floor("R1", 32)  # 8 pairs x (signature, validation, auxiliary, operator) + pipeline order
    ctx.floor("R2", 7)   # Cosine, Detrender, Deseasonalizer, ConditionalDeseasonalizer, TabularToSeriesAdaptor, BoxCox, Log
    ctx.floor("R3", 6)   # fit / fit_transform / update of both deseasonalizers (+ same-series of the two fits)
    ctx.floor("R4", 9)   # source, length, modulus, shift + three estimators of seasonal_
    ctx.floor("R5", 4)   # (entry point, series, access kind) groups over 17 subscripts of user series  # 17 subscripts of user series with position / label provenance
    ctx.floor("R6", 3)   # two branches of the default + ColumnTransformer override
