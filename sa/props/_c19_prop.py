"""E8 -- propositional abstraction and exhaustive truth tables (DESIGN section 2, engine E8).

Boolean structure of conditions is extracted over opaque *atoms*; two formulas (or a formula
and a specification) are compared on every assignment of the atoms (at most 2**10 rows).
Formulas are nested tuples:

    ("const", bool) | ("atom", key) | ("not", f) | ("and", [f, ...]) | ("or", [f, ...])

``key`` is any hashable; the caller's ``atom_of(expr)`` decides what an atom is (a resolved flag,
an existence check identified by the key it probes, ...).  Comparison atoms keep comparator and
constant (their key is the canonical form of the whole comparison), so ``x < 1`` and ``x < 0`` are
different atoms.  Nothing here looks at source text.
"""
import ast
import itertools

from .. import astq

MAX_ATOMS = 10

TRUE = ("const", True)
FALSE = ("const", False)


class TooManyAtoms(Exception):
    pass


def Atom(key):
    return ("atom", key)


def Not(f):
    if f[0] == "const":
        return ("const", not f[1])
    if f[0] == "not":
        return f[1]
    return ("not", f)


def And(*fs):
    out = []
    for f in fs:
        if f[0] == "and":
            out.extend(f[1])
        elif f == FALSE:
            return FALSE
        elif f != TRUE:
            out.append(f)
    if not out:
        return TRUE
    return out[0] if len(out) == 1 else ("and", out)


def Or(*fs):
    out = []
    for f in fs:
        if f[0] == "or":
            out.extend(f[1])
        elif f == TRUE:
            return TRUE
        elif f != FALSE:
            out.append(f)
    if not out:
        return FALSE
    return out[0] if len(out) == 1 else ("or", out)


def Implies(a, b):
    return Or(Not(a), b)


def Iff(a, b):
    return And(Implies(a, b), Implies(b, a))


def from_ast(expr, atom_of):
    """Formula of a Python condition.

    ``atom_of(expr)`` is asked for every sub-expression that is not a Boolean connective; it returns
    a formula (usually ``Atom(key)``, possibly a whole sub-formula when a local is substituted) or
    ``None``; ``None`` makes the sub-expression an opaque atom keyed by its canonical shape.
    """
    if isinstance(expr, ast.BoolOp):
        parts = [from_ast(v, atom_of) for v in expr.values]
        return And(*parts) if isinstance(expr.op, ast.And) else Or(*parts)
    if isinstance(expr, ast.UnaryOp) and isinstance(expr.op, ast.Not):
        return Not(from_ast(expr.operand, atom_of))
    if isinstance(expr, ast.IfExp):
        c = from_ast(expr.test, atom_of)
        return Or(And(c, from_ast(expr.body, atom_of)), And(Not(c), from_ast(expr.orelse, atom_of)))
    if isinstance(expr, ast.Constant) and isinstance(expr.value, (bool, type(None))):
        return ("const", bool(expr.value))
    if isinstance(expr, ast.Call) and isinstance(expr.func, ast.Name) and expr.func.id == "bool" \
            and len(expr.args) == 1 and not expr.keywords:
        return from_ast(expr.args[0], atom_of)
    if isinstance(expr, ast.Compare) and len(expr.ops) == 1 and isinstance(expr.comparators[0], ast.Constant) \
            and isinstance(expr.comparators[0].value, bool) and isinstance(expr.ops[0], (ast.Is, ast.Eq, ast.IsNot, ast.NotEq)):
        # `x is True`, `x == False`, ... on a Boolean atom
        inner = from_ast(expr.left, atom_of)
        pos = isinstance(expr.ops[0], (ast.Is, ast.Eq)) == expr.comparators[0].value
        return inner if pos else Not(inner)
    f = atom_of(expr)
    if f is not None:
        return f
    return Atom(("opaque", astq.canon(expr)))


def atoms(f, acc=None):
    """Atom keys of ``f`` in first-occurrence order."""
    acc = [] if acc is None else acc
    if f[0] == "atom":
        if f[1] not in acc:
            acc.append(f[1])
    elif f[0] == "not":
        atoms(f[1], acc)
    elif f[0] in ("and", "or"):
        for g in f[1]:
            atoms(g, acc)
    return acc


def evaluate(f, sigma):
    k = f[0]
    if k == "const":
        return f[1]
    if k == "atom":
        return sigma[f[1]]
    if k == "not":
        return not evaluate(f[1], sigma)
    if k == "and":
        return all(evaluate(g, sigma) for g in f[1])
    if k == "or":
        return any(evaluate(g, sigma) for g in f[1])
    raise ValueError(f)


def assignments(keys):
    """Every assignment {key: bool} (exhaustive; fails closed above MAX_ATOMS atoms)."""
    keys = list(keys)
    if len(keys) > MAX_ATOMS:
        raise TooManyAtoms("%d atoms (> %d): truth table not enumerated" % (len(keys), MAX_ATOMS))
    for vals in itertools.product((False, True), repeat=len(keys)):
        yield dict(zip(keys, vals))


def counterexamples(f, keys, admissible=None, limit=4):
    """Admissible assignments falsifying ``f`` (empty list = valid); also the number of rows checked."""
    bad, rows = [], 0
    for s in assignments(keys):
        if admissible is not None and not evaluate(admissible, s):
            continue
        rows += 1
        if not evaluate(f, s):
            if len(bad) < limit:
                bad.append(s)
    return bad, rows


def show(f, name=str):
    k = f[0]
    if k == "const":
        return "True" if f[1] else "False"
    if k == "atom":
        return name(f[1])
    if k == "not":
        return "not " + show(f[1], name) if f[1][0] in ("atom", "const") else "not (%s)" % show(f[1], name)
    sep = " and " if k == "and" else " or "
    return sep.join(show(g, name) if g[0] in ("atom", "const", "not") else "(%s)" % show(g, name) for g in f[1])


def show_sigma(s, name=str):
    return ", ".join("%s=%s" % (name(k), "T" if v else "F") for k, v in s.items())
