"""One module per property: ``run(ctx)`` evaluates the property's rules on ``ctx.repo``."""
