"""Polynomial symbolic execution of a loop body (C14, PAA frame loop).

Values are polynomials with rational coefficients over symbols (``Poly``) or a quotient of two polynomials
(``Ratio``, only kept for values that are emitted; a ratio that enters further arithmetic is replaced by an
atomic symbol with a recorded definition).  ``PolyExec`` executes straight-line code with ``if`` branches path by
path and records, per path, the final environment, the comparison constraints taken and the values appended to
lists.  Nothing of the repository is executed.
"""
import ast
from fractions import Fraction

from .. import astq
from ..lin import Lin


class Poly:
    __slots__ = ("t",)

    def __init__(self, terms=None):
        self.t = {k: Fraction(v) for k, v in (terms or {}).items() if v != 0}

    @staticmethod
    def c(v):
        return Poly({(): v})

    @staticmethod
    def sym(name):
        return Poly({(name,): 1})

    def __add__(self, o):
        t = dict(self.t)
        for k, v in o.t.items():
            t[k] = t.get(k, 0) + v
        return Poly(t)

    def __neg__(self):
        return Poly({k: -v for k, v in self.t.items()})

    def __sub__(self, o):
        return self + (-o)

    def __mul__(self, o):
        t = {}
        for k1, v1 in self.t.items():
            for k2, v2 in o.t.items():
                k = tuple(sorted(k1 + k2))
                t[k] = t.get(k, 0) + v1 * v2
        return Poly(t)

    def __eq__(self, o):
        return isinstance(o, Poly) and self.t == o.t

    def __hash__(self):
        return hash(tuple(sorted(self.t.items())))

    def is_const(self):
        return all(k == () for k in self.t)

    def const(self):
        return self.t.get((), Fraction(0))

    def symbols(self):
        return {s for k in self.t for s in k}

    def degree_in(self, sym):
        return max([k.count(sym) for k in self.t] or [0])

    def coeff(self, sym):
        """Polynomial coefficient of ``sym`` (first power); None if a higher power occurs."""
        if self.degree_in(sym) > 1:
            return None
        out = {}
        for k, v in self.t.items():
            if sym in k:
                lst = list(k)
                lst.remove(sym)
                out[tuple(lst)] = v
        return Poly(out)

    def without(self, sym):
        return Poly({k: v for k, v in self.t.items() if sym not in k})

    def subst(self, sym, value):
        out = Poly()
        for k, v in self.t.items():
            term = Poly({(): v})
            for s in k:
                term = term * (value if s == sym else Poly.sym(s))
            out = out + term
        return out

    def to_lin(self):
        """Affine form if the polynomial has degree <= 1, else None."""
        terms, const = {}, Fraction(0)
        for k, v in self.t.items():
            if len(k) == 0:
                const = v
            elif len(k) == 1:
                terms[k[0]] = v
            else:
                return None
        return Lin(terms, const)

    def __repr__(self):
        if not self.t:
            return "0"
        parts = []
        for k, v in sorted(self.t.items()):
            mono = "*".join(k)
            if not k:
                parts.append(str(v))
            elif v == 1:
                parts.append(mono)
            elif v == -1:
                parts.append("-" + mono)
            else:
                parts.append("%s*%s" % (v, mono))
        return " + ".join(parts).replace("+ -", "- ")


class Ratio:
    def __init__(self, num, den):
        self.num, self.den = num, den

    def __repr__(self):
        return "(%r)/(%r)" % (self.num, self.den)


class Unknown(Exception):
    """The code uses a construct the polynomial executor does not interpret."""


class Path:
    def __init__(self, env, cons=None, emits=None):
        self.env = dict(env)
        self.cons = list(cons or [])  # (op, Poly lhs - rhs) meaning  lhs - rhs  op  0
        self.emits = list(emits or [])  # (list value or name, value)
        self.done = False  # the iteration ended early (``continue``)

    def copy(self):
        p = Path(self.env, self.cons, self.emits)
        p.done = self.done
        return p


NEG = {"<": ">=", "<=": ">", ">": "<=", ">=": "<", "==": "!=", "!=": "=="}
OPS = {ast.Lt: "<", ast.LtE: "<=", ast.Gt: ">", ast.GtE: ">=", ast.Eq: "==", ast.NotEq: "!="}


class PolyExec:
    def __init__(self):
        self.defs = {}  # atomic symbol -> (num Poly, den Poly) or description
        self.ops = {}  # opaque arithmetic symbol -> operator name

    # ------------------------------------------------------------ expressions
    def atom(self, v):
        if isinstance(v, Ratio):
            name = "(%r)/(%r)" % (v.num, v.den)
            self.defs[name] = (v.num, v.den)
            return Poly.sym(name)
        return v

    def opaque(self, e):
        return Poly.sym("<%s>" % astq.canon(e))

    def ev(self, e, env):
        if isinstance(e, ast.Constant) and isinstance(e.value, (int, float)) and not isinstance(e.value, bool):
            return Poly.c(Fraction(e.value).limit_denominator(10 ** 9))
        if isinstance(e, ast.Name):
            if e.id in env:
                return env[e.id]
            return Poly.sym(e.id)
        if isinstance(e, ast.UnaryOp) and isinstance(e.op, ast.USub):
            return -self.atom(self.ev(e.operand, env))
        if isinstance(e, ast.BinOp):
            a, b = self.ev(e.left, env), self.ev(e.right, env)
            if isinstance(e.op, ast.Div):
                a, b = self.atom(a), self.atom(b)
                if b.is_const() and b.const() != 0:
                    return a * Poly.c(1 / b.const())
                return Ratio(a, b)
            a, b = self.atom(a), self.atom(b)
            if isinstance(e.op, ast.Add):
                return a + b
            if isinstance(e.op, ast.Sub):
                return a - b
            if isinstance(e.op, ast.Mult):
                return a * b
            name = "%s(%r, %r)" % (type(e.op).__name__, a, b)
            self.ops[name] = type(e.op).__name__
            return Poly.sym(name)
        if isinstance(e, ast.Subscript):
            idx = e.slice
            base = astq.canon(e.value, {})
            if isinstance(idx, ast.Name) and idx.id in env and isinstance(env[idx.id], Poly) and env[idx.id].symbols() \
                    and isinstance(e.value, ast.Name):
                return Poly.sym("%s[%r]" % (base, env[idx.id]))
            return self.opaque(e)
        if isinstance(e, ast.IfExp):
            raise Unknown("conditional expression")
        return self.opaque(e)

    # ------------------------------------------------------------- statements
    def run(self, stmts, paths):
        for st in stmts:
            nxt = []
            for p in paths:
                if p.done:
                    nxt.append(p)
                else:
                    nxt.extend(self.stmt(st, p))
            paths = nxt
            if len(paths) > 64:
                raise Unknown("too many paths")
        return paths

    def stmt(self, st, p):
        if isinstance(st, ast.Assign) and len(st.targets) == 1 and isinstance(st.targets[0], ast.Name):
            if isinstance(st.value, ast.List) and not st.value.elts:
                p.env[st.targets[0].id] = ("list", st.targets[0].id)
                return [p]
            p.env[st.targets[0].id] = self.atom(self.ev(st.value, p.env))
            return [p]
        if isinstance(st, ast.AugAssign) and isinstance(st.target, ast.Name) and isinstance(st.op, (ast.Add, ast.Sub, ast.Mult)):
            cur = self.ev(ast.Name(id=st.target.id, ctx=ast.Load()), p.env)
            if not isinstance(cur, Poly):
                raise Unknown("augmented assignment to a non-number")
            rhs = self.atom(self.ev(st.value, p.env))
            p.env[st.target.id] = cur + rhs if isinstance(st.op, ast.Add) else (cur - rhs if isinstance(st.op, ast.Sub) else cur * rhs)
            return [p]
        if isinstance(st, ast.If):
            test, body, orelse = st.test, st.body, st.orelse
            while isinstance(test, ast.UnaryOp) and isinstance(test.op, ast.Not):
                test, body, orelse = test.operand, orelse, body
            if not (isinstance(test, ast.Compare) and len(test.ops) == 1 and type(test.ops[0]) in OPS):
                raise Unknown("condition %s" % astq.canon(st.test))
            st = ast.If(test=test, body=body, orelse=orelse)
            a = self.atom(self.ev(st.test.left, p.env))
            b = self.atom(self.ev(st.test.comparators[0], p.env))
            op = OPS[type(st.test.ops[0])]
            d = a - b
            if d.is_const():
                c = d.const()
                truth = {"<": c < 0, "<=": c <= 0, ">": c > 0, ">=": c >= 0, "==": c == 0, "!=": c != 0}[op]
                return self.run(st.body if truth else st.orelse, [p])
            p1, p2 = p.copy(), p.copy()
            p1.cons.append((op, d, st.test))
            p2.cons.append((NEG[op], d, st.test))
            return self.run(st.body, [p1]) + self.run(st.orelse, [p2])
        if isinstance(st, ast.Expr) and isinstance(st.value, ast.Call) and isinstance(st.value.func, ast.Attribute) \
                and st.value.func.attr == "append" and len(st.value.args) == 1 and not st.value.keywords:
            v = self.ev(st.value.args[0], p.env)
            p.emits.append((astq.canon(st.value.func.value), v, st))
            return [p]
        if isinstance(st, ast.Continue):
            p.done = True
            return [p]
        if isinstance(st, (ast.Pass, ast.Expr)):
            return [p]
        raise Unknown("statement %s" % type(st).__name__)
