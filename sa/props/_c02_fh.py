"""Shared helper of C02 / C03: an abstract interpreter (subclass of ``absint.Interp``) in which
``ForecastingHorizon`` objects are *real* abstract objects: every method called on a horizon
is interpreted from the source of ``_fh.py`` (no built-in horizon semantics), constructors are
run, properties are evaluated, ``isinstance`` / ``type(x) in TYPES`` tests are decided from a
small run-time-type lattice, comparisons of an integer vector with a scalar become masks.

Value classes added here (all immutable, compared by value):

* ``Obj``    -- instance of a repo class with an attribute table (``mutable`` objects, i.e. the
               ``self`` of the method under analysis, are compared by identity);
* ``TV``     -- a typed opaque value: run-time type ``kind`` (dotted), constructor ``tag``, args;
* ``Mask``   -- ``vec <= 0`` / ``vec > 0`` / ``vec == 0`` / ``vec != 0`` in normal form;
* ``Sel``    -- ``vec[mask]``;
* ``Cnt`` / ``AllV`` -- ``sum(mask)`` / ``mask.all()``;
* ``SymV``   -- a resolved symbol bound to a local name (function-level imports).
"""
import ast

from ..absint import (Interp, Frame, State, SelfV, Vec, Rng, Arr, Tup, K, Opq, Lin, Alt, Gather, SliceV,
                      as_lin_val, _veq, _facts_meet)
from ..index import AnalysisError, ClassInfo, dotted
from .. import astq
from .. import absint as _absint

_EngineAlwaysRaises = getattr(_absint, "AlwaysRaises", None) or type("_NoEngineAlwaysRaises", (Exception,), {})

FH_PATH = "sktime/forecasting/base/_fh.py"


# ------------------------------------------------------------------------------ values
class Obj(SelfV):
    _n = 0

    def __init__(self, cls, attrs=None, mutable=False):
        SelfV.__init__(self, cls, attrs)
        Obj._n += 1
        self.oid = Obj._n
        self.mutable = mutable

    def __eq__(self, o):
        if not isinstance(o, Obj):
            return False
        if self.mutable or o.mutable:
            return self is o
        return self.cls is o.cls and self.attrs == o.attrs

    def __ne__(self, o):
        return not self.__eq__(o)

    def __hash__(self):
        return hash(("Obj", self.cls.qual if self.cls else None))

    def __repr__(self):
        return "%s{%s}" % (self.cls.name if self.cls else "?",
                           ", ".join("%s=%r" % kv for kv in sorted(self.attrs.items())))


class TV:
    """Typed opaque value."""

    def __init__(self, kind, tag, args=()):
        self.kind, self.tag, self.args = kind, tag, tuple(args)

    def __eq__(self, o):
        return isinstance(o, TV) and (self.kind, self.tag, self.args) == (o.kind, o.tag, o.args)

    def __ne__(self, o):
        return not self.__eq__(o)

    def __hash__(self):
        return hash(("TV", self.kind, self.tag, self.args))

    def __repr__(self):
        if self.tag == "input":
            return "<%s %s>" % (self.kind.split(".")[-1], self.args[0])
        return "%s(%s)" % (self.tag, ", ".join(map(repr, self.args)))


class Mask:
    """Normal form of ``vec op const``: ``op`` in le (vec <= 0), gt (vec > 0), eq, ne."""

    def __init__(self, op, vec):
        self.op, self.vec = op, vec

    def complement(self):
        return Mask({"le": "gt", "gt": "le", "eq": "ne", "ne": "eq"}.get(self.op, "not-" + self.op), self.vec)

    def __eq__(self, o):
        return isinstance(o, Mask) and self.op == o.op and self.vec == o.vec

    def __ne__(self, o):
        return not self.__eq__(o)

    def __hash__(self):
        return hash(("Mask", self.op, self.vec))

    def __repr__(self):
        return "[%r %s 0]" % (self.vec, {"le": "<=", "gt": ">", "eq": "==", "ne": "!="}.get(self.op, self.op))


class Sel:
    def __init__(self, base, mask):
        self.base, self.mask = base, mask

    def __eq__(self, o):
        return isinstance(o, Sel) and self.base == o.base and self.mask == o.mask

    def __ne__(self, o):
        return not self.__eq__(o)

    def __hash__(self):
        return hash(("Sel", self.base, self.mask))

    def __repr__(self):
        return "%r%r" % (self.base, self.mask)


class Cnt:
    def __init__(self, mask):
        self.mask = mask

    def __eq__(self, o):
        return isinstance(o, Cnt) and self.mask == o.mask

    def __ne__(self, o):
        return not self.__eq__(o)

    def __hash__(self):
        return hash(("Cnt", self.mask))

    def __repr__(self):
        return "count%r" % (self.mask,)


class AllV(Cnt):
    def __eq__(self, o):
        return isinstance(o, AllV) and self.mask == o.mask

    def __hash__(self):
        return hash(("AllV", self.mask))

    def __repr__(self):
        return "all%r" % (self.mask,)


class AlwaysRaises(_EngineAlwaysRaises):
    """An inlined callee raises on every path: the calling trace ends in that exception.
    ``node`` is the last explicit ``raise`` reached, ``sure`` says that every raising trace of the callee ended at
    an explicit ``raise`` whose enclosing conditions were all *decided* (not assumed by trace splitting)."""

    def __init__(self, node, what, sure=False):
        Exception.__init__(self, what)
        self.node = node
        self.sure = sure


class NVec(Vec):
    """``index.to_numpy()`` / ``index.values``: a numpy *view* of the integer data held by ``owner`` (a horizon's wrapped
    index).  Compares like the vector it shows; in-place operations on it write through to the owner."""

    def __init__(self, vec, owner=None):
        Vec.__init__(self, vec.base, vec.off, vec.sorted, vec.neg)
        self.owner = owner


def fresh(v):
    return Vec(v.base, v.off, v.sorted, v.neg) if isinstance(v, NVec) else v


class RaiseRec(tuple):
    """(raise node, sure?) of one raising trace plus the integer facts / function it happened in."""

    def __new__(cls, node, sure, facts=None, func=None):
        t = tuple.__new__(cls, (node, sure))
        t.facts, t.func = facts, func
        return t


class SymV:
    def __init__(self, sym):
        self.sym = sym

    def __eq__(self, o):
        return isinstance(o, SymV) and self.sym.dotted == o.sym.dotted

    def __hash__(self):
        return hash(("SymV", self.sym.dotted))

    def __repr__(self):
        return "<%s>" % self.sym.dotted


# ----------------------------------------------------------------- run-time type lattice
OBJECT = "builtins.object"
SUPERS = {
    "builtins.bool": {"builtins.int"},
    "builtins.int": set(),
    "numpy.int64": {"numpy.integer", "numpy.signedinteger", "numpy.number", "numpy.generic"},
    "builtins.float": set(),
    "builtins.str": set(),
    "builtins.list": set(),
    "builtins.tuple": set(),
    "builtins.set": set(),
    "builtins.dict": set(),
    "builtins.NoneType": set(),
    "numpy.ndarray": set(),
    "pandas.Series": set(),
    "pandas.DataFrame": set(),
    "pandas.Index": set(),
    "pandas.Int64Index": {"pandas.Index"},
    "pandas.RangeIndex": {"pandas.Int64Index", "pandas.Index"},
    "pandas.Float64Index": {"pandas.Index"},
    "pandas.DatetimeIndex": {"pandas.Index"},
    "pandas.PeriodIndex": {"pandas.Index"},
    "pandas.Timestamp": {"datetime.datetime", "datetime.date"},
    "pandas.Period": set(),
}
# alias spellings that denote the same run-time class
ALIAS = {"numpy.int": "builtins.int", "numpy.int_": "numpy.int64", "pandas.core.indexes.numeric.Int64Index": "pandas.Int64Index"}


def norm_type(name):
    return ALIAS.get(name, name)


# ------------------------------------------------------------------------- interpreter
class FHInterp(Interp):
    """See module docstring."""

    def __init__(self, repo, scenario=None, no_inline=(), inline_depth=9, extra_hook=None):
        Interp.__init__(self, repo, scenario=scenario, hooks=self._hook, inline_depth=inline_depth,
                        max_states=256, no_inline=no_inline)
        self.fhcls = repo.cls(FH_PATH + ":ForecastingHorizon")
        self.pathvals = {}  # atom key -> (abstract value of the test, test AST, function name)
        self.stores = []  # attribute stores on objects (dicts)
        self.callstack = []  # (calling FunctionDef, call node)
        self.extra_hook = extra_hook
        self.events = []  # property-specific log, filled by extra hooks
        self._keying = set()
        self.last_raise = None
        self._raise_log = [[]]  # per interpreted function: (raise node or None, sure?) of every raising trace
        self.mutations = []  # in-place operations on array views of horizon data: dict(node, func, value, how)
        self.partial_rejections = []  # RaiseRec of callee traces that raised while sibling traces returned
        self._acc = []  # per enclosing for-loop: {list name: (appended value, iterable, unconditional?)}

    # ------------------------------------------------------------------ objects
    def is_fh(self, v):
        return isinstance(v, Obj) and v.cls is not None and self.repo.is_subclass(v.cls, self.fhcls.qual)

    def fh_values(self, v):
        return v.attrs.get("_values", Opq("fh-without-values"))

    def make_fh(self, values, relative):
        return Obj(self.fhcls, {"_values": values, "_is_relative": K(relative)})

    def undelegate(self, v):
        """pandas-index delegation of ForecastingHorizon (``_delegator``): operators, ``len``,
        subscripts, ``max``/``min`` act on ``to_pandas()``."""
        return self.fh_values(v) if self.is_fh(v) else v

    def invoke(self, module, fn, bound, st, frame, cls, defcls, callnode=None):
        """Interpret a repo function with already evaluated arguments and merge its normal traces."""
        if frame.depth >= self.inline_depth:
            return Opq("depth-limit:" + fn.name)
        sub = Frame(module, fn, cls, defcls, frame.depth + 1)
        self.callstack.append((frame.func, callnode))
        self._raise_log.append([])
        try:
            traces, fst = self.run_function(sub, bound, st)
        finally:
            self.callstack.pop()
            log = self._raise_log.pop()
        normal = [(s, o[1] if o[0] == "return" else K(None)) for s, o in traces if o[0] in ("return", "fall")]
        if not normal:
            raise AlwaysRaises(log[-1][0] if log else None, fn.name, bool(log) and all(f for _, f in log))
        self.partial_rejections.extend(log)
        groups = []
        for s, v in normal:
            for g in groups:
                if _veq(g[0], v):
                    g[1].append(s)
                    break
            else:
                groups.append((v, [s]))
        if len(groups) == 1:
            st.facts = _facts_meet([s.facts for s in groups[0][1]])
            return groups[0][0]
        return Alt([(v, _facts_meet([s.facts for s in states])) for v, states in groups])

    def inline_call(self, e, fname, args, kwargs, st, frame):
        self.callstack.append((frame.func, e))
        self._raise_log.append([])
        try:
            r = Interp.inline_call(self, e, fname, args, kwargs, st, frame)
        except AlwaysRaises:
            raise
        except _EngineAlwaysRaises as exc:  # the engine noticed that the callee raises on every trace
            log = self._raise_log[-1]
            raise AlwaysRaises(log[-1][0] if log else None, str(exc), bool(log) and all(f for _, f in log))
        finally:
            self.callstack.pop()
            log = self._raise_log.pop()
        if isinstance(r, Opq) and r.tag.startswith("never-returns:"):  # older engine
            raise AlwaysRaises(log[-1][0] if log else None, r.tag[14:], bool(log) and all(f for _, f in log))
        self.partial_rejections.extend(log)
        return r

    def instantiate(self, cls, args, kwargs, st, frame, callnode=None):
        hit = self.repo.lookup_method(cls, "__init__")
        obj = Obj(cls)
        if hit is None:
            return obj
        k, fn = hit
        params = [p.arg for p in fn.args.posonlyargs + fn.args.args]
        bound = {params[0]: obj}
        if len(args) > len(params) - 1:
            return Opq("ctor-arity", args)
        for p, v in zip(params[1:], args):
            bound[p] = v
        for kw, v in kwargs.items():
            if kw not in params and fn.args.kwarg is None:
                return Opq("ctor-unknown-keyword:" + kw)
            bound[kw] = v
        mark = len(self.stores)
        obj.mutable = True
        try:
            r = self.invoke(k.module, fn, bound, st, frame, cls, k, callnode)
        finally:
            obj.mutable = False
        if isinstance(r, Opq) and r.tag.startswith("depth-limit"):
            return Opq("never-constructs:" + cls.name, [r])
        seen = {}
        for ev in self.stores[mark:]:
            if ev["obj"] is obj:
                if ev["attr"] in seen and not _veq(seen[ev["attr"]], ev["val"]):
                    return Opq("ctor-ambiguous:" + ev["attr"], [seen[ev["attr"]], ev["val"]])
                seen[ev["attr"]] = ev["val"]
        return obj

    # ---------------------------------------------------------------- statements
    def stmt(self, node, st, frame):
        try:
            return self._stmt(node, st, frame)
        except AlwaysRaises as exc:
            inner = exc.sure and exc.node is not None
            sure = inner and self.guards_decided(node, st, frame)
            self._raise_log[-1].append(RaiseRec(exc.node, sure, st.facts.copy(), frame.func))
            return [(st, ("raise", exc.node, sure, inner))]
        except _EngineAlwaysRaises:
            self._raise_log[-1].append(RaiseRec(None, False, st.facts.copy(), frame.func))
            return [(st, ("raise", None, False))]

    def _unroll_while(self, node, st, frame, limit=16):
        """A ``while`` whose test is decided concretely in every round (manual counter over a literal table) is
        executed round by round; anything else is left to the engine (loop-carried names become opaque)."""
        live, done, exits = [st.copy()], [], []
        for _ in range(limit + 1):
            nxt = []
            for s in live:
                d = self.decide(node.test, s, frame)
                if d is None:
                    return None
                if d is False:
                    exits += self.block(node.orelse, s, frame) if node.orelse else [(s, ("fall",))]
                    continue
                for s3, o in self.block(node.body, s, frame):
                    if o[0] in ("fall", "continue"):
                        nxt.append(s3)
                    elif o[0] == "break":
                        exits.append((s3, ("fall",)))
                    else:
                        done.append((s3, o))
            live = nxt
            if not live:
                return done + exits
            if len(live) + len(done) + len(exits) > self.max_states:
                return None
        return None

    def guards_decided(self, node, st, frame):
        """Every ``if`` / loop enclosing ``node`` in the current function was *decided* on this trace (from constants,
        the scenario, the run-time-type lattice or integer facts) -- none was merely assumed by splitting the trace."""
        for outer in astq.enclosing_stmts(frame.func, node)[:-1]:
            if isinstance(outer, ast.If):
                if self.atom_key(outer.test, st, frame) in st.atoms:
                    return False
                if self.decide(outer.test, st, frame) is None:
                    return False
            elif isinstance(outer, (ast.For, ast.While, ast.Try, ast.With)):
                return False
        return True

    def _is(self, a, b):
        for x, y in ((a, b), (b, a)):
            if isinstance(y, K) and y.v is None and isinstance(x, (Sel, Mask, TV, Cnt, SymV, SelfV)):
                return False
        return Interp._is(self, a, b)

    def _stmt(self, node, st, frame):
        if isinstance(node, ast.AugAssign) and isinstance(node.target, ast.Name) and isinstance(st.env.get(node.target.id), NVec):
            # ``view op= x`` on a numpy array works in place: the owner of the data sees the new values
            self.mutations.append({"node": node, "func": frame.func, "value": st.env[node.target.id],
                                   "how": "augmented assignment"})
        if isinstance(node, ast.Raise):
            self.last_raise = node
            sure = self.guards_decided(node, st, frame)
            self._raise_log[-1].append(RaiseRec(node, sure, st.facts.copy(), frame.func))
            return [(st, ("raise", node, sure))]
        if isinstance(node, ast.ImportFrom):
            mod = frame.module._abs(node.level, node.module)
            for a in node.names:
                if a.name == "*":
                    continue
                sym = self.repo._resolve_abs(mod + "." + a.name)
                if sym is not None:
                    st.env[a.asname or a.name] = SymV(sym)
            return [(st, ("fall",))]
        if isinstance(node, ast.While):
            r = self._unroll_while(node, st, frame)
            if r is not None:
                return r
        inner = getattr(Interp, "_exec_stmt", None)
        if inner is not None:
            return inner(self, node, st, frame)
        return Interp.stmt(self, node, st, frame)

    def assign(self, target, val, st, frame):
        if isinstance(target, ast.Attribute):
            base = self.ev(target.value, st, frame)
            if isinstance(base, SelfV):
                base.attrs[target.attr] = val
                self.stores.append({"obj": base, "attr": target.attr, "val": val, "facts": st.facts.copy(),
                                    "atoms": dict(st.atoms), "node": target, "func": frame.func,
                                    "stack": list(self.callstack), "loops": list(st.loops)})
                return
            self.events.append({"kind": "attr-store", "base": base, "attr": target.attr, "val": val,
                                "node": target, "func": frame.func, "facts": st.facts.copy()})
        return Interp.assign(self, target, val, st, frame)

    def store_subscript(self, target, val, st, frame):
        base = self.ev(target.value, st, frame)
        if isinstance(base, NVec):
            self.mutations.append({"node": target, "func": frame.func, "value": base, "how": "element assignment"})
        idx = self.ev(target.slice, st, frame) if not isinstance(target.slice, ast.Slice) else None
        self.events.append({"kind": "subscript-store", "base": base, "idx": idx, "val": val, "node": target,
                            "func": frame.func, "facts": st.facts.copy()})
        return Interp.store_subscript(self, target, val, st, frame)

    # ---------------------------------------------------------------- conditions
    def atom_key(self, test, st, frame):
        if id(test) in self._keying:  # re-entrant lookup while the test itself is being evaluated
            return "%s:%s" % (frame.func.name, ast.dump(test))
        self._keying.add(id(test))
        try:
            v = self.ev(test, st, frame)
        finally:
            self._keying.discard(id(test))
        if isinstance(v, Opq) and v.tag in ("boolop", "cmp") and not v.args:
            key = "%s:%s" % (frame.func.name, ast.dump(test))
        else:
            key = "v:%r" % (v,)
        self.pathvals[key] = (v, test, frame.func.name)
        return key

    def path_of(self, st):
        """[(abstract test value, truth, test AST)] for one trace, ``not`` folded into the truth value."""
        out = []
        for key, truth in st.atoms.items():
            if key not in self.pathvals:
                continue
            v, test, _ = self.pathvals[key]
            while isinstance(v, Opq) and v.tag == "not" and len(v.args) == 1:
                v, truth = v.args[0], not truth
            out.append((v, truth, test))
        return out

    def decide(self, test, st, frame):
        r = self._decide_type_test(test, st, frame)
        if r is not None:
            return r
        r = Interp.decide(self, test, st, frame)
        if r is None and not isinstance(test, (ast.BoolOp, ast.Compare, ast.UnaryOp)):
            # truthiness of an integer: non-zero
            lv = as_lin_val(self.ev(test, st, frame))
            if lv is not None:
                if st.facts.entails_cmp(lv, ">=", 1) is not None or st.facts.entails_cmp(lv, "<=", -1) is not None:
                    return True
                if st.facts.entails_cmp(lv, "==", 0) is not None:
                    return False
        return r

    def _decide_type_test(self, test, st, frame):
        """``type(x) in TYPES`` / ``not in`` / ``==`` / ``is``: exact run-time type equality."""
        if not (isinstance(test, ast.Compare) and len(test.ops) == 1):
            return None
        left, op, right = test.left, test.ops[0], test.comparators[0]
        if not (isinstance(left, ast.Call) and isinstance(left.func, ast.Name) and left.func.id == "type"
                and len(left.args) == 1 and not left.keywords and "type" not in st.env):
            return None
        if not isinstance(op, (ast.In, ast.NotIn, ast.Eq, ast.NotEq, ast.Is, ast.IsNot)):
            return None
        names = self.type_names(right, st, frame.module)
        kinds = self.kinds_of(self.ev(left.args[0], st, frame))
        if names is None or kinds is None:
            return None
        res = {k in names for k in kinds}
        if len(res) != 1:
            return None
        r = res.pop()
        return r if isinstance(op, (ast.In, ast.Eq, ast.Is)) else (not r)

    def type_names(self, node, st, module, _depth=0):
        """Set of normalised dotted class names denoted by a type expression (name, attribute, tuple)."""
        if _depth > 4:
            return None
        if isinstance(node, (ast.Tuple, ast.List)):
            out = set()
            for e in node.elts:
                if isinstance(e, ast.Starred):
                    return None
                sub = self.type_names(e, st, module, _depth + 1)
                if sub is None:
                    return None
                out |= sub
            return out
        if isinstance(node, ast.Name) and st is not None and node.id in st.env:
            v = st.env[node.id]
            return self._type_names_of_value(v)
        d = dotted(node)
        if d is None:
            return None
        sym = self.repo.resolve_dotted(module, d)
        if sym is None:
            if "." not in d and d in BUILTIN_TYPES:
                return {"builtins." + d}
            return None
        if sym.kind == "ext":
            return {norm_type(sym.dotted)}
        if sym.kind == "class":
            return {"repo:" + sym.target.qual}
        if sym.kind == "const" and isinstance(sym.target, ast.AST):
            return self.type_names(sym.target, None, sym.module, _depth + 1)
        return None

    def _type_names_of_value(self, v):
        if isinstance(v, SymV):
            if v.sym.kind == "class":
                return {"repo:" + v.sym.target.qual}
            if v.sym.kind == "ext":
                return {norm_type(v.sym.dotted)}
            return None
        if isinstance(v, Tup):
            out = set()
            for x in v.items:
                sub = self._type_names_of_value(x)
                if sub is None:
                    return None
                out |= sub
            return out
        if isinstance(v, Alt):
            return None
        if isinstance(v, Opq) and v.tag.startswith("global:"):
            # a module-level name: a class (external or repo) or a constant tuple of classes -- never guessed
            name = v.tag[7:]
            sym = self.repo._resolve_abs(name)
            if sym is None:
                return None
            if sym.kind == "ext":
                return {norm_type(sym.dotted)}
            if sym.kind == "class":
                return {"repo:" + sym.target.qual}
            if sym.kind == "const" and isinstance(sym.target, ast.AST):
                return self.type_names(sym.target, None, sym.module, 1)
            return None
        if isinstance(v, Opq) and v.tag.startswith("attr:") and len(v.args) == 1:
            base = self._type_names_of_value(v.args[0])
            if base is not None and len(base) == 1:
                return {norm_type(list(base)[0] + "." + v.tag[5:])}
        return None

    def kinds_of(self, v):
        """Possible exact run-time types of an abstract value (set of dotted names) or None."""
        if isinstance(v, Lin):
            return {"builtins.int", "numpy.int64"}
        if isinstance(v, K):
            if v.v is None:
                return {"builtins.NoneType"}
            return {"builtins." + type(v.v).__name__}
        if isinstance(v, (Vec, Sel)):
            # an integer index: the quantifier covers Int64Index and RangeIndex (tests that tell them apart split)
            return {"pandas.Int64Index", "pandas.RangeIndex"} if isinstance(v, Vec) else {"pandas.Int64Index"}
        if isinstance(v, Rng):
            return {"numpy.ndarray"}
        if isinstance(v, Mask):
            return {"numpy.ndarray"}
        if isinstance(v, TV):
            return {v.kind}
        if isinstance(v, Obj) and v.cls is not None:
            return {"repo:" + v.cls.qual}
        return None

    def supers_of(self, kind):
        if kind.startswith("repo:"):
            c = self.repo.classes.get(kind[5:])
            out = {kind, OBJECT}
            if c is not None:
                for k in self.repo.mro(c):
                    out.add("repo:" + k.qual if isinstance(k, ClassInfo) else norm_type(k[4:]))
            return out
        if kind not in SUPERS:
            return None
        return SUPERS[kind] | {kind, OBJECT}

    def isinstance_of(self, v, names):
        kinds = self.kinds_of(v)
        if kinds is None or names is None:
            return None
        res = set()
        for k in kinds:
            sup = self.supers_of(k)
            if sup is None:
                return None
            res.add(bool(sup & names))
        return res.pop() if len(res) == 1 else None

    def assume(self, test, polarity, st, frame):
        if isinstance(test, ast.UnaryOp) and isinstance(test.op, ast.Not):
            return self.assume(test.operand, not polarity, st, frame)
        if isinstance(test, ast.BoolOp):
            conj = isinstance(test.op, ast.And)
            if conj == polarity:
                for v in test.values:
                    self.assume(v, polarity, st, frame)
                return
            # (a and b) false / (a or b) true: the one undecided operand carries the polarity only if every
            # other operand is decided the *neutral* way (True for `and`, False for `or`).  (The base class
            # draws the conclusion also when another operand already explains the outcome -- unsound.)
            ds = [self.decide(v, st, frame) for v in test.values]
            und = [v for v, d in zip(test.values, ds) if d is None]
            if len(und) == 1 and all(d is None or d is conj for d in ds):
                self.assume(und[0], polarity, st, frame)
            return
        Interp.assume(self, test, polarity, st, frame)
        if not isinstance(test, ast.Compare):
            # truthiness of an integer value: ``if n:`` is n != 0, ``if not n:`` is n == 0
            lv = as_lin_val(self.ev(test, st, frame))
            if lv is not None and not lv.is_const():
                origin = "%s %s at %s:%s" % ("truthy" if polarity else "falsy", ast.unparse(test), frame.module.relpath, test.lineno)
                if not polarity:
                    st.facts.add_cmp(lv, "==", 0, origin)
                elif st.facts.entails_cmp(lv, ">=", 0) is not None:
                    st.facts.add_cmp(lv, ">=", 1, origin)
                elif st.facts.entails_cmp(lv, "<=", 0) is not None:
                    st.facts.add_cmp(lv, "<=", -1, origin)
            return
        # integer refinement: a != b together with a >= b gives a >= b + 1 (and symmetrically)
        if isinstance(test, ast.Compare) and len(test.ops) == 1 and isinstance(test.ops[0], (ast.Eq, ast.NotEq)):
            ne = isinstance(test.ops[0], ast.NotEq) == polarity
            if ne:
                a = as_lin_val(self.ev(test.left, st, frame))
                b = as_lin_val(self.ev(test.comparators[0], st, frame))
                if a is not None and b is not None:
                    if st.facts.entails_cmp(a, ">=", b) is not None:
                        st.facts.add_cmp(a, ">=", b + 1, "negated equality %s" % ast.unparse(test))
                    elif st.facts.entails_cmp(a, "<=", b) is not None:
                        st.facts.add_cmp(a, "<=", b - 1, "negated equality %s" % ast.unparse(test))

    # --------------------------------------------------------------- expressions
    def getattr(self, base, attr, e, st, frame):
        if isinstance(base, Alt):
            return Alt([(self.getattr(x, attr, e, st, frame), f) for x, f in base.alts])
        if isinstance(base, SelfV) and base.cls is not None:
            for k in self.repo.mro(base.cls):
                if isinstance(k, ClassInfo) and attr in k.properties and "getter" in k.properties[attr]:
                    fn = k.properties[attr]["getter"]
                    return self.invoke(k.module, fn, {fn.args.args[0].arg: base}, st, frame, base.cls, k)
            if attr in base.attrs:
                return base.attrs[attr]
            hit = self.repo.lookup_class_attr(base.cls, attr)
            if hit is not None:
                k, node = hit
                if isinstance(node, ast.Constant):
                    return self.ev_Constant(node, st, frame)
            return Opq("self." + attr)
        if isinstance(base, Vec) and attr == "values":
            return NVec(base)
        if isinstance(base, (Sel, TV)) and attr == "values":
            return base
        return Interp.getattr(self, base, attr, e, st, frame)

    # -- lists built by ``name.append(x)`` in a for-loop are the comprehension ``[x for ... in it]`` ------------------
    def _for(self, node, st, frame):
        self._acc.append((node, {}))
        try:
            res = self._for_inner(node, st, frame)
        finally:
            _, acc = self._acc.pop()
        for s, o in res:
            if o[0] != "fall":
                continue
            for name, (val, itv, plain) in acc.items():
                cur = s.env.get(name)
                if plain and isinstance(cur, Tup) and not cur.items:
                    s.env[name] = Opq("listof", [val, itv])
                else:
                    s.env[name] = Opq("list-built-in-loop", [val, itv])
        return res

    def _mask_loop(self, node, mask, st, frame):
        """``for flag in mask:`` with a Boolean accumulator or an early exit, decided from the truth table of one
        iteration (flag True / flag False, accumulator symbolic).  Returns traces or None if the body is not of that kind."""
        if not isinstance(node.target, ast.Name) or node.orelse:
            return None
        assigned = {n.id for b in node.body for n in ast.walk(b) if isinstance(n, ast.Name) and isinstance(n.ctx, ast.Store)}
        carried = sorted(n for n in assigned if n in st.env and n != node.target.id)
        if len(carried) > 1:
            return None
        acc = Opq("accumulator")
        outs = {}
        for flag in (True, False):
            s = st.copy()
            s.env[node.target.id] = K(flag)
            if carried:
                s.env[carried[0]] = acc
            res = self.block(node.body, s, frame)
            if len(res) != 1:
                return None
            outs[flag] = res[0]
        (sT, oT), (sF, oF) = outs[True], outs[False]
        if carried and oT[0] in ("fall", "continue") and oF[0] in ("fall", "continue"):
            c = carried[0]
            fT, fF, init = sT.env.get(c), sF.env.get(c), st.env[c]
            after = st.copy()
            if fT == acc and fF == K(False):  # acc = acc and flag
                after.env[c] = AllV(mask) if init == K(True) else (K(False) if init == K(False) else Opq("and", [init, AllV(mask)]))
            elif fT == K(True) and fF == acc:  # acc = acc or flag
                after.env[c] = Opq("any", [mask]) if init == K(False) else (K(True) if init == K(True) else Opq("or", [init, Opq("any", [mask])]))
            elif fT == K(True) and fF == K(False):  # acc = flag : only the last element counts
                after.env[c] = Opq("last-element-of", [mask, init])
            elif fT == K(False) and fF == K(True):
                after.env[c] = Opq("not-last-element-of", [mask, init])
            elif fT == acc and fF == acc:
                pass
            else:
                return None
            if isinstance(node.target, ast.Name):
                after.env[node.target.id] = Opq("loop-var-after:" + node.target.id)
            return [(after, ("fall",))]
        if not carried:
            # early exit: ``if not flag: return v`` / ``if flag: return v``
            for exits_on, (sx, ox), (sk, ok_) in ((False, outs[False], outs[True]), (True, outs[True], outs[False])):
                if ox[0] == "return" and ok_[0] in ("fall", "continue"):
                    cond = AllV(mask) if exits_on is False else AllV(mask.complement())
                    key = "v:%r" % (cond,)
                    self.pathvals[key] = (cond, node.iter, frame.func.name)
                    s_exit, s_stay = st.copy(), st.copy()
                    s_exit.atoms[key], s_stay.atoms[key] = False, True
                    s_stay.env[node.target.id] = Opq("loop-var-after:" + node.target.id)
                    return [(s_exit, ("return", ox[1])), (s_stay, ("fall",))]
        return None

    def _for_inner(self, node, st, frame):
        # a loop over a short literal tuple / list of constants is unrolled (a dispatch table walked in order)
        itv = self.ev(node.iter, st, frame)
        if isinstance(itv, Mask):
            r = self._mask_loop(node, itv, st, frame)
            if r is not None:
                return r
        if isinstance(itv, Tup) and 0 < len(itv.items) <= 8 and all(isinstance(x, (K, Lin)) for x in itv.items) \
                and isinstance(node.iter, (ast.Tuple, ast.List)):
            live, done, broken = [st], [], []
            for item in itv.items:
                nxt = []
                for s in live:
                    s2 = s.copy()
                    self.assign(node.target, item, s2, frame)
                    for s3, o in self.block(node.body, s2, frame):
                        if o[0] in ("fall", "continue"):
                            nxt.append(s3)
                        elif o[0] == "break":
                            broken.append(s3)
                        else:
                            done.append((s3, o))
                live = nxt
                if len(live) + len(done) > self.max_states:
                    return Interp._for(self, node, st, frame)
            out = list(done)
            for s in live:
                out += self.block(node.orelse, s, frame) if node.orelse else [(s, ("fall",))]
            return out + [(s, ("fall",)) for s in broken]
        return Interp._for(self, node, st, frame)

    def _note_list_growth(self, call, args, st, frame):
        """``name.append(v)`` inside the innermost interpreted for-loop, ``name`` bound to a list literal."""
        f = call.func
        if not (self._acc and isinstance(f, ast.Attribute) and f.attr in ("append", "extend", "insert")
                and isinstance(f.value, ast.Name) and isinstance(st.env.get(f.value.id), Tup)):
            return False
        loopnode, acc = self._acc[-1]
        path = astq.enclosing_stmts(loopnode, call)
        if not path:
            return False
        plain = (f.attr == "append" and len(args) == 1 and len(path) == 1 and isinstance(path[0], ast.Expr)
                 and path[0].value is call and not loopnode.orelse
                 and not any(isinstance(n, (ast.Break, ast.Continue)) for n in astq.walk_no_nested(loopnode)))
        val = args[0] if args else Opq("?")
        if f.value.id in acc and not (_veq(acc[f.value.id][0], val) and acc[f.value.id][2] and plain):
            plain = False
        acc[f.value.id] = (val, self.ev(loopnode.iter, st, frame), plain)
        return True

    def ev_ListComp(self, e, st, frame):
        # ``[x + d for x in range/vector]`` (d free of x) is the shifted progression / vector
        if len(e.generators) == 1 and not e.generators[0].ifs and isinstance(e.generators[0].target, ast.Name) \
                and not e.generators[0].is_async:
            g = e.generators[0]
            itv = self.ev(g.iter, st, frame)
            if isinstance(itv, (Rng, Vec)) and not (isinstance(e.elt, ast.Name) and e.elt.id == g.target.id):
                self.uid += 1
                var = "%s@comp%d" % (g.target.id, self.uid)
                s2 = st.copy()
                s2.env[g.target.id] = Lin.sym(var)
                elt = as_lin_val(self.ev(e.elt, s2, frame))
                if elt is not None and elt.terms.get(var) == 1:
                    off = elt - Lin.sym(var)
                    if var not in off.symbols():
                        return fresh(itv).shift(off)
        # identity comprehension ``[x for x in it]`` denotes the iterable's elements
        if len(e.generators) == 1 and not e.generators[0].ifs and isinstance(e.elt, ast.Name) \
                and isinstance(e.generators[0].target, ast.Name) and e.elt.id == e.generators[0].target.id:
            return self.ev(e.generators[0].iter, st, frame)
        if len(e.generators) == 1 and not e.generators[0].ifs:
            g = e.generators[0]
            it = self.ev(g.iter, st, frame)
            s2 = st.copy()
            self.assign(g.target, Opq("elem", [it]), s2, frame)
            return Opq("listof", [self.ev(e.elt, s2, frame), it])
        return Opq("expr:ListComp")

    def ev_Compare(self, e, st, frame):
        if len(e.ops) == 1:
            a = self.undelegate(self.ev(e.left, st, frame))
            b = self.undelegate(self.ev(e.comparators[0], st, frame))
            op = CMPS.get(type(e.ops[0]))
            if op is not None:
                if isinstance(b, Vec) and as_lin_val(a) is not None:
                    a, b, op = b, a, FLIP[op]
                lb = as_lin_val(b)
                if isinstance(a, Vec) and lb is not None:
                    v = a.shift(-lb)
                    if op == "<=":
                        return Mask("le", v)
                    if op == "<":
                        return Mask("le", v.shift(1))
                    if op == ">":
                        return Mask("gt", v)
                    if op == ">=":
                        return Mask("gt", v.shift(1))
                    return Mask("eq" if op == "==" else "ne", v)
                if isinstance(a, Cnt) or isinstance(b, Cnt):
                    return Opq("cmp:" + op, [a, b])
        return Interp.ev_Compare(self, e, st, frame)

    def ev_BoolOp(self, e, st, frame):
        d = self.decide(e, st, frame)
        if d is not None:
            return K(d)
        conj = isinstance(e.op, ast.And)
        parts = []
        for v in e.values:
            dv = self.decide(v, st, frame)
            if dv is None:
                parts.append(self.ev(v, st, frame))
            elif dv is not conj:
                return K(dv)
        if len(parts) == 1:
            return parts[0]
        return Opq("and" if conj else "or", parts)

    def ev_UnaryOp(self, e, st, frame):
        if isinstance(e.op, ast.Invert):
            v = self.ev(e.operand, st, frame)
            if isinstance(v, Mask):
                return v.complement()
            return Opq("unary:Invert", [v])
        return Interp.ev_UnaryOp(self, e, st, frame)

    def binop(self, op, a, b, st):
        a, b = self.undelegate(a), self.undelegate(b)
        if isinstance(op, (ast.Add, ast.Sub)):
            # a selection shifted by a scalar is the selection (same mask) of the shifted vector
            if isinstance(a, Sel) and as_lin_val(b) is not None:
                d = as_lin_val(b)
                return Sel(a.base.shift(d if isinstance(op, ast.Add) else -d), a.mask)
            if isinstance(b, Sel) and as_lin_val(a) is not None and isinstance(op, ast.Add):
                return Sel(b.base.shift(as_lin_val(a)), b.mask)
        return Interp.binop(self, op, a, b, st)

    def slice(self, base, lo, hi, st):
        base = self.undelegate(base)
        if isinstance(base, Vec) and hi is None and isinstance(lo, Opq) and lo.tag == "argmax" and len(lo.args) == 1 \
                and isinstance(lo.args[0], Mask):
            # values[mask.argmax():] -- "from the first True on"; argmax of an all-False mask is 0 (numpy), so this is
            # the whole vector when nothing is selected.  Kept as a selection with its own mask form.
            return Sel(base, Mask("from-first-" + lo.args[0].op, lo.args[0].vec))
        # sorted values cut at a searchsorted position of an aligned sorted vector:  v[:p] / v[p:]
        for bound, head in ((hi, True), (lo, False)):
            other = lo if head else hi
            if isinstance(base, Vec) and other is None and isinstance(bound, Opq) and bound.tag == "searchsorted" \
                    and len(bound.args) == 3 and isinstance(bound.args[0], Vec):
                keys, c, side = bound.args
                lc = as_lin_val(c)
                if keys.base == base.base and base.sorted and keys.sorted and not base.neg and not keys.neg and lc is not None \
                        and isinstance(side, K) and side.v in ("left", "right"):
                    # position = number of keys < c (left) / <= c (right); the head are exactly those elements
                    m = Mask("le", keys.shift(-lc) if side.v == "right" else keys.shift(-lc + 1))
                    return Sel(base, m if head else m.complement())
        return Interp.slice(self, base, lo, hi, st)

    def index(self, base, idx, e, st, frame):
        base = self.undelegate(base)
        if isinstance(base, Alt):
            return Alt([(self.index(x, idx, e, st, frame), f) for x, f in base.alts])
        if isinstance(idx, Mask):
            if isinstance(base, Vec):
                return Sel(base, idx)
            return Opq("index", [base, idx])
        if isinstance(base, Vec) and isinstance(idx, Tup) and idx.items and not base.neg:
            out = []
            for it in idx.items:
                li = as_lin_val(it)
                if li is None or not li.is_const() or li.const.denominator != 1:
                    return Opq("index", [base, idx])
                out.append(base.elem({0: "first", -1: "last"}.get(int(li.const), str(int(li.const)))))
            return Tup(out)
        li = as_lin_val(idx)
        if li is not None and li.is_const() and li.const.denominator == 1 and int(li.const) not in (0, -1):
            # any constant position of a vector / array is a symbol of its own (so that a wrong element is a wrong value)
            if isinstance(base, Vec) and not base.neg:
                return base.elem(str(int(li.const)))
            if isinstance(base, Arr):
                return Lin.sym("%s[%d]" % (base.name, int(li.const)))
        return Interp.index(self, base, idx, e, st, frame)

    # ------------------------------------------------------------------- calls
    def resolve_callee(self, e, fname, st, frame):
        f = e.func
        if isinstance(f, ast.Attribute) and not (isinstance(f.value, ast.Call) and dotted(f.value.func) == "super"):
            recv = self.ev(f.value, st, frame)
            if isinstance(recv, SelfV) and recv.cls is not None:
                hit = self.repo.lookup_method(recv.cls, f.attr)
                if hit:
                    k, fn = hit
                    if f.attr in k.properties:
                        return None
                    return k.module, fn, recv, k, k.is_static(f.attr)
                return None
            if isinstance(recv, SymV) and recv.sym.kind == "module":
                sym = self.repo.resolve_name(recv.sym.target, f.attr)
                if sym is not None and sym.kind == "func":
                    return sym.module, sym.target, None, None, True
        if isinstance(f, ast.Name) and isinstance(st.env.get(f.id), SymV):
            sym = st.env[f.id].sym
            if sym.kind == "func":
                return sym.module, sym.target, None, None, True
            return None
        return Interp.resolve_callee(self, e, fname, st, frame)

    def callee_class(self, e, st, frame):
        """ClassInfo when the call expression instantiates a repo class (``Name(...)``, ``mod.Name(...)``,
        ``type(obj)(...)``), else None."""
        f = e.func
        if isinstance(f, ast.Call) and isinstance(f.func, ast.Name) and f.func.id == "type" and len(f.args) == 1 \
                and "type" not in st.env:
            v = self.ev(f.args[0], st, frame)
            if isinstance(v, SelfV) and v.cls is not None:
                return v.cls
            return None
        if isinstance(f, ast.Name) and f.id in st.env:
            v = st.env[f.id]
            if isinstance(v, SymV) and v.sym.kind == "class":
                return v.sym.target
            return None
        d = dotted(f)
        if d:
            sym = self.repo.resolve_dotted(frame.module, d)
            if sym is not None and sym.kind == "class":
                return sym.target
        return None

    def _hook(self, interp, frame, call, fname, args, kwargs, st):
        if self._note_list_growth(call, args, st, frame):
            return K(None)
        if self.extra_hook is not None:
            r = self.extra_hook(self, frame, call, fname, args, kwargs, st)
            if r is not NotImplemented:
                return r
        # --- instantiation of ForecastingHorizon (by name, through a local import, or type(self)(...))
        cls = self.callee_class(call, st, frame)
        if cls is not None and self.repo.is_subclass(cls, self.fhcls.qual):
            if any(isinstance(a, ast.Starred) for a in call.args) or any(k.arg is None for k in call.keywords):
                return Opq("ctor-star-args")
            return self.instantiate(cls, args, kwargs, st, frame, call)
        ext = None
        if fname and fname.split(".")[0] not in st.env:
            ext = self.ext_name(fname, frame)
        if ext == "builtins.isinstance" and len(args) == 2 and len(call.args) == 2:
            names = self.type_names(call.args[1], st, frame.module)
            r = self.isinstance_of(args[0], names)
            return K(r) if r is not None else Opq("isinstance", args)
        if ext == "builtins.type" and len(args) == 1:
            return Opq("type", args)
        if ext == "builtins.getattr" and len(args) == 2 and isinstance(args[1], K) and isinstance(args[1].v, str):
            return self.getattr(args[0], args[1].v, call, st, frame)
        if ext == "builtins.bool" and len(args) == 1 and (isinstance(args[0], K) or (
                isinstance(args[0], Opq) and args[0].tag.startswith(("cmp:", "or", "and", "not")))):
            return args[0]  # truth value of a comparison
        if ext in ("builtins.list", "builtins.tuple", "numpy.array", "numpy.asarray") and len(args) == 1 and not kwargs \
                and isinstance(args[0], (Rng, Vec, Sel)):
            # same elements in the same order; only asarray may share memory with its argument
            return args[0] if ext == "numpy.asarray" else fresh(args[0])
        if ext == "builtins.len" and len(args) == 1:
            a = self.undelegate(args[0])
            if isinstance(a, (Sel, TV)):
                s = Lin.sym("len(%r)" % (a,))
                st.facts.add_cmp(s, ">=", 0, "len() is non-negative")
                return s
            if isinstance(a, Vec):
                s = Lin.sym("len(%s)" % a.base)
                st.facts.add_cmp(s, ">=", 0, "len() is non-negative")
                return s
            if isinstance(a, Arr):
                st.facts.add_cmp(a.length, ">=", 0, "len() is non-negative")
                return a.length
            if a is not args[0]:
                return Opq("len", [a])
            return NotImplemented
        if ext in ("builtins.sum", "numpy.sum", "numpy.count_nonzero") and len(args) == 1 and isinstance(args[0], Mask):
            return Cnt(args[0])
        if ext in ("builtins.all", "numpy.all") and len(args) == 1 and isinstance(args[0], Mask):
            return AllV(args[0])
        if ext in ("numpy.logical_not", "numpy.invert") and len(args) == 1 and isinstance(args[0], Mask):
            return args[0].complement()
        if ext == "numpy.argmax" and len(args) == 1 and not kwargs and isinstance(args[0], Mask):
            return Opq("argmax", args)
        if ext in ("numpy.asarray", "numpy.array", "numpy.asanyarray") and args and isinstance(args[0], TV):
            # container conversion; with a dtype it is a *cast* (numpy casts floats to ints by truncation, silently)
            dtype = kwargs.get("dtype", args[1] if len(args) > 1 else None)
            if dtype is None or dtype == K(None):
                return TV("numpy.ndarray", "asarray", [args[0]])
            return TV("numpy.ndarray", "cast", [args[0], dtype])
        if ext in ("pandas.Int64Index", "pandas.Index") and args:
            a = args[0]
            if isinstance(a, (Vec, Sel)):
                return a
            if isinstance(a, Tup) and len(a.items) == 1:
                return TV("pandas.Int64Index", "single", [a.items[0]])
            if isinstance(a, TV) and a.kind in ("builtins.list", "numpy.ndarray"):
                return TV("pandas.Int64Index", "Int64Index", [a])
            return Opq("call:" + ext, args)
        # --- methods of index-like values
        if isinstance(call.func, ast.Attribute):
            meth = call.func.attr
            recv = self.ev(call.func.value, st, frame)
            if self.is_fh(recv) and self.repo.lookup_method(recv.cls, meth) is None:
                if meth in ("max", "min", "__len__", "__getitem__"):
                    recv = self.fh_values(recv)  # delegated to the wrapped index
                else:
                    return Opq("fh-unknown-method:" + meth, args)
            if isinstance(recv, (Vec, Sel, TV)) and (not isinstance(recv, TV) or recv.kind.startswith("pandas.")):
                if meth == "nunique" and not args:
                    return Opq("nunique", [recv])
                if meth in ("duplicated",) and not args:
                    return Opq("duplicated", [recv])
                if meth == "sort_values" and not args and not kwargs:
                    if isinstance(recv, Vec):
                        # sorting keeps the multiset: the normal form (base, offset, sign) is unchanged
                        return Vec(recv.base, recv.off, True, recv.neg)
                    if isinstance(recv, Sel):
                        return recv
                    if recv.tag == "sorted":
                        return recv
                    return TV(recv.kind, "sorted", [recv])
                if meth == "to_numpy" and isinstance(recv, Vec) and kwargs.get("copy") != K(True) and not args:
                    return NVec(recv)  # no-copy view of the index data (numpy / pandas semantics for integer indices)
                if meth in ("to_numpy", "copy", "to_list", "tolist"):
                    return fresh(recv)
                if meth in ("sort", "fill", "resize", "put", "itemset", "partition") and isinstance(recv, NVec):
                    self.mutations.append({"node": call, "func": frame.func, "value": recv, "how": "." + meth + "()"})
                    return K(None)
                if meth == "searchsorted" and isinstance(recv, Vec) and args and as_lin_val(args[0]) is not None:
                    side = kwargs.get("side", args[1] if len(args) > 1 else K("left"))
                    return Opq("searchsorted", [recv, args[0], side])
                if meth in ("max", "min") and not args and isinstance(recv, Vec) and recv.sorted and not recv.neg:
                    return recv.elem("last" if meth == "max" else "first")
            if isinstance(recv, TV) and meth == "astype" and args:
                return TV(recv.kind, "cast", [recv, args[0]])
            if isinstance(recv, Mask):
                if meth == "argmax" and not args and not kwargs:
                    return Opq("argmax", [recv])
                if meth == "sum" and not args:
                    return Cnt(recv)
                if meth == "all" and not args:
                    return AllV(recv)
            if isinstance(recv, Opq) and recv.tag == "duplicated" and meth == "any" and not args:
                return Opq("has-duplicates", recv.args)
        return NotImplemented


CMPS = {ast.Lt: "<", ast.LtE: "<=", ast.Gt: ">", ast.GtE: ">=", ast.Eq: "==", ast.NotEq: "!="}
FLIP = {"<": ">", "<=": ">=", ">": "<", ">=": "<=", "==": "==", "!=": "!="}
BUILTIN_TYPES = {"int", "bool", "float", "str", "list", "tuple", "set", "dict", "object", "complex", "bytes"}


# --------------------------------------------------------------------- driver helpers
class Raised(tuple):
    """(state, raise node) of a raising trace; ``sure``: explicit ``raise`` reached through decided conditions only."""

    def __new__(cls, st, node, sure, inner=None):
        t = tuple.__new__(cls, (st, node))
        t.sure = bool(sure) and node is not None
        # ``inner``: certain *given* the conditions assumed in the top frame (see FHInterp.path_of for those)
        t.inner = t.sure if inner is None else (bool(inner) and node is not None)
        return t


class Returned(list):
    """Returning traces [(state, value)] of a run; ``raises`` are the raising traces of the same run."""
    raises = ()


def rejected_inputs(records, input_symbols):
    """[(conditions, raise node)] for raising traces whose *whole* assumed path condition is a set of affine facts over
    the given input symbols: exactly those inputs are rejected although sibling traces accept."""
    out = []
    for facts, node in records:
        if facts is None:
            continue
        assumed = [f for f, o in facts.items if str(o).startswith(("guard", "negated guard", "truthy", "falsy", "negated equality"))]
        cond = [f for f in assumed if f.symbols() and f.symbols() <= set(input_symbols)]
        if cond and len(cond) == len(assumed) and not any(repr(cond) == repr(c) for c, _ in out):
            out.append((cond, node))
    return out


def rejects_for_sure(raises):
    """Every raising trace ends at an explicit ``raise`` whose guards were decided from known facts."""
    return bool(raises) and all(getattr(r, "sure", False) for r in raises)


def no_result(ctx, rule, construct, raises, what, loc):
    """No returning trace for an input that must be accepted: VIOLATION only if the rejection is certain."""
    if rejects_for_sure(raises):
        ctx.violation(rule, construct, what, loc)
    else:
        ctx.undecided(rule, construct, "no returning path was interpreted and the rejection is not an explicit `raise` under "
                      "decided conditions (%s)" % what, loc)


def run(it, module, fn, args, cls=None, defcls=None, facts=None):
    """Interpret ``fn`` as the top frame; returns (returning [(state, value)], raising [(state, node)])."""
    st = State(facts=facts) if facts is not None else State()
    traces, fst = it.run_function(Frame(module, fn, cls, defcls), args, st)
    rets, raises = Returned(), []
    for s, o in traces:
        if o[0] == "return":
            v = o[1]
            if isinstance(v, Alt):
                for x, f in v.alts:
                    s2 = s.copy()
                    s2.facts = f
                    rets.append((s2, x))
            else:
                rets.append((s, v))
        elif o[0] == "fall":
            rets.append((s, K(None)))
        elif o[0] == "raise":
            raises.append(Raised(s, o[1] if len(o) > 1 else None, o[2] if len(o) > 2 else False, o[3] if len(o) > 3 else None))
    rets.raises = raises
    return rets, raises, fst


def exc_name(node):
    """Simple name of the exception class raised by an ``ast.Raise`` node."""
    if node is None or node.exc is None:
        return None
    e = node.exc.func if isinstance(node.exc, ast.Call) else node.exc
    d = dotted(e)
    return d.split(".")[-1] if d else None
