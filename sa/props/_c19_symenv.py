"""Straight-line symbolic environment (provenance terms as substituted ASTs) -- helper of C18/C19.

``env_at(fn, target)`` walks ``fn`` in execution order down to the statement that contains ``target`` and
returns ``{local name: expression}`` where every expression is written over parameters, ``self`` attributes
and marker calls only:

* ``ITER__(E)[i]...``  -- the value bound by ``for <targets> in E`` (component path of the target tuple);
* ``PHI__(E)``         -- a loop-carried name: its value before the loop (``E``) or the one assigned in a previous iteration;
* ``WITH__(E)``        -- ``with E as name``;
* ``UNPACK__(E)[i]``   -- tuple-unpacking of a non-tuple value;
* ``OPAQUE__<n>``      -- a value that differs between paths (assigned in a branch that is not on the way to ``target``).

``subst(expr, env)`` rewrites an expression into that vocabulary; comparing ``astq.canon`` of two substituted
expressions compares *provenance*, independent of local names, temporaries and statement order.
"""
import ast
import copy
import itertools

from .. import astq

_counter = itertools.count()

ITER, PHI, WITH, UNPACK, OPAQUE = "ITER__", "PHI__", "WITH__", "UNPACK__", "OPAQUE__"


def _name(idn):
    return ast.Name(id=idn, ctx=ast.Load())


def _call(fname, *args):
    return ast.Call(func=_name(fname), args=list(args), keywords=[])


def _sub(value, i):
    return ast.Subscript(value=value, slice=ast.Constant(value=i), ctx=ast.Load())


def opaque():
    return _name("%s%d" % (OPAQUE, next(_counter)))


def is_marker(node, marker):
    return isinstance(node, ast.Call) and isinstance(node.func, ast.Name) and node.func.id == marker


def is_opaque(node):
    return any(isinstance(n, ast.Name) and n.id.startswith(OPAQUE) for n in ast.walk(node))


class _Subst(ast.NodeTransformer):
    def __init__(self, env):
        self.env = env

    def visit_Name(self, node):
        if isinstance(node.ctx, ast.Load) and node.id in self.env:
            return copy.deepcopy(self.env[node.id])
        return node

    def visit_Lambda(self, node):
        return node

    def _comp(self, node):
        # comprehension variables shadow locals
        bound = {n.id for g in node.generators for n in ast.walk(g.target) if isinstance(n, ast.Name)}
        inner = {k: v for k, v in self.env.items() if k not in bound}
        sub = _Subst(inner)
        for f, v in ast.iter_fields(node):
            if isinstance(v, list):
                setattr(node, f, [sub.visit(x) if isinstance(x, ast.AST) else x for x in v])
            elif isinstance(v, ast.AST):
                setattr(node, f, sub.visit(v))
        return node

    visit_ListComp = visit_SetComp = visit_GeneratorExp = visit_DictComp = _comp

    def visit_comprehension(self, node):
        node.iter = self.visit(node.iter)
        node.ifs = [self.visit(x) for x in node.ifs]
        return node


def subst(expr, env):
    return _Subst(env).visit(copy.deepcopy(expr))


def contains(st, target):
    return any(n is target for n in ast.walk(st))


def stored_names(node):
    out = set()
    for n in astq.walk_no_nested(node):
        if isinstance(n, ast.Name) and isinstance(n.ctx, (ast.Store, ast.Del)):
            out.add(n.id)
    return out


def _mentions(expr, name):
    return any(isinstance(n, ast.Name) and n.id == name for n in ast.walk(expr))


def _assign_name(env, name, value, live):
    """(Re)bind ``name``.  Environment values are closed terms: their free names denote parameters at function
    entry (everything else was substituted when the value was computed), so no entry goes stale."""
    live.add(name)
    env[name] = value


def _bind_target(env, target, value, live):
    if isinstance(target, ast.Name):
        _assign_name(env, target.id, value, live)
    elif isinstance(target, (ast.Tuple, ast.List)):
        if isinstance(value, (ast.Tuple, ast.List)) and len(value.elts) == len(target.elts) \
                and not any(isinstance(e, ast.Starred) for e in list(value.elts) + list(target.elts)):
            for t, v in zip(target.elts, value.elts):
                _bind_target(env, t, v, live)
        else:
            for i, t in enumerate(target.elts):
                if isinstance(t, ast.Starred):
                    for nm in stored_names(t):
                        _assign_name(env, nm, opaque(), live)
                else:
                    _bind_target(env, t, _sub(value, i), live)
    # attribute / subscript stores do not bind locals


def _apply(st, env, live):
    if isinstance(st, ast.Assign):
        val = subst(st.value, env)
        for t in st.targets:
            if isinstance(t, ast.Name):
                _assign_name(env, t.id, val, live)
            elif isinstance(t, (ast.Tuple, ast.List)):
                v = val if isinstance(val, (ast.Tuple, ast.List)) else _call(UNPACK, val)
                _bind_target(env, t, v, live)
    elif isinstance(st, ast.AnnAssign) and isinstance(st.target, ast.Name) and st.value is not None:
        _assign_name(env, st.target.id, subst(st.value, env), live)
    elif isinstance(st, ast.AugAssign) and isinstance(st.target, ast.Name):
        old = env.get(st.target.id, _name(st.target.id))
        _assign_name(env, st.target.id, ast.BinOp(left=copy.deepcopy(old), op=st.op, right=subst(st.value, env)), live)
    elif isinstance(st, (ast.If, ast.For, ast.While, ast.With, ast.Try, ast.AsyncFor, ast.AsyncWith)):
        for nm in stored_names(st):
            _assign_name(env, nm, opaque(), live)
    elif isinstance(st, ast.Delete):
        for nm in stored_names(st):
            _assign_name(env, nm, opaque(), live)
    elif isinstance(st, (ast.Import, ast.ImportFrom, ast.FunctionDef, ast.ClassDef)):
        pass


def _walk(stmts, target, env, live):
    for st in stmts:
        if not contains(st, target):
            _apply(st, env, live)
            continue
        if isinstance(st, (ast.For, ast.AsyncFor)):
            if contains(st.iter, target) or contains(st.target, target):
                return True
            it = subst(st.iter, env)
            in_body = any(contains(s, target) for s in st.body)
            if in_body:
                carried = set()
                for s in st.body:
                    carried |= stored_names(s)
                carried -= stored_names(st.target)
                for nm in carried:
                    if nm in env:
                        _assign_name(env, nm, _call(PHI, env[nm]), live)
                    elif nm in live:
                        _assign_name(env, nm, _call(PHI, _name(nm)), live)
                _bind_target(env, st.target, _call(ITER, it), live)
                return _walk(st.body, target, env, live)
            _apply(st, env, live)
            return _walk(st.orelse, target, env, live)
        if isinstance(st, ast.While):
            if contains(st.test, target):
                return True
            if any(contains(s, target) for s in st.body):
                for nm in set().union(*[stored_names(s) for s in st.body]):
                    if nm in env or nm in live:
                        _assign_name(env, nm, _call(PHI, env.get(nm, _name(nm))), live)
                return _walk(st.body, target, env, live)
            _apply(st, env, live)
            return _walk(st.orelse, target, env, live)
        if isinstance(st, ast.If):
            if contains(st.test, target):
                return True
            if any(contains(s, target) for s in st.body):
                return _walk(st.body, target, env, live)
            return _walk(st.orelse, target, env, live)
        if isinstance(st, (ast.With, ast.AsyncWith)):
            for item in st.items:
                if contains(item.context_expr, target):
                    return True
                if item.optional_vars is not None:
                    _bind_target(env, item.optional_vars, _call(WITH, subst(item.context_expr, env)), live)
            return _walk(st.body, target, env, live)
        if isinstance(st, ast.Try):
            if any(contains(s, target) for s in st.body):
                return _walk(st.body, target, env, live)
            for s in st.body:
                for nm in stored_names(s):
                    _assign_name(env, nm, opaque(), live)
            for h in st.handlers:
                if any(contains(s, target) for s in h.body):
                    if h.name:
                        _assign_name(env, h.name, opaque(), live)
                    return _walk(h.body, target, env, live)
            if any(contains(s, target) for s in st.orelse):
                return _walk(st.orelse, target, env, live)
            for h in st.handlers:
                for s in h.body:
                    for nm in stored_names(s):
                        _assign_name(env, nm, opaque(), live)
            return _walk(st.finalbody, target, env, live)
        return True  # simple statement (or nested def) containing the target
    return False


def env_at(fn, target):
    """Symbolic environment just before the statement containing ``target`` is evaluated."""
    env = {}
    live = set(astq.all_param_names(fn))
    if fn.args.vararg:
        live.add(fn.args.vararg.arg)
    if fn.args.kwarg:
        live.add(fn.args.kwarg.arg)
    if not _walk(fn.body, target, env, live):
        raise ValueError("target not inside function %s" % fn.name)
    return env


def resolve_at(fn, expr, at=None):
    """``expr`` (a node inside ``fn``) rewritten over parameters / markers at its own program point."""
    return subst(expr, env_at(fn, at if at is not None else expr))


# ---------------------------------------------------------------------------------------------- matching
class Hole:
    PREFIX = "H_"


def unify(pattern, node, binds):
    """Structural match of ``pattern`` (Names starting with ``H_`` are holes) against ``node``.
    Keyword arguments are matched by name, order-independent.  ``binds``: hole -> AST (filled in)."""
    if isinstance(pattern, ast.Name) and pattern.id.startswith(Hole.PREFIX):
        if pattern.id in binds:
            return astq.canon(binds[pattern.id]) == astq.canon(node)
        binds[pattern.id] = node
        return True
    if type(pattern) is not type(node):
        return False
    if isinstance(pattern, ast.Call):
        if not unify(pattern.func, node.func, binds) or len(pattern.args) != len(node.args):
            return False
        if not all(unify(a, b, binds) for a, b in zip(pattern.args, node.args)):
            return False
        pk = {k.arg: k.value for k in pattern.keywords}
        nk = {k.arg: k.value for k in node.keywords}
        return set(pk) == set(nk) and all(unify(pk[k], nk[k], binds) for k in pk)
    for f, pv in ast.iter_fields(pattern):
        if f in ("ctx", "lineno", "col_offset", "end_lineno", "end_col_offset", "kind", "type_comment"):
            continue
        nv = getattr(node, f, None)
        if isinstance(pv, list):
            if not isinstance(nv, list) or len(pv) != len(nv):
                return False
            for a, b in zip(pv, nv):
                if isinstance(a, ast.AST):
                    if not unify(a, b, binds):
                        return False
                elif a != b:
                    return False
        elif isinstance(pv, ast.AST):
            if not isinstance(nv, ast.AST) or not unify(pv, nv, binds):
                return False
        elif pv != nv:
            return False
    return True


def pattern(src):
    return ast.parse(src, mode="eval").body


def match(src, node):
    b = {}
    return b if unify(pattern(src), node, b) else None


def parent_map(fn):
    out = {}
    for n in ast.walk(fn):
        for ch in ast.iter_child_nodes(n):
            out[id(ch)] = n
    return out
